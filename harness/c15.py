"""C15 — flux unit conversions are mutually consistent and invertible.

Correspondence: an SED stored in unit A (SED.write, which stores the unit string through
to_string(format='fits'); a share of the files is rewritten with the legacy spellings MICRONS / HZ / MJY / ergs/cm^2/s) is read back with SED.read(unit_flux=B) (parse_unit_safe + convert_flux) for every
pair of A, B in {mJy, Jy, erg/cm^2/s, erg/s, W/m^2}, 1..5 apertures, any distance and frequency grid, both
read orders; .flux and .error are compared with driver op `convert` (SF.convertFlux over exact rationals,
unit scale factors as exact decimal rationals, nu = c/lambda and the distance in cm computed by astropy in
float as the code does).  A requested unit outside the three families must be refused (both sides).
Direct checks on the implementation alone: A->B->A through a second write/read is the identity, A->B->C
equals A->C, F = nu*F_nu and L = F*d^2 between the values returned for different requested units.
"""
import gzip
import os
import shutil
import tempfile

import numpy as np

from . import common
from .common import CaseResult, rat, rats, case_rng, nice, Fraction
from . import packages as pk

PID = 'C15'
RULE = ('cases = (stored unit of the flux column, stored unit of the error column (same or another supported unit), requested unit, third unit, SED with 1..5 apertures, distance, wavelength grid in '
        'either order, read order, 1-2 further SED files with equal-looking grids read afterwards in the same process); every case is non-trivial (every value is converted); distinct = distinct '
        'canonical hash of the generated inputs; the directed block enumerates all 25 unit pairs and the refusals')
KEYS = ['mJy', 'Jy', 'cgs', 'lum', 'SI']
FAMILY = {'mJy': 'fnu', 'Jy': 'fnu', 'cgs': 'flux', 'SI': 'flux', 'lum': 'lum'}
SCALE = {'mJy': Fraction(1, 10 ** 26), 'Jy': Fraction(1, 10 ** 23), 'cgs': Fraction(1), 'SI': Fraction(1000),
         'lum': Fraction(1)}
BAD = ['K', 'm', 'Hz', 'g']
LEGACY = {'mJy': 'MJY', 'cgs': 'ergs/cm^2/s'}      # legacy spellings in sed/helpers.py UNIT_MAPPING
REQUIRED_BRANCHES = (['%s->%s' % (a, b) for a in ('fnu', 'flux', 'lum') for b in ('fnu', 'flux', 'lum')] +
                     ['refused', 'order_nu', 'order_wav', 'apertures_1', 'apertures_5', 'wav_increasing',
                      'wav_decreasing', 'distance_next_to_1kpc', 'f4_faint_flux_density', 'read_options_nondefault', 'read_call_positional', 'read_call_keyword',
                      'file_rewritten_between_reads', 'all_zero_err', 'all_zero_flux', 'all_zero_both', 'refused_all_zero', 'sed_from_wav_and_nu', 'sed_from_nu_only', 'sed_from_wav_only', 'no_distance_keyword',
                      'gz_without_ext', 'gz_with_ext', 'sequential_read', 'sequential_same_ends_other_interior', 'dtype_f4', 'dtype_f8', 'f4_large_luminosity', 'nu_unit_Hz', 'nu_unit_kHz', 'nu_unit_GHz',
                      'nu_unit_THz', 'wav_unit_micron', 'wav_unit_other', 'legacy_units', 'legacy_MJY', 'legacy_ergs', 'err_unit_same', 'err_unit_same_family', 'err_unit_cross_family'] + ['pair_%s_%s' % (a, b) for a in KEYS for b in KEYS])
ASSUMPTIONS = ['IEEE rounding is not modelled: values compared within 1e-9 relative',
               'frequencies and distance non-zero, finite non-negative fluxes and errors (all-zero error columns and all-zero fluxes included: 0 converts to 0 in the requested unit)',
               'a file without a DISTANCE keyword is read as lying at 1 kpc (the reader\'s documented convention); the relations '
               'are then checked with d = sed.distance = 1 kpc',
               'single-precision files: expected values are computed from the float32 numbers actually stored; the result '
               'must be finite and equal to the converted value within float64 rounding (luminosities above 3.4e38 erg/s included)',
               'scale factors of the five units are the exact decimal values (mJy = 1e-26, Jy = 1e-23 erg/cm^2/s/Hz, '
               'W/m^2 = 1e3 erg/cm^2/s); astropy computes them in float',
               'the source-side refusal of convert_flux (stored unit of none of the three families) is unreachable through '
               'the public API: the SED.flux / SED.error setters validate the physical type, so such a file cannot be '
               'written with SED.write; only the target-side refusal is exercised (C15_refuse covers both in the model)']
EXHAUSTIVE = {'quick': True, 'thorough': True}   # all 5 x 5 unit pairs are enumerated in both tiers
N = {'quick': 385, 'thorough': 12000}
DIST_UNITS = ['kpc', 'pc', 'cm', 'lyr']


def units():
    from astropy import units as u
    return {'mJy': u.mJy, 'Jy': u.Jy, 'cgs': u.erg / u.cm ** 2 / u.s, 'lum': u.erg / u.s, 'SI': u.W / u.m ** 2,
            'K': u.K, 'm': u.m, 'Hz': u.Hz, 'g': u.g, 'kHz': u.kHz, 'GHz': u.GHz, 'THz': u.THz,
            'micron': u.micron, 'nm': u.nm, 'AA': u.AA, 'mm': u.mm,
            'kpc': u.kpc, 'pc': u.pc, 'cm': u.cm, 'lyr': u.lyr}


CM = {'kpc': 3.0856775814913674e21, 'pc': 3.0856775814913674e18, 'cm': 1., 'lyr': 9.4607304725808e17}
NU_UNITS = ['Hz', 'kHz', 'GHz', 'THz']
WAV_UNITS = ['micron', 'nm', 'AA', 'cm', 'mm', 'm']


def gen_case(rng, stored=None, requested=None, nap=None, order=None, wdir=None, stored_err=None, legacy=None,
             dtype=None, big_lum=None, nu_unit=None, wav_unit=None, n_extra=None, gz=None, axes=None, no_distance=None, zeros=None, near_kpc=None, faint=None):
    free_request = requested is None
    stored = stored or rng.choice(KEYS)
    # the error column carries its own unit in the file; SED validates / writes / reads the two separately
    stored_err = stored_err or (stored if rng.random() < 0.5 else rng.choice(KEYS))
    requested = requested or (rng.choice(KEYS) if rng.random() < 0.92 else rng.choice(BAD))
    third = rng.choice(KEYS)
    nap = nap or rng.choice([1, 1, 2, 3, 4, 5])
    nw = rng.choice([1, 2, 3, 5, 8, 15, 40])
    wav = sorted({nice(rng, 0.05, 3000., 4) for _ in range(nw)})
    if (wdir or rng.choice(['inc', 'dec'])) == 'dec':
        wav = wav[::-1]
    dunit = rng.choice(DIST_UNITS)
    dist = {'kpc': nice(rng, 1e-3, 1e5, 3), 'pc': nice(rng, 1., 1e7, 3), 'cm': nice(rng, 1e15, 1e26, 3),
            'lyr': nice(rng, 1., 1e8, 3)}[dunit]
    if near_kpc is None:
        near_kpc = rng.random() < 0.08
    if near_kpc:
        # distances next to (but not equal to) the reader's 1 kpc default, and exactly 1 kpc
        dunit, dist = rng.choice([('kpc', 1.000001), ('kpc', 0.999999), ('kpc', 1.00001), ('kpc', 0.99999), ('kpc', 1.),
                                  ('cm', 3.0857e21), ('pc', 1000.01), ('pc', 999.99), ('kpc', 1.0001), ('kpc', 0.9999)])
    def level_of(key):
        return {'mJy': nice(rng, 1e-4, 1e5, 2), 'Jy': nice(rng, 1e-7, 1e2, 2), 'cgs': nice(rng, 1e-16, 1e-6, 2),
                'SI': nice(rng, 1e-19, 1e-9, 2), 'lum': nice(rng, 1e28, 1e38, 2)}[key]
    dtype = dtype or rng.choice(['f8', 'f8', 'f4'])
    if big_lum is None:
        big_lum = free_request and dtype == 'f4' and stored != 'lum' and rng.random() < 0.4
    if big_lum:
        requested = 'lum'
    level = level_of(stored)
    if faint is None:
        faint = dtype == 'f4' and FAMILY[stored] == 'fnu' and rng.random() < 0.25
    if faint:
        # very faint flux densities held in single precision (1e-13 ... 1e-17 mJy: fine for float32, but 1e-39 ... 1e-43 in cgs)
        level = nice(rng, 1e-17, 1e-13, 2) * (1. if stored == 'mJy' else 1e-3)
    if dtype == 'f4' and stored == 'lum':
        level = min(level, 1e36)           # single precision ends at 3.4e38
    flux = [[float('%.4g' % (level * rng.uniform(0.1, 10.))) for _ in wav] for _ in range(nap)]
    if big_lum:
        # stored values whose luminosity L = F d^2 lies far above the single-precision range (>= 1e39 erg/s)
        d_cm = dist * CM[dunit]
        lum = nice(rng, 1e39, 1e42, 2)
        fam = FAMILY[stored]
        flux = [[float('%.4g' % (lum * rng.uniform(0.5, 2.) / d_cm ** 2 / float(SCALE[stored]) /
                                 ((2.99792458e14 / w) if fam == 'fnu' else 1.))) for w in wav] for _ in range(nap)]
    if stored_err == stored:
        err = [[float('%.3g' % (f * rng.uniform(0.01, 0.5))) for f in row] for row in flux]
    else:
        elevel = level_of(stored_err) * 0.1
        if dtype == 'f4' and stored_err == 'lum':
            elevel = min(elevel, 1e35)
        err = [[float('%.3g' % (elevel * rng.uniform(0.1, 10.))) for _ in wav] for _ in range(nap)]
    aps = sorted({float('%.3g' % nice(rng, 10., 1e5, 3)) for _ in range(nap)})
    while len(aps) < nap:
        aps.append(aps[-1] * 2)
    # model SEDs without uncertainties carry an all-zero error column; an all-zero flux row / SED is legal too
    zeros = rng.choice([None] * 5 + ['err', 'err', 'flux', 'both']) if zeros is None else (zeros or None)
    if zeros in ('err', 'both'):
        err = [[0. for _ in row] for row in err]
    if zeros in ('flux', 'both'):
        flux = [[0. for _ in row] for row in flux]
    # further SED files read one after the other in the same process: same length, end points and units as the
    # first grid but other interior points (and sometimes another length), requested across the F_nu boundary
    extras = []
    for k in range(rng.choice([1, 2]) if n_extra is None else n_extra):
        w2 = list(wav)
        if len(wav) >= 3 and (k == 0 or rng.random() < 0.7):
            lo_w, hi_w = min(wav), max(wav)
            inner = set()
            tries = 0
            while len(inner) < len(wav) - 2 and tries < 200:
                tries += 1
                x = nice(rng, lo_w, hi_w, 4)
                if lo_w < x < hi_w and x not in wav:
                    inner.add(x)
            if len(inner) == len(wav) - 2:
                w2 = [lo_w] + sorted(inner) + [hi_w]
                if wav[0] > wav[-1]:
                    w2 = w2[::-1]
        else:
            w2 = sorted({nice(rng, 0.05, 3000., 4) for _ in range(rng.choice([2, 4, 7]))})
        f2 = [[float('%.4g' % (level * rng.uniform(0.1, 10.))) for _ in w2] for _ in range(nap)]
        if stored_err == stored:
            e2 = [[float('%.3g' % (f * rng.uniform(0.01, 0.5))) for f in row] for row in f2]
        else:
            e2 = [[float('%.3g' % (err[0][0] * rng.uniform(0.1, 10.))) for _ in w2] for _ in range(nap)]
        cross = [key for key in KEYS if (FAMILY[key] == 'fnu') != (FAMILY[stored] == 'fnu')]
        if dtype == 'f4':
            cross = [key for key in cross if key != 'lum'] or cross
        extras.append(dict(wav=w2, flux=f2, err=e2, requested=rng.choice(cross)))
    axes = axes or rng.choice(['both', 'both', 'nu_only', 'wav_only'])
    nu_unit = nu_unit or rng.choice(['Hz', 'Hz', 'Hz', 'kHz', 'GHz', 'THz'])
    wav_unit = wav_unit or rng.choice(['micron', 'micron', 'micron'] + WAV_UNITS[1:])
    if axes == 'nu_only':
        wav_unit = 'micron'               # the derived wavelengths come out in micron
    elif axes == 'wav_only':
        nu_unit = 'Hz'                    # the derived frequencies come out in Hz
    return dict(stored=stored, stored_err=stored_err, requested=requested, third=third, wav=wav, extras=extras, distance=dist, distance_unit=dunit,
                apertures=aps if nap > 1 else None, flux=flux, err=err,
                order=order or rng.choice(['nu', 'wav']),
                legacy=bool(rng.random() < 0.25 if legacy is None else legacy),
                dtype=dtype, big_lum=bool(big_lum),
                gz=(rng.choice([None, None, None, 'without_ext', 'with_ext']) if gz is None else (gz or None)),
                read_opts=(dict(unit_wav=rng.choice(['micron', 'nm', 'AA', 'mm']), unit_freq=rng.choice(['Hz', 'GHz', 'THz']),
                                positional=bool(rng.random() < 0.5)) if rng.random() < 0.4 else None),
                near_kpc=bool(near_kpc), faint=bool(faint), zeros=zeros, axes=axes, no_distance=bool(rng.random() < 0.1 if no_distance is None else no_distance),
                nu_unit=nu_unit, wav_unit=wav_unit)


def gen_cases(seed, tier):
    i = 0
    # directed block: all 25 pairs, then the refusals
    for a in KEYS:
        for b in KEYS:
            rng = case_rng(seed, PID, i)
            yield gen_case(rng, stored=a, requested=b, nap=[1, 5, 2][i % 3], order=['nu', 'wav'][i % 2],
                           wdir=['inc', 'dec'][(i // 2) % 2], stored_err=a, dtype='f8', nu_unit='Hz', wav_unit='micron', gz=False,
                           axes='both', no_distance=False, zeros=False)
            i += 1
    # error column stored in another unit than the flux column: all 20 ordered pairs, requested unit cycling
    for a in KEYS:
        for e in KEYS:
            if e != a:
                rng = case_rng(seed, PID, i)
                yield gen_case(rng, stored=a, stored_err=e, requested=KEYS[i % 5], nap=[1, 3][i % 2])
                i += 1
    # files carrying the legacy unit spellings of UNIT_MAPPING (MICRONS, HZ, MJY, ergs/cm^2/s)
    for a in ('mJy', 'cgs'):
        for b in KEYS:
            rng = case_rng(seed, PID, i)
            yield gen_case(rng, stored=a, requested=b, stored_err=a if i % 2 else ('cgs' if a == 'mJy' else 'mJy'), legacy=True)
            i += 1
    for a, b in zip(KEYS, BAD + ['K']):
        rng = case_rng(seed, PID, i)
        yield gen_case(rng, stored=a, requested=b, stored_err=a)
        i += 1
    # single-precision flux / error columns (the format of the original model packages): luminosities far above the
    # float32 range, and ordinary values
    for a in ('mJy', 'Jy', 'cgs', 'SI'):
        rng = case_rng(seed, PID, i)
        yield gen_case(rng, stored=a, stored_err=a, requested='lum', dtype='f4', big_lum=True)
        i += 1
    for k, a in enumerate(KEYS):
        rng = case_rng(seed, PID, i)
        yield gen_case(rng, stored=a, stored_err=a, requested=KEYS[(k + 2) % 5], dtype='f4', big_lum=False)
        i += 1
    # frequency grid held in kHz / GHz / THz and wavelengths in other length units, conversions across the F_nu boundary
    for k, nuu in enumerate(['kHz', 'GHz', 'THz']):
        for a, b in (('mJy', 'cgs'), ('lum', 'Jy'), ('SI', 'mJy'), ('Jy', 'lum')):
            rng = case_rng(seed, PID, i)
            yield gen_case(rng, stored=a, stored_err=a, requested=b, nu_unit=nuu, wav_unit=WAV_UNITS[(i + k) % 6],
                           legacy=bool(i % 2))
            i += 1
    # distances within 1e-6 ... 1e-4 of 1 kpc (and exactly 1 kpc), luminosity requests / stored luminosities
    for k, (du, dv) in enumerate((('kpc', 1.000001), ('kpc', 0.999999), ('kpc', 1.00001), ('kpc', 0.99999), ('cm', 3.0857e21),
                                  ('kpc', 1.))):
        rng = case_rng(seed, PID, i)
        a, b = [('mJy', 'lum'), ('lum', 'cgs'), ('cgs', 'lum'), ('lum', 'Jy')][k % 4]
        c = gen_case(rng, stored=a, stored_err=a, requested=b, near_kpc=False, dtype='f8', no_distance=False, zeros=False)
        c['distance'], c['distance_unit'], c['near_kpc'] = dv, du, True
        yield c
        i += 1
    # very faint flux densities in single-precision columns, converted across the F_nu boundary
    for k, (a, b) in enumerate((('mJy', 'cgs'), ('Jy', 'lum'), ('mJy', 'SI'), ('mJy', 'Jy'))):
        rng = case_rng(seed, PID, i)
        yield gen_case(rng, stored=a, stored_err=a, requested=b, dtype='f4', faint=True, zeros=False, big_lum=False)
        i += 1
    # all-zero error column / flux / both, for supported requests of every family and for a refusal
    for k, (a, b, z) in enumerate((('mJy', 'cgs', 'err'), ('cgs', 'Jy', 'err'), ('lum', 'mJy', 'err'), ('Jy', 'lum', 'flux'),
                                   ('SI', 'mJy', 'both'), ('mJy', 'K', 'both'), ('cgs', 'm', 'err'), ('mJy', 'Jy', 'err'))):
        rng = case_rng(seed, PID, i)
        yield gen_case(rng, stored=a, stored_err=a, requested=b, zeros=z, dtype=['f8', 'f4'][k % 2])
        i += 1
    # SEDs defined by `nu` alone (Hz and other frequency units) or by `wav` alone, either spectral order; files without
    # a DISTANCE keyword (read as 1 kpc)
    for k, (ax, nuu, wvu) in enumerate((('nu_only', 'Hz', None), ('nu_only', 'GHz', None), ('nu_only', 'THz', None),
                                        ('wav_only', None, 'micron'), ('wav_only', None, 'nm'), ('both', 'GHz', 'AA'))):
        for wd in ('inc', 'dec'):
            rng = case_rng(seed, PID, i)
            a, b = [('mJy', 'cgs'), ('lum', 'Jy'), ('cgs', 'mJy'), ('Jy', 'lum')][(i + k) % 4]
            yield gen_case(rng, stored=a, stored_err=a, requested=b, axes=ax, nu_unit=nuu, wav_unit=wvu, wdir=wd,
                           no_distance=bool(k % 3 == 1 and wd == 'inc'))
            i += 1
    # files stored as *.fits.gz, addressed without and with the suffix, requested unit of another family
    for k, (a, b) in enumerate((('mJy', 'cgs'), ('cgs', 'Jy'), ('lum', 'mJy'), ('Jy', 'lum'), ('SI', 'lum'), ('mJy', 'SI'))):
        rng = case_rng(seed, PID, i)
        yield gen_case(rng, stored=a, stored_err=a, requested=b, gz=['without_ext', 'with_ext'][k % 2 if k < 4 else 0])
        i += 1
    # sequential reads of files with equal-looking grids (same length / end points / units), cross-family requests
    for a in KEYS:
        rng = case_rng(seed, PID, i)
        yield gen_case(rng, stored=a, stored_err=a, requested=KEYS[(i + 1) % 5], n_extra=2, dtype='f8')
        i += 1
    while i < N[tier]:
        rng = case_rng(seed, PID, i)
        yield gen_case(rng)
        i += 1


# ----------------------------------------------------------------------------- real side

def distance_cm(case):
    """the distance SED.read attaches to the file, in cm: the DISTANCE keyword (written in cm by SED.write), or 1 kpc
    when the file has none (the reader's documented convention)"""
    from astropy import units as u
    U = units()
    if case.get('no_distance'):
        return float((1. * u.kpc).to(u.cm).value)
    return float((case['distance'] * U[case['distance_unit']]).to(u.cm).value)


def write_sed(case, path, unit):
    U = units()
    nap = len(case['flux'])
    s = pk.make_sed('mdl', case['wav'], case['flux'], case['err'], case['apertures'], unit=unit)
    eu = U[case.get('stored_err', case['stored'])]
    if eu != unit:
        s.error = np.array(case['err'], dtype=float).reshape(s.flux.shape) * eu
    if case.get('dtype') == 'f4':
        # single-precision columns, as in the original model packages
        s.flux = np.array(case['flux'], dtype=np.float32).reshape(s.flux.shape) * unit
        s.error = np.array(case['err'], dtype=np.float32).reshape(s.flux.shape) * eu
    # the spectral axes may be held in other units; SED.write records them
    if case.get('nu_unit', 'Hz') != 'Hz':
        s.nu = s.nu.to(U[case['nu_unit']])
    if case.get('wav_unit', 'micron') != 'micron':
        s.wav = s.wav.to(U[case['wav_unit']])
    axes = case.get('axes', 'both')
    if axes != 'both':
        # an SED defined by its frequencies alone (the wavelengths are derived by the `wav` getter) or by its
        # wavelengths alone (the frequencies are derived by the `nu` getter)
        from sedfitter.sed import SED
        s2 = SED()
        s2.name = s.name
        if axes == 'nu_only':
            s2.nu = s.nu
        else:
            s2.wav = s.wav
        if s.apertures is not None:
            s2.apertures = s.apertures
        s2.flux = s.flux
        s2.error = s.error
        s = s2
    s.distance = case['distance'] * U[case['distance_unit']]
    s.write(path, overwrite=True)
    if case.get('no_distance'):
        from astropy.io import fits
        with fits.open(path, mode='update') as h:
            del h[0].header['DISTANCE']
            h.flush()
    if case.get('dtype') == 'f4':
        from astropy.io import fits
        with fits.open(path) as h:
            forms = (h[3].columns[0].format, h[3].columns[1].format)
        if not all(str(fm).endswith('E') for fm in forms):
            raise RuntimeError('harness: float32 SED was not stored in single precision (%r)' % (forms,))
    if case.get('legacy'):
        # the same file with the legacy unit spellings that parse_unit_safe maps (UNIT_MAPPING)
        from astropy.io import fits
        with fits.open(path, mode='update') as h:
            if case.get('wav_unit', 'micron') == 'micron':
                h[1].header['TUNIT1'] = 'MICRONS'
            if case.get('nu_unit', 'Hz') == 'Hz':
                h[1].header['TUNIT2'] = 'HZ'
            for col, key in ((1, case['stored']), (2, case.get('stored_err', case['stored']))):
                if key in LEGACY:
                    h[3].header['TUNIT%d' % col] = LEGACY[key]
            h.flush()
    if case.get('gz'):
        # stored as *.fits.gz (as large model packages are shipped); addressed with or without the .gz suffix
        with open(path, 'rb') as fi, gzip.open(path + '.gz', 'wb') as fo:
            shutil.copyfileobj(fi, fo)
        os.remove(path)
    return s


def address(case, path):
    """the file name handed to SED.read: SED.read falls back to <name>.gz when <name> does not exist"""
    return path + '.gz' if case.get('gz') == 'with_ext' else path


def read_values(path, unit, order, opts=None):
    """SED.read with the requested flux unit; `opts`: non-default unit_wav / unit_freq, keyword or positional call"""
    from sedfitter.sed import SED
    if opts:
        U = units()
        if opts.get('positional'):
            s = SED.read(path, U[opts['unit_wav']], U[opts['unit_freq']], unit, order)
        else:
            s = SED.read(path, unit_wav=U[opts['unit_wav']], unit_freq=U[opts['unit_freq']], unit_flux=unit, order=order)
    else:
        s = SED.read(path, unit_flux=unit, order=order)
    return s, np.asarray(s.flux.to(unit).value, dtype=float), np.asarray(s.error.to(unit).value, dtype=float)


TOL = {'f8': 1e-9, 'f4': 1e-6}     # float32 files: the code may carry single precision (eps = 2**-23) through


def allclose(a, b, tol=1e-9):
    a = np.asarray(a, dtype=float)
    b = np.asarray(b, dtype=float)
    return a.shape == b.shape and bool(np.all(np.isfinite(a))) and bool(np.all(np.abs(a - b) <= tol * np.abs(b)))


def model_convert(drv, case, a, b, d_cm, nus, rows):
    fa = FAMILY.get(a, 'none')
    fb = FAMILY.get(b, 'none')
    line = ['c15.convert', fa, rat(SCALE.get(a, Fraction(1))), fb, rat(SCALE.get(b, Fraction(1))), rat(d_cm), rats(nus),
            str(len(rows))] + [rats(r) for r in rows]
    t = drv.ask(' '.join(line))
    kind = t.tok()
    if kind == 'refused':
        return None
    n = t.nat()
    return [[float(x) for x in t.rats()] for _ in range(n)]


def stored_case(case):
    """the case with the numbers the file actually holds: single-precision columns store float32(value)"""
    if case.get('dtype') != 'f4':
        return case
    r32 = lambda rows: [[float(np.float32(v)) for v in row] for row in rows]
    return dict(case, flux=r32(case['flux']), err=r32(case['err']))


def run_case(case):
    from astropy import units as u
    U = units()
    d = tempfile.mkdtemp(prefix='c15_')
    case = stored_case(case)
    a, b, c = case['stored'], case['requested'], case['third']
    ae = case.get('stored_err', a)
    nap = len(case['flux'])
    branches = {'dtype_' + case.get('dtype', 'f8'), 'nu_unit_' + case.get('nu_unit', 'Hz'),
                'wav_unit_micron' if case.get('wav_unit', 'micron') == 'micron' else 'wav_unit_other',
                'err_unit_same' if ae == a else ('err_unit_same_family' if FAMILY[ae] == FAMILY[a] else 'err_unit_cross_family'),
                'order_' + case['order'], 'apertures_%d' % nap if nap in (1, 5) else 'apertures_mid',
                'wav_increasing' if len(case['wav']) < 2 or case['wav'][-1] > case['wav'][0] else 'wav_decreasing'}
    try:
        drv = common.driver()
        path = os.path.join(d, 'a.fits')
        try:
            with common.quiet():
                write_sed(case, path, U[a])
            path = address(case, path)
        except Exception as ex:
            return CaseResult(False, violates=True, detail='SED.write of an SED in %s raised %s: %s' % (a, type(ex).__name__, ex))
        # what the file holds, computed on the harness side as the code does
        nu = (np.array(case['wav'], dtype=float) * u.micron).to(u.Hz, equivalencies=u.spectral()).value
        d_cm = distance_cm(case)
        perm = np.argsort(nu)
        if case['order'] == 'wav':
            perm = perm[::-1]
        nus = [float(v) for v in nu[perm]]
        flux = np.array(case['flux'], dtype=float)[:, perm]
        err = np.array(case['err'], dtype=float)[:, perm]
        want_f = model_convert(drv, case, a, b, d_cm, nus, flux.tolist())
        want_e = model_convert(drv, case, ae, b, d_cm, nus, err.tolist())
        raised = None
        try:
            with common.quiet():
                s, got_f, got_e = read_values(path, U[b], case['order'], case.get('read_opts'))
        except Exception as ex:
            raised = ex
        if b not in KEYS:
            branches.add('refused')
            if case.get('zeros'):
                branches.add('refused_all_zero')
            if want_f is not None:
                return CaseResult(False, detail='model converted to unsupported unit %s' % b)
            if raised is None:
                return CaseResult(False, violates=True, branches=sorted(branches),
                                  detail='SED.read(unit_flux=%s) of an SED stored in %s did not refuse: flux %r'
                                  % (b, a, got_f.ravel()[:3].tolist()))
            return CaseResult(True, branches=sorted(branches), key=common.canon_hash(case), nontrivial=True,
                              sample=dict(stored=a, requested=b, refused=type(raised).__name__))
        branches.add('%s->%s' % (FAMILY[a], FAMILY[b]))
        branches.add('pair_%s_%s' % (a, b))
        if raised is not None:
            return CaseResult(False, violates=True, branches=sorted(branches),
                              detail='SED.read(unit_flux=%s) of an SED stored in %s raised %s: %s' % (b, a, type(raised).__name__, raised))
        if want_f is None:
            return CaseResult(False, detail='model refused supported pair %s -> %s' % (a, b))
        # the returned Quantities must carry the requested unit (values in another unit are not what was asked for)
        if s.flux.unit != U[b] or s.error.unit != U[b]:
            return CaseResult(False, violates=True, branches=sorted(branches),
                              detail='SED.read(unit_flux=%s) returned flux in %s and error in %s (stored %s / %s)'
                              % (U[b], s.flux.unit, s.error.unit, a, ae))
        if case.get('big_lum'):
            branches.add('f4_large_luminosity' if case.get('dtype') == 'f4' else 'large_luminosity')
        branches.add('sed_from_' + {'both': 'wav_and_nu', 'nu_only': 'nu_only', 'wav_only': 'wav_only'}[case.get('axes', 'both')])
        if case.get('no_distance'):
            branches.add('no_distance_keyword')
        got_d = float(s.distance.to(u.cm).value)
        if not abs(got_d - d_cm) <= 1e-12 * d_cm:
            return CaseResult(False, violates=True, branches=sorted(branches),
                              detail='SED.read attaches distance %r cm, the file says %r cm%s'
                              % (got_d, d_cm, ' (no DISTANCE keyword: 1 kpc)' if case.get('no_distance') else ''))
        if case.get('near_kpc'):
            branches.add('distance_next_to_1kpc')
        if case.get('faint') and case.get('dtype') == 'f4':
            branches.add('f4_faint_flux_density')
        if case.get('zeros'):
            branches.add('all_zero_' + case['zeros'])
        if case.get('gz'):
            branches.add('gz_' + case['gz'])
        if case.get('legacy'):
            branches.add('legacy_units')
            for key in (a, ae):
                if key in LEGACY:
                    branches.add('legacy_' + LEGACY[key].split('/')[0])
        tol = TOL[case.get('dtype', 'f8')]
        if not (allclose(got_f, want_f, tol) and allclose(got_e, want_e, tol)):
            what, got, want, src = ('flux', got_f, want_f, flux) if not allclose(got_f, want_f, tol) else ('error', got_e, want_e, err)
            k = int(np.argmax(np.abs(got - np.array(want)) / np.abs(np.array(want)))) if got.shape == np.shape(want) else 0
            return CaseResult(False, violates=True, branches=sorted(branches),
                              detail=('stored %s (error column %s), requested %s, d = %r cm, order %s: SED.read %s %r, expected from F = nu*F_nu, '
                                      'L = F*d^2: %r (nu = %r Hz, stored value %r); shapes %r / %r'
                                      % (a, ae, b, d_cm, case['order'], what, float(got.ravel()[k]) if got.size > k else None,
                                         float(np.ravel(want)[k]), nus[k % len(nus)], float(src.ravel()[k]),
                                         got.shape, np.shape(want))))
        # the frequencies returned must be the ones the conversion used
        got_nu = np.asarray(s.nu.to(u.Hz).value, dtype=float)
        if not allclose(got_nu, nus, 1e-12):
            return CaseResult(False, violates=True, detail='SED.read frequencies %r differ from c/lambda %r' % (got_nu[:3], nus[:3]))
        # the spectral axes come back in the units asked for (defaults: micron, Hz)
        ro = case.get('read_opts') or {}
        want_wu, want_fu = U[ro.get('unit_wav', 'micron')], U[ro.get('unit_freq', 'Hz')]
        want_wav = (np.array(case['wav'], dtype=float)[perm] * u.micron).to(want_wu).value
        if s.wav.unit != want_wu or s.nu.unit != want_fu or not allclose(np.asarray(s.wav.value, dtype=float), want_wav, 1e-12):
            return CaseResult(False, violates=True, branches=sorted(branches),
                              detail='SED.read(unit_wav=%s, unit_freq=%s) returned wav in %s, nu in %s, wav[:3] = %r (expected %r)'
                              % (want_wu, want_fu, s.wav.unit, s.nu.unit, np.ravel(s.wav.value)[:3].tolist(), want_wav[:3].tolist()))
        if ro:
            branches.add('read_options_nondefault')
            branches.add('read_call_positional' if ro.get('positional') else 'read_call_keyword')
        why = direct_checks(case, d, path, got_f, got_e, nus, d_cm)
        if why:
            return CaseResult(False, violates=True, branches=sorted(branches), detail=why)
        bad = sequential_reads(case, d, drv, branches)
        if bad is not None:
            bad.branches = sorted(branches)
            return bad
        bad = rewritten_file(case, d, drv, branches, os.path.join(d, 'a.fits'))
        if bad is not None:
            bad.branches = sorted(branches)
            return bad
        sample = dict(stored=a, stored_err=ae, requested=b, third=c, n_ap=nap, n_wav=len(nus), distance_cm=d_cm, order=case['order'],
                      stored0=float(flux[0, 0]), read0=float(got_f[0, 0]))
        return CaseResult(True, branches=sorted(branches), key=common.canon_hash(case), nontrivial=True, sample=sample)
    finally:
        shutil.rmtree(d, ignore_errors=True)


def rewritten_file(case, d, drv, branches, base):
    """the same path read twice in a row with the same options while the file was replaced in between: the second read
    must return the new contents"""
    from astropy import units as u
    U = units()
    if not case.get('extras') or case['requested'] not in KEYS:
        return None
    x = case['extras'][0]
    sub = stored_case(dict(case, wav=x['wav'], flux=x['flux'], err=x['err'], extras=[]))
    a, ae, b = case['stored'], case.get('stored_err', case['stored']), case['requested']
    path = address(case, base)
    try:
        with common.quiet():
            read_values(path, U[b], case['order'], case.get('read_opts'))         # the old contents, just read
            write_sed(sub, base, U[a])                                             # the file is replaced
            s, got_f, got_e = read_values(path, U[b], case['order'], case.get('read_opts'))
    except Exception as ex:
        return CaseResult(False, violates=True, detail='reading %s again after it was rewritten raised %s: %s'
                          % (os.path.basename(path), type(ex).__name__, ex))
    d_cm = distance_cm(case)
    nu = (np.array(sub['wav'], dtype=float) * u.micron).to(u.Hz, equivalencies=u.spectral()).value
    perm = np.argsort(nu)
    if case['order'] == 'wav':
        perm = perm[::-1]
    nus = [float(v) for v in nu[perm]]
    want_f = model_convert(drv, sub, a, b, d_cm, nus, np.array(sub['flux'], dtype=float)[:, perm].tolist())
    want_e = model_convert(drv, sub, ae, b, d_cm, nus, np.array(sub['err'], dtype=float)[:, perm].tolist())
    tol = TOL[case.get('dtype', 'f8')]
    branches.add('file_rewritten_between_reads')
    got_nu = np.asarray(s.nu.to(u.Hz).value, dtype=float)
    if not (allclose(got_f, want_f, tol) and allclose(got_e, want_e, tol) and allclose(got_nu, nus, 1e-12)):
        return CaseResult(False, violates=True,
                          detail=('%s was read, replaced by another SED (%d wavelengths %r..%r) and read again with the same options '
                                  '(stored %s / %s, requested %s): flux %r, frequencies %r; expected for the new contents %r, %r'
                                  % (os.path.basename(path), len(sub['wav']), sub['wav'][0], sub['wav'][-1], a, ae, b,
                                     np.ravel(got_f)[:4].tolist(), got_nu[:3].tolist(), np.ravel(want_f)[:4].tolist(), nus[:3])))
    return None


def sequential_reads(case, d, drv, branches):
    """further SED files of the case, all written first and then read one after the other in this process; every
    one is compared with the expectation for its own grid.  Returns a failing CaseResult or None"""
    from astropy import units as u
    U = units()
    subs = [stored_case(dict(case, wav=x['wav'], flux=x['flux'], err=x['err'], requested=x['requested'], extras=[]))
            for x in case.get('extras', [])]
    if not subs:
        return None
    paths = []
    for k, sub in enumerate(subs):
        paths.append(os.path.join(d, 'x%d.fits' % k))
        with common.quiet():
            write_sed(sub, paths[-1], U[sub['stored']])
        paths[-1] = address(sub, paths[-1])
    a, ae = case['stored'], case.get('stored_err', case['stored'])
    d_cm = distance_cm(case)
    tol = TOL[case.get('dtype', 'f8')]
    prev = case['wav']
    for k, (sub, path) in enumerate(zip(subs, paths)):
        b = sub['requested']
        nu = (np.array(sub['wav'], dtype=float) * u.micron).to(u.Hz, equivalencies=u.spectral()).value
        perm = np.argsort(nu)
        if case['order'] == 'wav':
            perm = perm[::-1]
        nus = [float(v) for v in nu[perm]]
        flux = np.array(sub['flux'], dtype=float)[:, perm]
        err = np.array(sub['err'], dtype=float)[:, perm]
        want_f = model_convert(drv, sub, a, b, d_cm, nus, flux.tolist())
        want_e = model_convert(drv, sub, ae, b, d_cm, nus, err.tolist())
        try:
            with common.quiet():
                s, got_f, got_e = read_values(path, U[b], case['order'])
        except Exception as ex:
            return CaseResult(False, violates=True, detail='reading SED file #%d of the case (stored %s, requested %s) raised %s: %s'
                              % (k + 2, a, b, type(ex).__name__, ex))
        same_look = (len(sub['wav']) == len(prev) and min(sub['wav']) == min(prev) and max(sub['wav']) == max(prev)
                     and sorted(sub['wav']) != sorted(prev))
        branches.add('sequential_read')
        if same_look:
            branches.add('sequential_same_ends_other_interior')
        got_nu = np.asarray(s.nu.to(u.Hz).value, dtype=float)
        if not (allclose(got_f, want_f, tol) and allclose(got_e, want_e, tol) and allclose(got_nu, nus, 1e-12)):
            what, got, want = (('flux', got_f, want_f) if not allclose(got_f, want_f, tol) else
                               ('error', got_e, want_e) if not allclose(got_e, want_e, tol) else ('frequency', got_nu, nus))
            return CaseResult(False, violates=True,
                              detail=('SED file #%d read after file #%d in the same process (%d wavelengths %r..%r, previous file %d '
                                      'wavelengths %r..%r; stored %s / %s, requested %s): %s %r, expected for its own grid %r'
                                      % (k + 2, k + 1, len(sub['wav']), sub['wav'][0], sub['wav'][-1], len(prev), prev[0], prev[-1],
                                         a, ae, b, what, np.ravel(got)[:4].tolist(), np.ravel(want)[:4].tolist())))
        prev = sub['wav']
    return None


def direct_checks(case, d, path, got_f, got_e, nus, d_cm):
    """round trip, composition and the two physical relations, on the implementation alone"""
    U = units()
    a, b, c = case['stored'], case['requested'], case['third']
    order = case['order']
    with common.quiet():
        # A -> B -> A through a second file stored in B
        s_b, _, _ = read_values(path, U[b], order)
        p2 = os.path.join(d, 'b.fits')
        s_b.write(p2, overwrite=True)
        _, back_f, back_e = read_values(p2, U[a], order)
        _, orig_f, orig_e = read_values(path, U[a], order)
        # A -> B -> C against A -> C
        _, bc_f, bc_e = read_values(p2, U[c], order)
        _, ac_f, ac_e = read_values(path, U[c], order)
        # relations between the values returned for the three families
        _, f_jy, _ = read_values(path, U['Jy'], order)
        _, f_cgs, _ = read_values(path, U['cgs'], order)
        _, f_lum, _ = read_values(path, U['lum'], order)
    nap = len(case['flux'])
    tol = TOL[case.get('dtype', 'f8')]
    stored = np.array(case['flux'], dtype=float)
    if not allclose(np.sort(orig_f, axis=1), np.sort(stored, axis=1), tol):
        return 'reading %s back in the stored unit changed the values: %r vs %r' % (a, orig_f.ravel()[:3], stored.ravel()[:3])
    if not (allclose(back_f, orig_f, tol) and allclose(back_e, orig_e, tol)):
        return 'round trip %s -> %s -> %s is not the identity: %r vs %r' % (a, b, a, back_f.ravel()[:3], orig_f.ravel()[:3])
    if not (allclose(bc_f, ac_f, tol) and allclose(bc_e, ac_e, tol)):
        return 'composition %s -> %s -> %s differs from %s -> %s: %r vs %r' % (a, b, c, a, c, bc_f.ravel()[:3], ac_f.ravel()[:3])
    nu = np.array(nus, dtype=float)[None, :]
    if not allclose(f_cgs, nu * f_jy * 1e-23, tol):
        return 'F(erg/cm^2/s) = %r is not nu*F_nu = %r' % (f_cgs.ravel()[:3], (nu * f_jy * 1e-23).ravel()[:3])
    if not allclose(f_lum, f_cgs * d_cm ** 2, tol):
        return 'L = %r is not F*d^2 = %r' % (f_lum.ravel()[:3], (f_cgs * d_cm ** 2).ravel()[:3])
    return None


# ----------------------------------------------------------------------------- falsifier

def search(seed, tier, disagreeing_cases):
    """the three relations, the round trip and the composition evaluated on real SED.read output"""
    from astropy import units as u
    U = units()
    found = []
    tried = 0
    sweep = []
    for i, c in enumerate(gen_cases(seed, 'quick')):
        sweep.append(c)
    for case in list(disagreeing_cases) + sweep:
        if 'stored' not in case:
            continue
        case = stored_case(case)
        tried += 1
        d = tempfile.mkdtemp(prefix='c15s_')
        try:
            path = os.path.join(d, 'a.fits')
            try:
                with common.quiet():
                    write_sed(case, path, U[case['stored']])
                path = address(case, path)
                nu = (np.array(case['wav'], dtype=float) * u.micron).to(u.Hz, equivalencies=u.spectral()).value
                d_cm = distance_cm(case)
                perm = np.argsort(nu)
                if case['order'] == 'wav':
                    perm = perm[::-1]
                nus = [float(v) for v in nu[perm]]
                if case['requested'] in KEYS:
                    with common.quiet():
                        _, gf, ge = read_values(path, U[case['requested']], case['order'])
                    why = direct_checks(case, d, path, gf, ge, nus, d_cm)
                    if why:
                        found.append((case, why))
                else:
                    try:
                        with common.quiet():
                            read_values(path, U[case['requested']], case['order'])
                        found.append((case, 'unsupported unit %s was not refused' % case['requested']))
                    except Exception:
                        pass
            except Exception as ex:
                found.append((case, 'in-domain SED.write/SED.read raised %s: %s' % (type(ex).__name__, ex)))
        finally:
            shutil.rmtree(d, ignore_errors=True)
        if len(found) >= 5:
            break
    return found, tried
