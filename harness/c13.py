"""C13 — aperture interpolation: exact at tabulated radii, linear between, clamped above, refused below.

Real side (public API): `ConvolvedFluxes.interpolate` (quantities in the table's unit or another length
unit), `SED.interpolate` (bare AU numbers or quantities), `SED.interpolate_variable`.
Model side: driver ops `interp` (= convInterpolate), `sedinterp` (= sedInterpolate), `interpvar`
(= interpVariable) and the scalar `interp1` (= interpClamp, the right-hand side of C13_variable).
Same-object histories: one ConvolvedFluxes / SED object is interpolated, re-assigned (flux, error, both,
apertures) and interpolated again; every result is compared with the model for the table the object holds at
that moment (the model is a pure function of the current table, so any state kept between calls shows up).
"""
import numpy as np

from . import common
from .common import CaseResult, rat, rats, case_rng, nice
from . import packages as pk

from astropy import units as u   # noqa: E402  (after packages: repo import path is set up)

PID = 'C13'
RULE = ('cases = (table of 1..8 increasing apertures x 1..6 models or 1..6 wavelengths, request list) for one of the '
        'three entry points; requests are drawn inside / on a knot / above / below the table, in the table\'s unit, '
        'another length unit, or as bare AU numbers; a case is non-trivial when the table has >= 2 apertures and at '
        'least one request is not on a knot, or when it exercises an error / repeat branch; about a third of the random '
        'cases are same-object histories (2-7 steps of interpolate / assign flux / assign error / assign both / assign '
        'apertures on ONE ConvolvedFluxes or SED object, every interpolate compared against the table held at that '
        'moment), always non-trivial; distinct = distinct canonical hash of the generated inputs')
REQUIRED_BRANCHES = ['conv_inside', 'conv_knot', 'conv_above', 'conv_below_error', 'conv_single_repeat',
                     'conv_other_unit', 'conv_above_other_unit',
                     'sed_inside', 'sed_knot', 'sed_above', 'sed_below_error', 'sed_single_repeat',
                     'sed_bare', 'sed_quantity',
                     'var_at_filter', 'var_between', 'var_outside', 'var_above', 'var_below_error',
                     'var_single', 'var_on_min',
                     'hist_conv_after_error', 'hist_conv_after_flux', 'hist_conv_after_both', 'hist_conv_after_apertures',
                     'hist_conv_repeat_interp', 'hist_sed_after_flux', 'hist_sed_var_after_flux',
                     'conv_knot_other_unit', 'sed_knot_other_unit', 'var_knot_other_unit', 'conv_empty_request',
                     'sed_empty_request', 'var_single_filter', 'conv_flux_err_units_differ', 'sed_flux_other_unit',
                     'conv_below_near_error', 'sed_below_near_error', 'var_below_near_error', 'conv_names_blank_or_bytes', 'conv_huge_range', 'sed_huge_range', 'conv_first_knot_exact',
                     'sed_first_knot_exact']
ASSUMPTIONS = ['IEEE rounding is not modelled: values are compared with a rounding budget of 1e-9 relative + 1e-12 x the '
               'largest tabulated magnitude of the row (linear interpolation between very different values cancels)',
               'unit conversion is not modelled: requests given in another unit than the table are sent to the model after '
               'astropy\'s conversion to the table\'s unit; a request that IS the first / last knot expressed in another unit '
               '(it comes back within 1e-13 relative of the knot) is sent as that knot, i.e. the tabulated value is expected, '
               'never a refusal',
               'tables are increasing in aperture (the quantifier), so min()/max() are the first / last knot']
N = {'quick': 400, 'thorough': 40000}
TOL = 1e-9
UNITS = {'au': u.au, 'pc': u.pc, 'cm': u.cm, 'm': u.m, 'km': u.km}
UNIT_NAMES = ['au', 'pc', 'cm', 'm', 'km']
AP_RANGE = {'au': (10., 1e4), 'pc': (1e-4, 1e-1), 'cm': (1e14, 1e17), 'm': (1e12, 1e15), 'km': (1e9, 1e12)}


# ----------------------------------------------------------------------------- generation

def gen_aps(rng, n_ap, unit):
    lo, hi = AP_RANGE[unit]
    aps = [nice(rng, lo, hi, 3)]
    while len(aps) < n_ap:
        nxt = float('%.4g' % (aps[-1] * rng.uniform(1.15, 3.)))
        if nxt > aps[-1]:
            aps.append(nxt)
    return aps


def gen_req(rng, aps, kinds, interior_knots_only=False):
    """requests (plain numbers in the table's unit) of the given kinds"""
    out = []
    n = len(aps)
    for k in kinds:
        if k == 'inside' and n < 2:
            k = 'knot'
        if k in ('knot', 'first', 'last') and interior_knots_only:
            k = 'knot_interior' if n >= 3 else ('inside' if n >= 2 else 'above')
        if k == 'inside':
            i = rng.randrange(n - 1)
            x = float('%.6g' % (aps[i] + rng.uniform(0.05, 0.95) * (aps[i + 1] - aps[i])))
            if not (aps[i] < x < aps[i + 1]):
                x = 0.5 * (aps[i] + aps[i + 1])
        elif k == 'knot':
            x = aps[rng.randrange(n)]
        elif k == 'knot_interior':
            x = aps[rng.randrange(1, n - 1)]
        elif k == 'first':
            x = aps[0]
        elif k == 'last':
            x = aps[-1]
        elif k == 'above':
            x = float('%.5g' % (aps[-1] * rng.uniform(1.01, 5.)))
        elif k == 'below':
            x = float('%.5g' % (aps[0] * rng.uniform(0.1, 0.99)))
        elif k in ('below5', 'below6', 'below9'):
            # strictly below the smallest tabulated radius, just outside any rounding: must still be refused
            x = aps[0] * (1. - {'below5': 1e-5, 'below6': 1e-6, 'below9': 1e-9}[k])
            assert x < aps[0]
        elif k == 'above6':
            x = aps[-1] * (1. + 1e-6)
        else:
            raise ValueError(k)
        out.append(x)
    return out


def pick_kinds(rng, n, allow_below):
    ks = [rng.choice(['inside', 'inside', 'knot', 'above', 'first', 'last']) for _ in range(n)]
    if allow_below and rng.random() < 0.15:
        ks[rng.randrange(n)] = rng.choice(['below', 'below', 'below5', 'below6', 'below9'])
    return ks


FLUX_UNITS = ['mJy', 'Jy', 'uJy']
NAME_STYLES = ['plain', 'trail', 'lead', 'both', 'str_pad', 'bytes_pad', 'bytes']


def growth_row(rng, n):
    """a curve of growth: increasing over apertures, spanning 1e15..1e18 between the smallest and the largest"""
    y0 = nice(rng, 1e-6, 1e-2, 3)
    span = rng.uniform(15., 18.)
    if n == 1:
        return [y0]
    return [y0] + [float('%.4g' % (y0 * 10 ** (span * (i + rng.uniform(-0.3, 0.3)) / (n - 1)))) for i in range(1, n - 1)] + \
           [float('%.4g' % (y0 * 10 ** span))]


def make_names(case):
    """the model-name array the table holds: names may carry leading / trailing blanks, be padded to a fixed width,
    or be bytes - they must come back unchanged"""
    st = case.get('name_style', 'plain')
    names = case['names']
    if st == 'trail':
        return np.array([n + ' ' * (1 + i % 3) for i, n in enumerate(names)])
    if st == 'lead':
        return np.array([' ' + n for n in names])
    if st == 'both':
        return np.array(['  ' + n + ' ' for n in names])
    if st == 'str_pad':
        return np.array([n.ljust(20) for n in names], dtype='U20')
    if st == 'bytes_pad':
        return np.array([n.ljust(20).encode() for n in names], dtype='S20')
    if st == 'bytes':
        return np.array([n.encode() for n in names])
    return np.array(names)


def gen_flux_units(rng, differ=False):
    """the table's flux and error arrays carry independent (convertible) units; the numbers generated are the
    numbers stored in those units, and every result is compared in the unit of the array it came from"""
    if differ:
        fu = rng.choice(FLUX_UNITS)
        return dict(flux_unit=fu, err_unit=rng.choice([x for x in FLUX_UNITS if x != fu]))
    if rng.random() < 0.55:
        return dict(flux_unit='mJy', err_unit='mJy')
    return dict(flux_unit=rng.choice(FLUX_UNITS), err_unit=rng.choice(FLUX_UNITS))


def funit(case, key='flux_unit'):
    return u.Unit(case.get(key, 'mJy'))


def gen_conv(rng, directed=None):
    n_ap = rng.randint(1, 8)
    tu = rng.choice(['au', 'au', 'au', 'pc', 'cm', 'm', 'km'])
    other = lambda t: rng.choice([x for x in UNIT_NAMES if x != t])     # noqa: E731
    ru = tu if rng.random() < 0.6 else other(tu)
    nreq = rng.randint(1, 6)
    kinds = None
    no_aps = False
    if directed == 'conv_inside':
        n_ap = max(n_ap, 2); ru = tu; kinds = ['inside'] * nreq
    elif directed == 'conv_knot':
        n_ap = max(n_ap, 3); ru = tu; kinds = ['first', 'last', 'knot']
    elif directed == 'conv_above':
        n_ap = max(n_ap, 2); ru = tu; kinds = ['above', 'inside', 'above']
    elif directed == 'conv_below':
        n_ap = max(n_ap, 2); ru = tu; kinds = ['inside', 'below']
    elif directed == 'conv_single':
        n_ap = 1; kinds = ['above', 'below', 'first']
    elif directed == 'conv_none':
        n_ap = 1; no_aps = True; kinds = ['above', 'below', 'first']
    elif directed == 'conv_other_unit':
        n_ap = max(n_ap, 3); ru = other(tu); kinds = ['inside', 'knot', 'inside']
    elif directed == 'conv_above_other_unit':
        n_ap = max(n_ap, 2); ru = other(tu); kinds = ['inside', 'above']
    elif directed == 'conv_knot_other_unit':
        # requests ON the first / last knot, expressed in another length unit
        n_ap = max(n_ap, 2); ru = other(tu); kinds = ['first', 'last', 'first', 'inside', 'last']
    elif directed == 'conv_empty':
        n_ap = max(n_ap, 2); kinds = []
    elif directed == 'conv_units_differ':
        n_ap = max(n_ap, 2); ru = tu; kinds = ['first', 'inside', 'knot', 'above']
    elif directed in ('conv_below5', 'conv_below6', 'conv_below9'):
        n_ap = max(n_ap, 2); kinds = ['inside', directed[5:]]
        ru = rng.choice([tu, other(tu)])
    elif directed == 'conv_huge':
        n_ap = max(n_ap, 3); ru = tu; kinds = ['first', 'inside', 'knot', 'last', 'above']
    elif directed == 'conv_names':
        n_ap = rng.choice([1, max(n_ap, 2)])
    nm = rng.randint(1, 6)
    aps = gen_aps(rng, n_ap, tu)
    if kinds is None:
        kinds = pick_kinds(rng, nreq, allow_below=(n_ap >= 2))
    if n_ap == 1 and not no_aps and directed is None:
        no_aps = rng.random() < 0.5
    req = gen_req(rng, aps, kinds)
    names = ['mod_%d' % rng.randrange(10000) for _ in range(nm)]
    while len(set(names)) < nm:
        names = ['mod_%d' % rng.randrange(10000) for _ in range(nm)]
    mono = rng.random() < 0.5
    huge = directed == 'conv_huge' or (directed is None and rng.random() < 0.12)
    flux = []
    for _ in range(nm):
        row = [nice(rng, 1e-3, 1e3, 4) for _ in range(n_ap)]
        flux.append(growth_row(rng, n_ap) if huge else sorted(row) if mono else row)
    err = [[float('%.3g' % (f * rng.uniform(0, 0.3))) for f in row] for row in flux]
    name_style = {'conv_names': rng.choice(NAME_STYLES[1:])}.get(directed) or \
        ('plain' if (directed or rng.random() < 0.5) else rng.choice(NAME_STYLES))
    return dict(kind='conv', aps=aps, no_aps=no_aps, tab_unit=tu, req_unit=ru, req=req, names=names, name_style=name_style,
                huge=huge,
                wav=nice(rng, 0.3, 500., 3), flux=flux, err=err, **gen_flux_units(rng, directed == 'conv_units_differ'))


def gen_sed(rng, directed=None):
    n_ap = rng.randint(1, 8)
    tu = rng.choice(['au', 'au', 'au', 'pc', 'cm', 'm', 'km'])
    ru = rng.choice(['bare', 'bare', 'au', 'pc', 'cm', 'm', 'km'])
    nreq = rng.randint(1, 6)
    kinds = None
    no_aps = False
    if directed == 'sed_inside':
        n_ap = max(n_ap, 2); kinds = ['inside'] * nreq
    elif directed == 'sed_knot':
        n_ap = max(n_ap, 2); ru = 'bare'; tu = 'au'; kinds = ['first', 'last', 'knot']
    elif directed == 'sed_above':
        n_ap = max(n_ap, 2); kinds = ['above', 'inside']
    elif directed == 'sed_below':
        n_ap = max(n_ap, 2); kinds = ['inside', 'below']
    elif directed == 'sed_single':
        n_ap = 1; kinds = ['above', 'below', 'first']
    elif directed == 'sed_none':
        n_ap = 1; no_aps = True; kinds = ['above', 'below']
    elif directed == 'sed_bare':
        n_ap = max(n_ap, 2); ru = 'bare'
    elif directed == 'sed_quantity':
        n_ap = max(n_ap, 2); ru = 'pc'
    elif directed == 'sed_knot_other_unit':
        n_ap = max(n_ap, 2); kinds = ['first', 'last', 'first', 'inside', 'last']
        ru = rng.choice([x for x in UNIT_NAMES if x != tu])
    elif directed == 'sed_empty':
        n_ap = max(n_ap, 2); kinds = []
    elif directed == 'sed_units_differ':
        n_ap = max(n_ap, 2)
    elif directed in ('sed_below5', 'sed_below6', 'sed_below9'):
        n_ap = max(n_ap, 2); kinds = ['inside', directed[4:]]
        ru = rng.choice(['bare', 'au', 'pc', 'cm', 'm', 'km'])
    elif directed == 'sed_huge':
        n_ap = max(n_ap, 3); kinds = ['first', 'inside', 'first', 'last', 'above']
        ru = rng.choice(['bare', 'bare', tu, rng.choice(UNIT_NAMES)])
    nw = rng.randint(1, 6)
    aps = gen_aps(rng, n_ap, tu)
    if kinds is None:
        kinds = pick_kinds(rng, nreq, allow_below=(n_ap >= 2))
    if n_ap == 1 and directed is None:
        no_aps = rng.random() < 0.5
    req = gen_req(rng, aps, kinds)
    wavs = sorted({nice(rng, 0.1, 1000., 3) for _ in range(nw)})
    if rng.random() < 0.5:
        wavs = wavs[::-1]
    flux = [[nice(rng, 1e-3, 1e3, 4) for _ in wavs] for _ in range(n_ap)]
    huge = directed == 'sed_huge' or (directed is None and rng.random() < 0.15)
    if huge:
        cols = [growth_row(rng, n_ap) for _ in wavs]
        flux = [[cols[i][a] for i in range(len(wavs))] for a in range(n_ap)]
    return dict(kind='sed', huge=huge, aps=aps, no_aps=no_aps, tab_unit=tu, req_unit=ru, req=req, wavs=wavs, flux=flux,
                **gen_flux_units(rng, directed == 'sed_units_differ'))


def gen_var(rng, directed=None, tu=None):
    n_ap = rng.randint(1, 8)
    nf = rng.randint(1, 5)
    kinds = None
    if tu is None:
        tu = rng.choice(['au', 'au', 'au', 'pc', 'cm', 'm', 'km'])
    if directed == 'var_at_filter':
        n_ap = max(n_ap, 2); nf = max(nf, 2)
    elif directed == 'var_above':
        n_ap = max(n_ap, 2); nf = max(nf, 2); kinds = ['above'] + ['inside'] * (nf - 1)
    elif directed == 'var_below':
        n_ap = max(n_ap, 2); nf = max(nf, 2); kinds = ['below'] + ['inside'] * (nf - 1)
    elif directed == 'var_single':
        n_ap = 1
    elif directed == 'var_on_min':
        n_ap = max(n_ap, 2); nf = max(nf, 2); kinds = ['first'] * nf
        if rng.random() < 0.5:
            kinds[-1] = 'inside'
    elif directed == 'var_knot_other_unit':
        # SED apertures stored in another unit; filter apertures (bare AU) ON its first / last aperture
        n_ap = max(n_ap, 2); nf = max(nf, 2); kinds = [rng.choice(['first', 'last']) for _ in range(nf)]
        kinds[0] = 'first'; kinds[-1] = 'last'
        tu = rng.choice(['pc', 'cm', 'm', 'km'])
    elif directed == 'var_single_filter':
        n_ap = max(n_ap, 2); nf = 1
    elif directed in ('var_below5', 'var_below6', 'var_below9'):
        n_ap = max(n_ap, 2); nf = max(nf, 2); kinds = [directed[4:]] + ['inside'] * (nf - 1)
    elif directed == 'var_huge':
        n_ap = max(n_ap, 3); nf = max(nf, 2); kinds = ['first'] + ['inside'] * (nf - 1)
    # `aps` are the AU numbers the code derives (`self.apertures.to(u.au).value`); `aps_stored` what the SED holds
    stored = gen_aps(rng, n_ap, tu)
    aps = stored if tu == 'au' else [float(v) for v in (np.array(stored) * UNITS[tu]).to(u.au).value]
    if kinds is None:
        kinds = pick_kinds(rng, nf, allow_below=(n_ap >= 2))
    fa = gen_req(rng, aps, kinds)
    fw = set()
    while len(fw) < nf:
        fw.add(nice(rng, 0.3, 300., 3))
    fw = list(fw)
    rng.shuffle(fw)
    # SED wavelengths: every filter wavelength, plus points between and outside the filters' range
    extra = rng.randint(1, 5)
    sw = set(fw)
    while len(sw) < nf + extra:
        sw.add(nice(rng, 0.05, 2000., 3))
    sw = sorted(sw)
    if rng.random() < 0.5:
        sw = sw[::-1]
    flux = [[nice(rng, 1e-3, 1e3, 4) for _ in sw] for _ in range(n_ap)]
    if directed == 'var_huge' or (directed is None and rng.random() < 0.1):
        cols = [growth_row(rng, n_ap) for _ in sw]
        flux = [[cols[i][a] for i in range(len(sw))] for a in range(n_ap)]
    return dict(kind='var', aps=aps, aps_stored=stored, var_unit=tu, no_aps=(n_ap == 1 and rng.random() < 0.5),
                wavs=sw, flux=flux, fw=fw, fa=fa, **gen_flux_units(rng, directed == 'var_units_differ'))


DIRECTED = [('conv', d) for d in ['conv_inside', 'conv_knot', 'conv_above', 'conv_below', 'conv_single', 'conv_none',
                                  'conv_other_unit'] + ['conv_above_other_unit'] * 12] + \
           [('sed', d) for d in ['sed_inside', 'sed_knot', 'sed_above', 'sed_below', 'sed_single', 'sed_none',
                                 'sed_bare', 'sed_quantity']] + \
           [('var', d) for d in ['var_at_filter', 'var_above', 'var_below', 'var_single', 'var_single_filter'] +
            ['var_on_min'] * 8 + ['var_knot_other_unit'] * 8] + \
           [('conv', d) for d in ['conv_knot_other_unit'] * 12 + ['conv_empty'] + ['conv_units_differ'] * 4] + \
           [('sed', 'sed_units_differ'), ('var', 'var_units_differ')] + \
           [('conv', d) for d in ['conv_below5', 'conv_below6', 'conv_below9'] * 3] + \
           [('sed', d) for d in ['sed_below5', 'sed_below6', 'sed_below9'] * 4] + \
           [('var', d) for d in ['var_below5', 'var_below6', 'var_below9'] * 2] + \
           [('conv', d) for d in ['conv_huge'] * 4 + ['conv_names'] * 8] + [('sed', 'sed_huge')] * 8 + [('var', 'var_huge')] * 3 + \
           [('sed', d) for d in ['sed_knot_other_unit'] * 12 + ['sed_empty']] + \
           [('hist', d) for d in ['h_error', 'h_flux', 'h_both', 'h_aps', 'h_aps_only', 'h_repeat', 'h_long'] * 2] + \
           [('shist', d) for d in ['sh_interp', 'sh_var', 'sh_mixed']]


def gen_cases(seed, tier):
    n = N[tier]
    for i in range(n):
        rng = case_rng(seed, PID, i)
        if i < len(DIRECTED):
            k, d = DIRECTED[i]
        else:
            k, d = rng.choice(['conv', 'sed', 'var', 'hist', 'hist', 'shist']), None
        yield {'conv': gen_conv, 'sed': gen_sed, 'var': gen_var, 'hist': gen_hist, 'shist': gen_shist}[k](rng, d)


# ----------------------------------------------------------------------------- execution

def err_enum(e):
    """error enum of an exception raised by the implementation"""
    if type(e) is Exception and 'too small' in str(e):
        return 'tooSmall'
    if isinstance(e, ValueError) and 'interpolation range' in str(e):
        return 'outOfRange'
    return 'other:%s:%s' % (type(e).__name__, str(e)[:80])


def ask_value(line):
    """('V', Toks) or ('E', enum)"""
    t = common.driver().ask(line)
    tag = t.tok()
    if tag == 'E':
        return 'E', t.tok()
    return 'V', t


def rows_txt(m):
    return ' '.join([str(len(m))] + [rats(r) for r in m])


def read_rows(t):
    n = t.nat()
    return [t.rats() for _ in range(n)]


def bracket_mags(aps, row, xs):
    """for every request the largest magnitude among the tabulated values that can enter its linear interpolation
    (the bracketing knots; on a knot also its neighbours)"""
    out = []
    n = len(aps)
    for x in xs:
        x = min(max(x, aps[0]), aps[-1])
        k = max(0, min(n - 2, max(i for i in range(n) if aps[i] <= x)))
        idx = {k, min(k + 1, n - 1)}
        if x == aps[k] and k > 0:
            idx.add(k - 1)
        out.append(max(abs(row[i]) for i in idx))
    return out


def cmp_matrix(impl, model, what, mags, exact=None):
    """mags[i][j]: largest tabulated magnitude entering cell (i, j); linear interpolation between values of very
    different size cancels, so the rounding budget is 1e-9 relative + 1e-12 x that magnitude.
    exact[i][j] (optional): the tabulated float that must come back bit for bit (a request on the smallest
    tabulated radius - where the code interpolates with weight exactly 0 - or a repeated single aperture)"""
    impl = np.asarray(impl, dtype=float)
    if impl.shape != (len(model), len(model[0]) if model else 0) and not (len(model) == 0 and impl.size == 0):
        return '%s: shape %r, model shape (%d, %d)' % (what, impl.shape, len(model), len(model[0]) if model else 0)
    for i, row in enumerate(model):
        for j, v in enumerate(row):
            m = mags[i][j] if isinstance(mags[i], (list, tuple)) else mags[i]
            if exact is not None and exact[i][j] is not None and float(impl[i, j]) != exact[i][j]:
                return '%s[%d][%d]: impl %r, tabulated value %r expected exactly (request on the smallest tabulated radius)' \
                    % (what, i, j, float(impl[i, j]), exact[i][j])
            if not common.close(impl[i, j], v, TOL, scale=1e-3 * m):
                return '%s[%d][%d]: impl %r, expected %r' % (what, i, j, float(impl[i, j]), float(v))
    return None


def classify(aps, xs, prefix, branches):
    for x in xs:
        if x < aps[0]:
            branches.add(prefix + '_below_error')
            if x > aps[0] * (1. - 2e-5):
                branches.add(prefix + '_below_near_error')
        elif x > aps[-1]:
            branches.add(prefix + '_above')
        elif x in aps:
            branches.add(prefix + '_knot')
        else:
            branches.add(prefix + '_inside')


def make_conv(case):
    from sedfitter.convolved_fluxes import ConvolvedFluxes
    nm = len(case['names'])
    c = ConvolvedFluxes()
    c.model_names = make_names(case)
    if not case['no_aps']:
        c.apertures = np.array(case['aps'], dtype=float) * UNITS[case['tab_unit']]
    c.central_wavelength = case['wav'] * u.micron
    c.flux = np.array(case['flux'], dtype=float).reshape(nm, -1) * funit(case)
    c.error = np.array(case['err'], dtype=float).reshape(nm, -1) * funit(case, 'err_unit')
    return c


def snap(xs, aps):
    """a request that is the first / last knot expressed in another unit comes back from the unit round trip within
    an ulp or two of the knot: the property expects the tabulated value there, so the model is asked at the knot"""
    out = []
    for x in xs:
        for a in (aps[0], aps[-1]):
            if x != a and abs(x - a) <= 1e-13 * abs(a):
                x = a
        out.append(x)
    return out


def refusal_verdict(model_err, impl_err, what):
    """model refuses: any exception of the implementation counts as a refusal; a different class / message is
    reported without claiming the property fails; a returned result is a violation"""
    if impl_err == model_err:
        return True, '', None
    if impl_err is not None:
        return False, '%s: refused as required, but with %s where the model has %s' % (what, impl_err, model_err), None
    return False, '%s: model refuses (%s), implementation returned a result' % (what, model_err), True


def run_conv(case, c=None):
    """one interpolate() against the table described by `case`; `c` is the object to call (a fresh one
    when None; in a history the caller passes the live object, whose current table is `case`)"""
    branches = set()
    tu, ru = UNITS[case['tab_unit']], UNITS[case['req_unit']]
    aps = case['aps']
    nm = len(case['names'])
    if c is None:
        c = make_conv(case)
    req_q = np.array(case['req'], dtype=float) * tu
    if ru is not tu:
        req_q = req_q.to(ru)
        branches.add('conv_other_unit')
    req_t = [float(v) for v in req_q.to(tu).value]     # what interp1d receives
    req_raw = list(req_t)
    if ru is not tu:
        if any(x in (aps[0], aps[-1]) for x in case['req']) and len(aps) >= 2:
            branches.add('conv_knot_other_unit')
        req_t = snap(req_t, aps)
    if not case['req']:
        branches.add('conv_empty_request')
    single = len(aps) == 1
    if single:
        branches.add('conv_single_repeat')
    else:
        classify(aps, req_t, 'conv', branches)
        if ru is not tu and any(x > aps[-1] for x in req_t):
            branches.add('conv_above_other_unit')
    line = ' '.join(['interp', rat(case['wav']), str(nm)] + case['names'] +
                    [rats([] if case['no_aps'] else aps), rows_txt(case['flux']), rows_txt(case['err']), rats(req_t)])
    tag, t = ask_value(line)
    passed = req_q.copy()
    try:
        out = c.interpolate(passed)
        impl_err = None
    except Exception as e:       # noqa: BLE001 — the error class is the observable
        impl_err = err_enum(e)
    what = 'ConvolvedFluxes.interpolate, apertures %r %s, request %r %s (= %r %s)' % (
        aps, case['tab_unit'], [float(v) for v in req_q.value], case['req_unit'], req_t, case['tab_unit'])
    if tag == 'E':
        ok, detail, viol = refusal_verdict(t, impl_err, what)
        return ok, detail, branches, viol
    if impl_err is not None:
        return False, '%s: raised %s although no radius is below the table; expected fluxes per C13 (tabulated on a ' \
                      'knot, linear inside, largest-aperture value above)' % (what, impl_err), branches, True
    wav = t.rat(); nn = t.nat(); names = [t.tok() for _ in range(nn)]
    m_aps = t.rats(); m_flux = read_rows(t); m_err = read_rows(t)
    exp_names = make_names(case)
    if case.get('name_style', 'plain') != 'plain':
        branches.add('conv_names_blank_or_bytes')
    got_names = np.asarray(out.model_names)
    if got_names.shape != exp_names.shape or got_names.dtype.kind != exp_names.dtype.kind or \
            [x for x in got_names.tolist()] != [x for x in exp_names.tolist()] or nn != len(case['names']):
        return False, '%s: model names / order changed: returned %r, the table holds %r' % (
            what, got_names.tolist(), exp_names.tolist()), branches, True
    if float(out.central_wavelength.to(u.micron).value) != float(wav):
        return False, 'central wavelength changed: %r vs %r' % (out.central_wavelength, float(wav)), branches, True
    if case.get('flux_unit', 'mJy') != case.get('err_unit', 'mJy') and not single:
        branches.add('conv_flux_err_units_differ')
    try:
        got_flux = out.flux.to(funit(case)).value
        got_err = out.error.to(funit(case, 'err_unit')).value
    except Exception as e:      # noqa: BLE001
        return False, '%s: returned flux / error units %r / %r cannot be converted to the table\'s %s / %s (%s)' % (
            what, getattr(out.flux, 'unit', None), getattr(out.error, 'unit', None), case.get('flux_unit', 'mJy'),
            case.get('err_unit', 'mJy'), e), branches, True
    what = what + ', flux in %s, error in %s' % (case.get('flux_unit', 'mJy'), case.get('err_unit', 'mJy'))
    if case.get('huge') and not single:
        branches.add('conv_huge_range')
    on_first = [(not single) and x <= aps[0] for x in req_raw]
    if any(on_first):
        branches.add('conv_first_knot_exact')
    for impl, model, what2, tabv in ((got_flux, m_flux, 'flux', case['flux']),
                                     (got_err, m_err, 'error', case['err'])):
        if single:
            mags = [[abs(row[0])] * len(req_t) for row in tabv]
            exact = [[float(row[0])] * len(req_t) for row in tabv]
        else:
            mags = [bracket_mags(aps, row, req_t) for row in tabv]
            exact = [[float(row[0]) if f else None for f in on_first] for row in tabv]
        d = cmp_matrix(impl, model, what2, mags, exact)
        if d:
            return False, '%s: %s' % (what, d), branches, True
    got_aps = out.apertures.to(tu).value
    if len(got_aps) != len(m_aps) or any(not common.close(g, m, 1e-12, scale=abs(float(m))) for g, m in zip(got_aps, m_aps)):
        # the returned radii are not part of the property's statement: model / implementation difference only
        return False, '%s: returned apertures %r, model %r' % (what, list(got_aps), [float(x) for x in m_aps]), branches, None
    return True, '', branches, None


def make_sed(case):
    aps = None if case['no_aps'] else case['aps']
    s = pk.make_sed('m', case['wavs'], case['flux'], np.zeros_like(np.array(case['flux'], dtype=float)), apertures_au=aps,
                    unit=funit(case))
    s.error = np.zeros(s.flux.shape) * funit(case, 'err_unit')
    if aps is not None and case.get('var_unit', 'au') != 'au':
        s.apertures = np.array(case['aps_stored'], dtype=float) * UNITS[case['var_unit']]
    elif aps is not None and case.get('tab_unit', 'au') != 'au':
        s.apertures = np.array(aps, dtype=float) * UNITS[case['tab_unit']]
    return s


def sed_txt(wavs, aps_au, flux):
    return ' '.join([rats(wavs), rats(aps_au), rows_txt(flux)])


def run_sed(case, s=None):
    branches = set()
    if s is None:
        s = make_sed(case)
    tu = UNITS[case['tab_unit']]
    aps_au = [] if case['no_aps'] else [float(v) for v in (np.array(case['aps'], dtype=float) * tu).to(u.au).value]
    req_q = np.array(case['req'], dtype=float) * tu
    if case['req_unit'] == 'bare':
        passed = req_q.to(u.au).value.copy()
        req_au = [float(v) for v in passed]
        branches.add('sed_bare')
    else:
        passed = req_q.to(UNITS[case['req_unit']])
        req_au = [float(v) for v in passed.to(u.au).value]
        branches.add('sed_quantity')
    req_raw = list(req_au)      # the AU numbers the code sees (before the knot snapping done for the model)
    single = len(case['aps']) == 1
    if case.get('flux_unit', 'mJy') != 'mJy' or case.get('err_unit', 'mJy') != case.get('flux_unit', 'mJy'):
        branches.add('sed_flux_other_unit')
    if not case['req']:
        branches.add('sed_empty_request')
    if single:
        branches.add('sed_single_repeat')
    else:
        if case['req_unit'] != 'bare' and case['req_unit'] != case['tab_unit']:
            if any(x in (case['aps'][0], case['aps'][-1]) for x in case['req']):
                branches.add('sed_knot_other_unit')
            req_au = snap(req_au, aps_au)
        classify(aps_au, req_au, 'sed', branches)
    tag, t = ask_value('sedinterp ' + sed_txt(case['wavs'], aps_au, case['flux']) + ' ' + rats(req_au))
    try:
        out = s.interpolate(passed.copy())
        impl_err = None
    except Exception as e:       # noqa: BLE001
        impl_err = err_enum(e)
    what = 'SED.interpolate, apertures %r %s (= %r AU), request %r %s (= %r AU)' % (
        case['aps'], case['tab_unit'], aps_au, [float(v) for v in getattr(passed, 'value', passed)], case['req_unit'], req_au)
    if tag == 'E':
        ok, detail, viol = refusal_verdict(t, impl_err, what)
        return ok, detail, branches, viol
    if impl_err is not None:
        return False, '%s: raised %s although no radius is below the table' % (what, impl_err), branches, True
    cols = [[case['flux'][a][i] for a in range(len(case['flux']))] for i in range(len(case['wavs']))]
    if single:
        mags = [[abs(col[0])] * len(req_au) for col in cols]
        exact = [[float(col[0])] * len(req_au) for col in cols]
    else:
        if case.get('huge'):
            branches.add('sed_huge_range')
        on_first = [x <= aps_au[0] for x in req_raw]
        if any(on_first):
            branches.add('sed_first_knot_exact')
        mags = [bracket_mags(aps_au, col, req_au) for col in cols]
        exact = [[float(col[0]) if f else None for f in on_first] for col in cols]
    d = cmp_matrix(np.asarray(getattr(out, 'value', out), dtype=float), read_rows(t), 'flux[wavelength][request]', mags, exact)
    if d:
        return False, '%s: %s' % (what, d), branches, True
    return True, '', branches, None


def run_var(case, s=None):
    branches = set()
    if s is None:
        s = make_sed(case)
    aps = case['aps']
    aps_au = [] if case['no_aps'] else aps
    fw, fa = case['fw'], case['fa']
    single = len(aps) == 1
    if single:
        branches.add('var_single')
    else:
        if any(a < aps[0] for a in fa):
            branches.add('var_below_error')
            if any(aps[0] * (1. - 2e-5) < a < aps[0] for a in fa):
                branches.add('var_below_near_error')
        if any(a > aps[-1] for a in fa):
            branches.add('var_above')
        if any(a == aps[0] for a in fa):
            branches.add('var_on_min')
        if case.get('var_unit', 'au') != 'au' and any(a in (aps[0], aps[-1]) for a in fa):
            branches.add('var_knot_other_unit')
        if len(fw) == 1:
            branches.add('var_single_filter')
    tag, t = ask_value('interpvar ' + sed_txt(case['wavs'], aps_au, case['flux']) + ' ' + rats(fw) + ' ' + rats(fa))
    try:
        out = s.interpolate_variable(np.array(fw, dtype=float), np.array(fa, dtype=float))
        impl_err = None
    except Exception as e:       # noqa: BLE001
        impl_err = err_enum(e)
    what = 'SED.interpolate_variable, SED apertures %r AU (stored as %r %s), filter wavelengths %r, filter apertures %r AU' % (
        aps, case.get('aps_stored', aps), case.get('var_unit', 'au'), fw, fa)
    if tag == 'E':
        ok, detail, viol = refusal_verdict(t, impl_err, what)
        return ok, detail, branches, viol
    if impl_err is not None:
        return False, '%s: raised %s although no filter aperture is below the table; expected the interpolant at each ' \
                      'filter\'s aperture' % (what, impl_err), branches, True
    model = t.rats()
    got = np.asarray(getattr(out, 'value', out), dtype=float)
    if got.shape != (len(model),):
        return False, '%s: result shape %r, expected (%d,)' % (what, got.shape, len(model)), branches, True
    # the property's own right-hand side: at a filter's wavelength, interpClamp at that filter's aperture
    at_filter = set()
    if not single:
        lo, hi = min(fw), max(fw)
        for i, w in enumerate(case['wavs']):
            if w in fw:
                branches.add('var_at_filter')
                at_filter.add(i)
                j = fw.index(w)
                col = [case['flux'][a][i] for a in range(len(aps))]
                tg, tt = ask_value('interp1 %s %s %s' % (rats(aps), rats(col), rat(fa[j])))
                rhs = tt.rat()
                if not common.close(got[i], rhs, TOL, scale=1e-3 * bracket_mags(aps, col, [fa[j]])[0]):
                    return False, '%s: at filter wavelength %r (aperture %r AU) impl %r, linear interpolant of the SED at ' \
                                  'that aperture %r; fluxes over apertures %r' \
                        % (what, w, fa[j], float(got[i]), float(rhs), col), branches, True
            elif lo < w < hi:
                branches.add('var_between')
            else:
                branches.add('var_outside')
    for i, v in enumerate(model):
        mag = max(abs(case['flux'][a][i]) for a in range(len(case['flux'])))
        if not common.close(got[i], v, TOL, scale=1e-3 * mag):
            # between / outside the filter wavelengths the property says nothing: model / implementation difference only
            return False, '%s: at SED wavelength %r impl %r, model %r' % (what, case['wavs'][i], float(got[i]), float(v)), \
                branches, (True if (single or i in at_filter) else None)
    return True, '', branches, None


# ----------------------------------------------------------------------------- same-object histories

def gen_rows(rng, n_rows, n_cols, mono=False):
    rows = []
    for _ in range(n_rows):
        row = [nice(rng, 1e-3, 1e3, 4) for _ in range(n_cols)]
        rows.append(sorted(row) if mono else row)
    return rows


def gen_hist(rng, directed=None):
    """a ConvolvedFluxes object used several times: interpolate / assign flux / assign error / assign both /
    assign apertures (with or without consistent new flux and error), every interpolate is compared"""
    base = gen_conv(rng, 'conv_inside')
    base['req_unit'] = base['tab_unit']
    if directed is None and rng.random() < 0.1:
        base = gen_conv(rng, 'conv_single')
    nm = len(base['names'])
    aps = list(base['aps'])
    tu = base['tab_unit']
    ops = {'h_error': ['interp', 'error', 'interp'], 'h_flux': ['interp', 'flux', 'interp'],
           'h_both': ['interp', 'both', 'interp'], 'h_aps': ['interp', 'aps', 'interp'],
           'h_aps_only': ['interp', 'aps_only', 'interp'], 'h_repeat': ['interp', 'interp'],
           'h_long': ['interp', 'error', 'interp', 'flux', 'interp', 'error', 'interp']}.get(directed)
    if ops is None:
        ops = ['interp']
        for _ in range(rng.randint(1, 3)):
            ops.append(rng.choice(['interp', 'flux', 'error', 'error', 'both', 'aps', 'aps_only']))
        if ops[-1] != 'interp':
            ops.append('interp')
    steps = []
    for op in ops:
        if op == 'interp':
            kinds = pick_kinds(rng, rng.randint(1, 5), allow_below=(len(aps) >= 2 and rng.random() < 0.3))
            steps.append(dict(op='interp', req=gen_req(rng, aps, kinds)))
        elif op == 'flux':
            steps.append(dict(op='flux', flux=gen_rows(rng, nm, len(aps))))
        elif op == 'error':
            steps.append(dict(op='error', err=gen_rows(rng, nm, len(aps))))
        elif op == 'both':
            steps.append(dict(op='both', flux=gen_rows(rng, nm, len(aps)), err=gen_rows(rng, nm, len(aps))))
        elif op == 'aps_only':
            if len(aps) < 2:
                steps.append(dict(op='error', err=gen_rows(rng, nm, len(aps))))
            else:
                aps = gen_aps(rng, len(aps), tu)
                steps.append(dict(op='aps_only', aps=aps))
        elif op == 'aps':
            if len(aps) < 2:
                steps.append(dict(op='flux', flux=gen_rows(rng, nm, len(aps))))
            else:
                aps = gen_aps(rng, rng.randint(2, 8), tu)
                steps.append(dict(op='aps', aps=aps, flux=gen_rows(rng, nm, len(aps)), err=gen_rows(rng, nm, len(aps))))
    base.pop('req')
    base['kind'] = 'hist'
    base['steps'] = steps
    return base


def gen_shist(rng, directed=None):
    """an SED object used several times: interpolate / interpolate_variable / assign flux"""
    base = gen_var(rng, 'var_at_filter' if directed else None, tu='au')
    ops = {'sh_interp': ['sinterp', 'sflux', 'sinterp'], 'sh_var': ['var', 'sflux', 'var'],
           'sh_mixed': ['sinterp', 'var', 'sflux', 'var', 'sinterp']}.get(directed)
    if ops is None:
        ops = [rng.choice(['sinterp', 'var'])]
        for _ in range(rng.randint(1, 3)):
            ops.append(rng.choice(['sinterp', 'var', 'sflux', 'sflux']))
        if ops[-1] == 'sflux':
            ops.append(rng.choice(['sinterp', 'var']))
    aps = base['aps']
    steps = []
    for op in ops:
        if op == 'sinterp':
            kinds = pick_kinds(rng, rng.randint(1, 4), allow_below=(len(aps) >= 2 and rng.random() < 0.3))
            steps.append(dict(op='sinterp', req=gen_req(rng, aps, kinds)))
        elif op == 'var':
            kinds = pick_kinds(rng, len(base['fw']), allow_below=(len(aps) >= 2 and rng.random() < 0.2))
            steps.append(dict(op='var', fa=gen_req(rng, aps, kinds)))
        else:
            steps.append(dict(op='sflux', flux=gen_rows(rng, len(aps), len(base['wavs']))))
    base['kind'] = 'shist'
    base['steps'] = steps
    base.pop('fa')
    return base


def run_hist(case):
    branches = set()
    state = {k: case[k] for k in ('aps', 'no_aps', 'tab_unit', 'req_unit', 'names', 'wav', 'flux', 'err', 'flux_unit', 'err_unit', 'name_style')
             if k in case}
    c = make_conv(state)
    tu = UNITS[state['tab_unit']]
    nm = len(state['names'])
    done = []
    last_assign = None
    for k, st in enumerate(case['steps']):
        op = st['op']
        if op == 'interp':
            ok, detail, br, viol = run_conv(dict(state, req=st['req']), c)
            branches |= br
            if len(state['aps']) >= 2:
                if last_assign:
                    branches.add('hist_conv_after_' + last_assign)
                elif done and done[-1] == 'interp':
                    branches.add('hist_conv_repeat_interp')
            if not ok:
                return False, 'same ConvolvedFluxes object, history %r, step %d (interpolate): %s; table held by the ' \
                              'object at that moment: apertures %r, flux %r, error %r' \
                    % (done + ['interp'], k, detail, state['aps'], state['flux'], state['err']), branches, viol
            last_assign = None
        else:
            state = dict(state)
            if op in ('aps', 'aps_only'):
                state['aps'] = st['aps']
                c.apertures = np.array(st['aps'], dtype=float) * tu
            if op in ('flux', 'both', 'aps'):
                state['flux'] = st['flux']
                c.flux = np.array(st['flux'], dtype=float).reshape(nm, -1) * funit(state)
            if op in ('error', 'both', 'aps'):
                state['err'] = st['err']
                c.error = np.array(st['err'], dtype=float).reshape(nm, -1) * funit(state, 'err_unit')
            last_assign = {'aps': 'apertures', 'aps_only': 'apertures'}.get(op, op)
        done.append(op)
    return True, '', branches, None


def run_shist(case):
    branches = set()
    state = {k: case[k] for k in ('aps', 'no_aps', 'wavs', 'flux', 'fw', 'flux_unit', 'err_unit') if k in case}
    state['tab_unit'] = 'au'
    s = make_sed(state)
    done = []
    after_flux = False
    for k, st in enumerate(case['steps']):
        op = st['op']
        if op == 'sflux':
            state = dict(state, flux=st['flux'])
            s.flux = np.array(st['flux'], dtype=float).reshape(len(st['flux']), -1) * funit(state)
            after_flux = True
        else:
            if op == 'sinterp':
                ok, detail, br, viol = run_sed(dict(state, req=st['req'], req_unit='bare'), s)
                tag = 'hist_sed_after_flux'
            else:
                ok, detail, br, viol = run_var(dict(state, fa=st['fa']), s)
                tag = 'hist_sed_var_after_flux'
            branches |= br
            if after_flux and len(state['aps']) >= 2:
                branches.add(tag)
            if not ok:
                return False, 'same SED object, history %r, step %d: %s; fluxes held by the object at that moment %r' \
                    % (done + [op], k, detail, state['flux']), branches, viol
            after_flux = False
        done.append(op)
    return True, '', branches, None


def nontrivial(case):
    if len(case['aps']) == 1 or case['kind'] in ('hist', 'shist'):
        return True
    xs = case['fa'] if case['kind'] == 'var' else case['req']
    return any(x not in case['aps'] for x in xs)


def run_case(case):
    ok, detail, branches, viol = {'conv': run_conv, 'sed': run_sed, 'var': run_var, 'hist': run_hist,
                                     'shist': run_shist}[case['kind']](case)
    sample = dict(kind=case['kind'], apertures=case['aps'],
                  request=case.get('req', case.get('fa', [st['op'] for st in case.get('steps', [])])),
                  units=(case.get('tab_unit'), case.get('req_unit')))
    return CaseResult(ok, detail=detail, branches=branches, key=common.canon_hash(case), nontrivial=nontrivial(case),
                      sample=sample, violates=None if ok else viol)


def search(seed, tier, disagreeing):
    """falsifier: the property's statement evaluated directly (numpy formula, no Lean model) on the
    disagreeing cases and on a directed sweep"""
    found = []
    tried = 0
    cases = list(disagreeing)
    for i in range(300):
        rng = case_rng(seed, PID + '-search', i)
        cases.append(gen_conv(rng, rng.choice([None, 'conv_knot', 'conv_above', 'conv_above_other_unit', 'conv_below'])))
        cases.append(gen_var(rng, rng.choice([None, 'var_on_min', 'var_above'])))
    for case in cases:
        tried += 1
        d = direct_check(case)
        if d:
            found.append((case, d))
            if len(found) >= 5:
                break
    return found, tried


def direct_formula(aps, row, x):
    if x > aps[-1]:
        x = aps[-1]
    if x < aps[0]:
        return None
    for i, a in enumerate(aps):
        if x == a:
            return row[i]
    for i in range(len(aps) - 1):
        if aps[i] < x < aps[i + 1]:
            return row[i] + (x - aps[i]) / (aps[i + 1] - aps[i]) * (row[i + 1] - row[i])
    return None


def direct_check(case):
    from sedfitter.convolved_fluxes import ConvolvedFluxes
    try:
        if case['kind'] == 'conv' and len(case['aps']) >= 2:
            tu, ru = UNITS[case['tab_unit']], UNITS[case['req_unit']]
            nm = len(case['names'])
            c = ConvolvedFluxes()
            c.model_names = make_names(case)
            c.apertures = np.array(case['aps'], dtype=float) * tu
            c.central_wavelength = case['wav'] * u.micron
            c.flux = np.array(case['flux'], dtype=float).reshape(nm, -1) * funit(case)
            c.error = np.array(case['err'], dtype=float).reshape(nm, -1) * funit(case, 'err_unit')
            req_q = (np.array(case['req'], dtype=float) * tu).to(ru)
            req_t = [float(v) for v in req_q.to(tu).value]
            below = any(x < case['aps'][0] for x in req_t)
            try:
                out = c.interpolate(req_q.copy())
            except Exception as e:   # noqa: BLE001
                if below and err_enum(e) == 'tooSmall':
                    return None
                return 'ConvolvedFluxes.interpolate raised %s: apertures=%r %s request=%r %s' % (
                    err_enum(e), case['aps'], case['tab_unit'], [float(v) for v in req_q.value], case['req_unit'])
            if below:
                return 'request below the table accepted: apertures=%r request=%r' % (case['aps'], req_t)
            for i in range(nm):
                for j, x in enumerate(req_t):
                    e = direct_formula(case['aps'], case['flux'][i], x)
                    g = float(out.flux[i, j].to(funit(case)).value)
                    if abs(g - e) > 1e-9 * abs(e) + 1e-12 * max(abs(v) for v in case['flux'][i]):
                        return 'flux[%d][%d] = %r, formula %r (apertures %r, request %r)' % (i, j, g, e, case['aps'], x)
        elif case['kind'] == 'var' and len(case['aps']) >= 2:
            s = make_sed(case)
            fa, fw, aps = case['fa'], case['fw'], case['aps']
            below = any(a < aps[0] for a in fa)
            try:
                out = s.interpolate_variable(np.array(fw, dtype=float), np.array(fa, dtype=float))
            except Exception as e:   # noqa: BLE001
                if below and err_enum(e) == 'tooSmall':
                    return None
                return 'interpolate_variable raised %s: SED apertures=%r filters=%r / %r' % (err_enum(e), aps, fw, fa)
            if below:
                return 'filter aperture below the table accepted: %r / %r' % (aps, fa)
            got = np.asarray(getattr(out, 'value', out), dtype=float)
            for i, w in enumerate(case['wavs']):
                if w in fw:
                    col = [case['flux'][a][i] for a in range(len(aps))]
                    e = direct_formula(aps, col, fa[fw.index(w)])
                    if abs(got[i] - e) > 1e-9 * abs(e) + 1e-12 * max(abs(v) for v in col):
                        return 'at filter wavelength %r: %r, formula %r (apertures %r, filter aperture %r)' % (
                            w, float(got[i]), e, aps, fa[fw.index(w)])
    except Exception as e:   # noqa: BLE001
        return None
    return None
