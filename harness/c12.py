"""C12 — SED, cube and convolved-flux files read back exactly what was stored.

Real side : SED.write -> SED.read(order=, unit_flux=<stored unit>); SEDCube.write -> SEDCube.read(order=, memmap=);
            SEDCube.get_sed; ConvolvedFluxes.write -> ConvolvedFluxes.read.
Model side: driver ops `sedrt`, `cubert`, `getsed`, `convrt` (Model/RoundTrip.lean) on the same wavelength /
            frequency floats (as exact rationals); cell values travel as opaque integer ids, so the model
            predicts *which* stored cell must appear at each position of every array read back.
Property  : evaluated directly as well (independent of the model): every (model, aperture, wavelength-value)
            cell read back equals the cell stored; the other read order is the joint reversal of wav, nu,
            values, uncertainties; get_sed returns the slice put in; absent optional parts stay absent.
"""
import os
import shutil
import tempfile

import numpy as np

from . import common
from .common import CaseResult, rat, rats, case_rng, nice
from . import packages as pk

from astropy import units as u   # noqa: E402  (after packages: repo path is set up)

PID = 'C12'
RULE = ('cases = (object kind in {sed, cube, conv}, spectral axis ascending/descending in wavelength, read order, '
        'with/without apertures, with/without uncertainties (cube), flux unit, memmap (cube), sizes 1..6 models x '
        '1..5 apertures x 2..40 wavelengths, distinct cell values); every case is non-trivial (>= 2 wavelengths, '
        'so a reversal or a mis-permutation changes some cell); distinct = distinct canonical hash of the inputs. '
        'The directed block enumerates the full product of the discrete dimensions, plus every ordered pair of '
        'DIFFERENT units for flux / error (val / unc) per object kind (SEDs also x read order x direction). Histories: 2..4 successive '
        'write(overwrite=True) -> read round trips on ONE path per object kind, fresh contents of the same shape '
        '(sometimes another shape) each time, every read compared with what was written last. Sibling histories: a '
        'path and its compressed twin <path>.gz in one directory (stale twin beside the file addressed, either way '
        'round; .gz written and addressed explicitly; only the .gz present and addressed without .gz for SED.read, '
        'the one reader with a fallback). Special value patterns of every stored array (all cells 0, all equal, a '
        'single non-zero cell). Routes: constructor keyword arguments vs attributes assigned later, copy / deepcopy / '
        'pickle of the object before writing, positional calls of read / write, SED.read(unit_wav=, unit_freq=) at '
        'non-default units, SEDCube.write(meta=), a default write (overwrite=False) onto an existing file that must '
        'refuse before the real write, an SED completed after SED.write refused it.')
UNITS = ['mJy', 'Jy', 'erg/cm2/s', 'erg/s']
ASSUMPTIONS = [
    'FITS byte layout, unit-string formatting/parsing are astropy\'s (trusted); float64 payload is stored bit-exactly',
    'cube and convolved-flux cells, and SED cells stored in erg/cm^2/s, are compared for exact equality; SED cells '
    'stored in mJy, Jy or erg/s pass through SED.read\'s (x*nu)/nu resp. (x/d^2)*d^2 even when unit_flux is the '
    'stored unit, so they are compared to 1e-13 relative; a mislabelled cell differs by O(1)',
    'flux and error (val and unc) may be held in different permitted units: cubes and convolved fluxes must return '
    'each array in its own unit, bit-exactly; SED.read(unit_flux=<flux unit>) must return the stored errors expressed '
    'in the flux unit (F = nu F_nu, L = F d^2, computed by the harness with astropy quantities) to 1e-13 relative',
    'wavelength / frequency arrays are matched to 1e-12 relative (unit-conversion rounding), then cells are keyed '
    'by the matched index',
    'model names shorter than 30 characters',
    'uncertainties are optional for cubes (and for get_sed on a cube without them) only: SED.write refuses an SED '
    'whose errors are not set (ValueError "Errors are not set"); that refusal is what the model predicts '
    '(C12_sed_no_err_refused) and what the sed_noerr cases expect; convolved fluxes always carry errors',
    'an SED written without apertures reads back with the stored placeholder aperture [1e-30] cm (model: RT.withAps); '
    'cubes and convolved fluxes without apertures read back without them',
]
EXHAUSTIVE = {'quick': True, 'thorough': True}   # the discrete product (kind x direction x order x parts x unit x memmap)
N_RANDOM = {'quick': 300, 'thorough': 24000}


def _unit(name):
    return {'mJy': u.mJy, 'Jy': u.Jy, 'erg/cm2/s': u.erg / u.cm ** 2 / u.s, 'erg/s': u.erg / u.s}[name]


def _eunit_name(c):
    """unit of the error / uncertainty arrays (default: the flux unit)"""
    return c.get('err_unit') or c['unit']


def _convert(vals, src, dst, nu_hz, d_kpc):
    """values in unit `src` expressed in unit `dst` through erg/cm^2/s (F = nu F_nu, L = F d^2), computed here with
    astropy quantities, independently of sedfitter; nu_hz broadcasts over the last axis"""
    vals = np.asarray(vals, float)
    if src == dst:
        return vals
    cgs = u.erg / u.cm ** 2 / u.s
    q = vals * _unit(src)
    nu = np.asarray(nu_hz, float) * u.Hz
    dist = (d_kpc * u.kpc).to(u.cm)
    if src in ('mJy', 'Jy'):
        q = (q * nu).to(cgs)
    elif src == 'erg/s':
        q = (q / dist ** 2).to(cgs)
    if dst in ('mJy', 'Jy'):
        q = (q / nu).to(_unit(dst))
    elif dst == 'erg/s':
        q = (q * dist ** 2).to(_unit(dst))
    return np.asarray(q.value, float)


def combo_name(c):
    base = _combo_name(c)
    if c['kind'] in ('sed', 'cube', 'conv') and _eunit_name(c) != c['unit']:
        base += '|err=' + _eunit_name(c)
    return base


def _combo_name(c):
    if c['kind'] == 'sed_noerr':
        return 'sed_noerr|' + c['direction']
    if c['kind'] == 'sed':
        parts = ['sed', c['direction'], c['order'], 'ap' if c['has_ap'] else 'noap', c['unit']]
    elif c['kind'] == 'cube':
        parts = ['cube', c['direction'], c['order'], 'ap' if c['has_ap'] else 'noap',
                 'unc' if c['has_unc'] else 'nounc', c['unit'], 'memmap' if c['memmap'] else 'nomemmap']
    else:
        parts = ['conv', 'ap' if c['has_ap'] else 'noap', c['unit'], 'wav' if c.get('has_wav', True) else 'nowav']
    return '|'.join(parts)


def all_combos():
    out = []
    for d in ('asc', 'desc'):
        for o in ('nu', 'wav'):
            for ap in (True, False):
                for un in UNITS:
                    out.append(dict(kind='sed', direction=d, order=o, has_ap=ap, has_unc=True, unit=un, memmap=False))
                    for unc in (True, False):
                        for mm in (True, False):
                            out.append(dict(kind='cube', direction=d, order=o, has_ap=ap, has_unc=unc, unit=un, memmap=mm))
    for ap in (True, False):
        for un in UNITS:
            for hw in (True, False):
                out.append(dict(kind='conv', direction='asc', order='nu', has_ap=ap, has_unc=True, unit=un, memmap=False,
                                has_wav=hw))
    return out + mixed_unit_combos()


def mixed_unit_combos():
    """flux / error (val / unc) held in DIFFERENT permitted units: every ordered pair of distinct units, for SEDs x
    read order x axis direction, for cubes (with uncertainties) x read order, for convolved fluxes"""
    out = []
    for un in UNITS:
        for eu in UNITS:
            if eu == un:
                continue
            for o in ('nu', 'wav'):
                for d in ('asc', 'desc'):
                    out.append(dict(kind='sed', direction=d, order=o, has_ap=(o == 'nu'), has_unc=True, unit=un,
                                    err_unit=eu, memmap=False))
                out.append(dict(kind='cube', direction='asc' if o == 'nu' else 'desc', order=o, has_ap=True, has_unc=True,
                                unit=un, err_unit=eu, memmap=(o == 'wav')))
            out.append(dict(kind='conv', direction='asc', order='nu', has_ap=True, has_unc=True, unit=un, err_unit=eu,
                            memmap=False, has_wav=True))
    return out


PATTERN_NAMES = ['zero', 'equal', 'single']
REQUIRED_BRANCHES = sorted({combo_name(c) for c in all_combos()}) + \
    ['write_reverses', 'write_keeps', 'read_reverses', 'read_keeps', 'get_sed', 'get_sed_no_unc', 'single_aperture',
     'multi_aperture', 'single_model', 'multi_model',
     'history_sed', 'history_cube', 'history_conv', 'history_same_shape', 'history_other_shape',
     'sed_no_err_refused', 'sed_aperture_placeholder', 'cube_valid_flags', 'conv_scalar_columns',
     'flux_error_units_differ'] + \
    ['sibling_%s_%s' % (m, k) for m in ['stale_gz_beside', 'stale_plain_beside_gz', 'gz_explicit']
     for k in ('sed', 'cube', 'conv')] + ['sibling_only_gz_addressed_plain_sed'] + \
    ['pattern_%s_%s_%s' % (k, a, p) for k in ('sed', 'cube', 'conv') for a in ('val', 'unc') for p in PATTERN_NAMES] + \
    ['route_clone_%s_%s' % (cl, k) for cl in ('copy', 'deepcopy', 'pickle') for k in ('sed', 'cube', 'conv')] + \
    ['route_positional_' + k for k in ('sed', 'cube', 'conv')] + ['route_ctor_wav_cube', 'route_ctor_nu_cube', 'route_ctor_all_keywords_cube', 'route_ctor_conv'] + \
    ['route_refused_then_overwrite_' + k for k in ('sed', 'cube', 'conv')] + \
    ['route_unit_wav', 'route_unit_freq', 'route_meta_cube', 'sed_reused_after_refusal',
     'route_wav_unit_sed', 'route_wav_unit_cube', 'route_wav_unit_conv']


def fill(rng, combo, small=False, sizes=None):
    """draw sizes and arrays for one combination of the discrete dimensions (sizes = (nm, nw, nap) to fix them)"""
    c = dict(combo)
    nm = rng.randint(1, 3 if small else 6)
    nw = rng.randint(2, 5 if small else 40)
    nap = rng.randint(1, 3 if small else 5) if c['has_ap'] else 1
    if sizes is not None:
        nm, nw, nap = sizes
        if not c['has_ap']:
            nap = 1
    ws = set()
    while len(ws) < nw:
        ws.add(nice(rng, 0.1, 1000., 4))
    wav = sorted(ws)
    if c['direction'] == 'desc':
        wav = wav[::-1]
    aps = sorted({nice(rng, 10., 1e5, 3) for _ in range(nap * 3)})[:nap]
    while len(aps) < nap:
        aps.append(aps[-1] * 2.)
    c['wav'] = wav
    c['aps'] = aps if c['has_ap'] else None
    c['names'] = ['m%03d_%s' % (i, 'abcdefgh'[rng.randrange(8)]) for i in range(nm)]
    rng.shuffle(c['names'])
    c['val'] = [[[nice(rng, 1e-4, 1e4, 6) for _ in range(nw)] for _ in range(nap)] for _ in range(nm)]
    c['unc'] = [[[nice(rng, 1e-6, 1e2, 6) for _ in range(nw)] for _ in range(nap)] for _ in range(nm)]
    c['distance_kpc'] = nice(rng, 0.1, 10., 3)
    # validity flags of a cube (None = not set: the cube then reports all models valid)
    c['valid'] = [rng.randrange(2) for _ in range(nm)] if (c['kind'] == 'cube' and rng.random() < 0.5) else None
    return c


PATTERNS = ['zero', 'equal', 'single']
CLONES = ['copy', 'deepcopy', 'pickle']
WAV_UNITS = ['nm', 'Angstrom', 'cm']
FREQ_UNITS = ['GHz', 'THz']


def apply_pattern(c, arr, pattern, rng):
    """special value patterns of a stored array: every cell exactly 0 / all cells equal / a single non-zero cell"""
    a = c[arr]
    nm, nap, nw = len(a), len(a[0]), len(a[0][0])
    if pattern == 'zero':
        new = [[[0. for _ in range(nw)] for _ in range(nap)] for _ in range(nm)]
    elif pattern == 'equal':
        v = a[0][0][0]
        new = [[[v for _ in range(nw)] for _ in range(nap)] for _ in range(nm)]
    else:
        new = [[[0. for _ in range(nw)] for _ in range(nap)] for _ in range(nm)]
        m, p, k = rng.randrange(nm), rng.randrange(nap), rng.randrange(nw)
        new[m][p][k] = a[m][p][k]
    c[arr] = new
    c.setdefault('pattern', {})[arr] = pattern
    return c


def route_plan():
    """(kind, route) of the directed routes: how the object is built / cloned / written / read"""
    out = []
    for kind in ('sed', 'cube', 'conv'):
        for cl in CLONES:
            out.append((kind, dict(clone=cl)))
        out.append((kind, dict(positional=True)))
        out.append((kind, dict(refuse_first=True)))
        out.append((kind, dict(refuse_first=True, clone='pickle', positional=True)))
        if kind == 'conv':
            out.append((kind, dict(ctor=True)))
            out.append((kind, dict(ctor=True, clone='deepcopy')))
        if kind == 'cube':
            for how in ('wav', 'nu', 'all'):
                out.append((kind, dict(ctor=how)))
            out.append((kind, dict(ctor='all', clone='deepcopy')))
            out.append((kind, dict(ctor='nu', clone='pickle', positional=True)))
    for kind in ('sed', 'cube', 'conv'):
        for wu in WAV_UNITS + ['m']:
            out.append((kind, dict(wav_unit=wu)))          # the object HOLDS its wavelength(s) in another length unit
    out.append(('conv', dict(wav_unit='nm', ctor=True, clone='pickle')))
    for uw in WAV_UNITS:
        out.append(('sed', dict(unit_wav=uw)))
    for uf in FREQ_UNITS:
        out.append(('sed', dict(unit_freq=uf)))
    out.append(('sed', dict(unit_wav='nm', unit_freq='GHz', positional=True)))
    out.append(('cube', dict(meta=True)))
    out.append(('cube', dict(meta=True, positional=True)))
    return out


def random_route(rng, kind):
    r = {}
    if rng.random() < 0.4:
        r['clone'] = rng.choice(CLONES)
    if rng.random() < 0.3:
        r['positional'] = True
    if rng.random() < 0.2:
        r['refuse_first'] = True
    if kind == 'conv' and rng.random() < 0.4:
        r['ctor'] = True
    if kind == 'cube' and rng.random() < 0.4:
        r['ctor'] = rng.choice(['wav', 'nu', 'all'])
    if kind == 'sed' and rng.random() < 0.4:
        r['unit_wav'] = rng.choice(WAV_UNITS)
    if kind == 'sed' and rng.random() < 0.3:
        r['unit_freq'] = rng.choice(FREQ_UNITS)
    if kind == 'cube' and rng.random() < 0.3:
        r['meta'] = True
    if rng.random() < 0.3:
        r['wav_unit'] = rng.choice(WAV_UNITS + ['m'])
    return r


def gen_history(rng, combo, n_steps, shape_change, small=True):
    """2..4 successive write(overwrite=True) -> read round trips on ONE path: same object kind, same units / order /
    optional parts, fresh contents of the same shape each time (axis direction may flip); with `shape_change` one of
    the later steps has other sizes"""
    first = fill(rng, combo, small=small)
    sizes = (len(first['names']), len(first['wav']), len(first['val'][0]))
    steps = [first]
    change_at = rng.randrange(1, n_steps) if shape_change else -1
    for k in range(1, n_steps):
        cb = dict(combo)
        if rng.random() < 0.5:
            cb['direction'] = 'asc' if combo['direction'] == 'desc' else 'desc'
        if k == change_at:
            st = fill(rng, cb, small=small)
            if (len(st['names']), len(st['wav']), len(st['val'][0])) == sizes:
                st = fill(rng, cb, small=small, sizes=(sizes[0], sizes[1] + 1, sizes[2]))
        else:
            st = fill(rng, cb, small=small, sizes=sizes)
        steps.append(st)
    return dict(kind='history', obj=combo['kind'], steps=steps, shape_change=bool(shape_change))


SIBLING_MODES = ['stale_gz_beside', 'stale_plain_beside_gz', 'gz_explicit', 'only_gz_addressed_plain']


def gen_sibling(rng, combo, mode, same_shape=True):
    """histories over a path and its compressed twin `<path>.gz` in one directory:
    stale_gz_beside         write OLD to <path>.gz (and read it back), then NEW to <path>; reading <path> gives NEW
    stale_plain_beside_gz   write OLD to <path>, then NEW to <path>.gz; reading <path>.gz gives NEW
    gz_explicit             write to <path>.gz, read <path>.gz
    only_gz_addressed_plain write to <path>.gz only, read <path> (SED.read falls back to the .gz twin; SEDs only)"""
    first = fill(rng, combo, small=True)
    sizes = (len(first['names']), len(first['wav']), len(first['val'][0])) if same_shape else None
    second = fill(rng, combo, small=True, sizes=sizes)
    if mode == 'stale_gz_beside':
        steps = [dict(first, wsuf='.gz', rsuf='.gz'), dict(second, wsuf='', rsuf='')]
    elif mode == 'stale_plain_beside_gz':
        steps = [dict(first, wsuf='', rsuf=''), dict(second, wsuf='.gz', rsuf='.gz')]
    elif mode == 'gz_explicit':
        steps = [dict(first, wsuf='.gz', rsuf='.gz')]
    else:
        assert combo['kind'] == 'sed'
        steps = [dict(first, wsuf='.gz', rsuf='')]
    return dict(kind='history', obj=combo['kind'], steps=steps, shape_change=not same_shape, sibling=mode)


def sibling_plan():
    """(combo, mode) of the directed sibling histories: every mode for every object kind that supports it, SEDs in both
    read orders and two units"""
    out = []
    base = dict(direction='asc', has_ap=True, has_unc=True, memmap=False)
    for mode in SIBLING_MODES:
        for o, un in (('nu', 'mJy'), ('wav', 'erg/cm2/s')):
            out.append((dict(base, kind='sed', order=o, unit=un), mode))
        if mode != 'only_gz_addressed_plain':
            for mm in (False, True):
                out.append((dict(base, kind='cube', order='nu', unit='mJy', memmap=mm), mode))
            out.append((dict(base, kind='conv', order='nu', unit='mJy', has_wav=True), mode))
    return out


def history_combos():
    """one history per (kind, read order, unit) for SEDs, (order, memmap, unc) x two units for cubes, (apertures) for
    convolved fluxes"""
    out = []
    for c in all_combos():
        if c['kind'] == 'sed' and c['direction'] == 'asc' and c['has_ap']:
            out.append(c)
        elif c['kind'] == 'cube' and c['direction'] == 'desc' and c['has_ap'] and c['unit'] in ('mJy', 'erg/s'):
            out.append(c)
        elif c['kind'] == 'conv' and c['unit'] in ('mJy', 'erg/cm2/s'):
            out.append(c)
    return out


def gen_cases(seed, tier):
    i = 0
    for combo in all_combos():
        yield fill(case_rng(seed, PID, i), combo, small=True)
        i += 1
    # same-path histories (directed): every history combo with 3 same-shape steps, every third one again with a
    # change of shape in between
    for n, combo in enumerate(history_combos()):
        rng = case_rng(seed, PID, i); i += 1
        yield gen_history(rng, combo, 3, False)
        if n % 3 == 0:
            rng = case_rng(seed, PID, i); i += 1
            yield gen_history(rng, combo, 4, True)
    # special value patterns of every stored array
    base = dict(direction='asc', order='nu', has_ap=True, has_unc=True, unit='mJy', memmap=False, has_wav=True)
    for kind in ('sed', 'cube', 'conv'):
        for arr in ('val', 'unc'):
            for pat in PATTERNS:
                rng = case_rng(seed, PID, i); i += 1
                yield apply_pattern(fill(rng, dict(base, kind=kind, order=rng.choice(['nu', 'wav'])), small=True), arr, pat, rng)
        rng = case_rng(seed, PID, i); i += 1
        c = fill(rng, dict(base, kind=kind, direction='desc'), small=True)
        yield apply_pattern(apply_pattern(c, 'val', 'zero', rng), 'unc', 'zero', rng)
    # routes: constructor arguments vs attributes, copy / deepcopy / pickle before use, positional calls, non-default
    # read units, meta=, a refused write (overwrite=False on an existing file) before the real one
    for kind, route in route_plan():
        rng = case_rng(seed, PID, i); i += 1
        c = fill(rng, dict(base, kind=kind, direction=rng.choice(['asc', 'desc']), order=rng.choice(['nu', 'wav']),
                           unit=rng.choice(UNITS), has_unc=True), small=True)
        c['route'] = route
        yield c
    # a path and its compressed twin in one directory (stale siblings, .gz fallback of SED.read)
    for n, (combo, mode) in enumerate(sibling_plan()):
        rng = case_rng(seed, PID, i); i += 1
        yield gen_sibling(rng, combo, mode, same_shape=(n % 2 == 0))
    # SEDs without errors: SED.write refuses
    for direction in ('asc', 'desc'):
        for ap in (True, False):
            rng = case_rng(seed, PID, i); i += 1
            c = fill(rng, dict(kind='sed', direction=direction, order='nu', has_ap=ap, has_unc=False, unit='mJy',
                               memmap=False), small=True)
            c['kind'] = 'sed_noerr'
            yield c
    combos = all_combos()
    for _ in range(N_RANDOM[tier]):
        rng = case_rng(seed, PID, i)
        x = rng.random()
        if x < 0.04:
            combo = rng.choice(combos)
            modes = SIBLING_MODES if combo['kind'] == 'sed' else SIBLING_MODES[:3]
            yield gen_sibling(rng, combo, rng.choice(modes), same_shape=rng.random() < 0.6)
        elif x < 0.16:
            yield gen_history(rng, rng.choice(combos), rng.randint(2, 4), rng.random() < 0.3, small=rng.random() < 0.5)
        else:
            c = fill(rng, rng.choice(combos), small=False)
            if rng.random() < 0.12:
                apply_pattern(c, rng.choice(['val', 'unc']), rng.choice(PATTERNS), rng)
            if rng.random() < 0.3:
                c['route'] = random_route(rng, c['kind'])
            yield c
        i += 1


# ----------------------------------------------------------------------------- helpers

def _match(read_w, stored_w):
    """index in `stored_w` of every wavelength read back (1e-12 relative); None when there is no unique match"""
    stored = np.asarray(stored_w, float)
    out = []
    for w in np.asarray(read_w, float):
        hit = np.nonzero(np.abs(stored - w) <= 1e-12 * abs(w))[0]
        if len(hit) != 1:
            return None
        out.append(int(hit[0]))
    if sorted(out) != list(range(len(stored))):
        return None
    return out


def _eq(a, b, exact):
    a = np.asarray(a, float)
    b = np.asarray(b, float)
    if a.shape != b.shape:
        return False
    if exact:
        return bool(np.array_equal(a, b))
    return bool(np.all(np.abs(a - b) <= 1e-13 * np.abs(b)))


def _first_bad(a, b, exact):
    a = np.asarray(a, float)
    b = np.asarray(b, float)
    if a.shape != b.shape:
        return 'shape %r vs %r' % (a.shape, b.shape)
    bad = np.argwhere(~(a == b)) if exact else np.argwhere(~(np.abs(a - b) <= 1e-13 * np.abs(b)))
    if len(bad) == 0:
        return ''
    i = tuple(int(x) for x in bad[0])
    return 'cell %r: read %r, stored %r (%d cells differ)' % (i, float(a[i]), float(b[i]), len(bad))


def _clone(obj, how):
    """the object as it comes out of copy.copy / copy.deepcopy (SED.copy) / a pickle round trip"""
    import copy
    import pickle
    if how == 'copy':
        return copy.copy(obj)
    if how == 'deepcopy':
        return obj.copy() if hasattr(obj, 'copy') else copy.deepcopy(obj)
    if how == 'pickle':
        return pickle.loads(pickle.dumps(obj))
    return obj


def _route_branches(c, branches):
    r = c.get('route') or {}
    k = c['kind']
    if r.get('clone'):
        branches.add('route_clone_%s_%s' % (r['clone'], k))
    if r.get('positional'):
        branches.add('route_positional_' + k)
    if r.get('ctor') and k == 'conv':
        branches.add('route_ctor_conv')
    if r.get('unit_wav'):
        branches.add('route_unit_wav')
    if r.get('unit_freq'):
        branches.add('route_unit_freq')
    if r.get('meta'):
        branches.add('route_meta_cube')
    if r.get('wav_unit'):
        branches.add('route_wav_unit_' + k)
    for arr, pat in (c.get('pattern') or {}).items():
        branches.add('pattern_%s_%s_%s' % (k, arr, pat))


def _write(obj, fn, route, mod, what, branches, meta=None):
    """obj.write(fn, overwrite=True) by keyword or position; with route['refuse_first'] the file exists already (other
    bytes) and a default write (overwrite=False) is tried first: it must refuse and leave the file alone, and the
    object must still be usable"""
    route = route or {}
    if route.get('refuse_first'):
        with open(fn, 'wb') as f:
            f.write(b'stale bytes of an earlier file')
        before = open(fn, 'rb').read()
        try:
            if route.get('positional'):
                obj.write(fn, False)
            else:
                obj.write(fn)
            mod.append('%s: write with overwrite=False replaced an existing file instead of refusing' % what)
        except OSError:
            branches.add('route_refused_then_overwrite_' + what)
            if open(fn, 'rb').read() != before:
                mod.append('%s: the refused write changed the existing file' % what)
    if meta is not None:
        if route.get('positional'):
            obj.write(fn, True, meta)
        else:
            obj.write(fn, overwrite=True, meta=meta)
    elif route.get('positional'):
        obj.write(fn, True)
    else:
        obj.write(fn, overwrite=True)


def _paths(c, d, base):
    """(path written, path handed to the reader): steps of a sibling history write / address the compressed twin
    `<base>.gz` (`wsuf` / `rsuf`); plain cases use `<base>` for both"""
    wsuf = c.get('wsuf', '')
    return os.path.join(d, base + wsuf), os.path.join(d, base + c.get('rsuf', wsuf))


def _qval(q, unit):
    """values of a Quantity, which must carry `unit` (no conversion)"""
    if q.unit != unit:
        raise AssertionError('unit changed: %s -> %s' % (unit, q.unit))
    return np.asarray(q.value, float)


def _rows(a2):
    return ' '.join([str(len(a2))] + [rats(r) for r in a2])


def _cube3(a3):
    return ' '.join([str(len(a3))] + [_rows(m) for m in a3])


def _read_rows(t):
    return [t.rats() for _ in range(t.nat())]


def _read_cube3(t):
    return [_read_rows(t) for _ in range(t.nat())]


def _ids(shape, offset=0):
    return (np.arange(int(np.prod(shape))).reshape(shape) + offset)


# ----------------------------------------------------------------------------- SED

def check_sed(c, d, branches, with_model=True):
    """returns (prop_failures, model_failures)"""
    from sedfitter.sed import SED
    unit = _unit(c['unit'])
    exact = c['unit'] == 'erg/cm2/s'
    eun = _eunit_name(c)
    exact_e = exact and eun == c['unit']
    if eun != c['unit']:
        branches.add('flux_error_units_differ')
    _route_branches(c, branches)
    wav = np.array(c['wav'], float)
    nw = len(wav)
    prop, mod = [], []
    other = 'wav' if c['order'] == 'nu' else 'nu'
    for im, name in enumerate(c['names']):
        flux = np.array(c['val'][im], float)
        err_stored = np.array(c['unc'][im], float)
        nap = flux.shape[0]
        s = pk.make_sed(name, wav, flux, err_stored, apertures_au=c['aps'], distance_kpc=c['distance_kpc'], unit=unit)
        if eun != c['unit']:
            s.error = err_stored.reshape(s.flux.shape) * _unit(eun)      # errors held in another permitted unit
        nu_in = np.asarray(s.nu.to(u.Hz).value, float)
        # read back with unit_flux = the stored FLUX unit: the errors must come back as the stored errors expressed
        # in that unit
        err = _convert(err_stored, eun, c['unit'], nu_in, c['distance_kpc'])
        fn, fn_read = _paths(c, d, 'sed_%d.fits' % im)
        route = c.get('route') or {}
        if route.get('wav_unit'):
            s.wav = (wav * u.micron).to(getattr(u, route['wav_unit']))     # same wavelengths, held in another unit
        uw = getattr(u, route.get('unit_wav') or 'micron')
        uf = getattr(u, route.get('unit_freq') or 'Hz')
        try:
            with common.quiet():
                s = _clone(s, route.get('clone'))
                _write(s, fn, route, mod, 'sed', branches)
                if route.get('positional'):
                    r = SED.read(fn_read, uw, uf, unit, c['order'])
                    r2 = SED.read(fn_read, uw, uf, unit, other)
                else:
                    kw = {}
                    if route.get('unit_wav'):
                        kw['unit_wav'] = uw
                    if route.get('unit_freq'):
                        kw['unit_freq'] = uf
                    r = SED.read(fn_read, order=c['order'], unit_flux=unit, **kw)
                    r2 = SED.read(fn_read, order=other, unit_flux=unit, **kw)
        except Exception as e:
            prop.append('model %s: write/read raised %s: %s' % (name, type(e).__name__, e))
            continue
        if r.wav.unit != uw or r.nu.unit != uf:
            prop.append('model %s: wavelengths / frequencies come back in %s / %s, requested %s / %s'
                        % (name, r.wav.unit, r.nu.unit, uw, uf))
            continue
        rw = np.asarray(r.wav.to(u.micron).value, float)
        rn = np.asarray(r.nu.to(u.Hz).value, float)
        try:
            rf = _qval(r.flux, unit)
            re_ = _qval(r.error, unit)
        except AssertionError as e:
            prop.append('model %s: %s' % (name, e))
            continue
        # ---- the property itself, keyed by wavelength value
        idx = _match(rw, wav)
        if idx is None:
            prop.append('model %s: wavelengths read back %r are not the stored ones %r' % (name, rw.tolist(), wav.tolist()))
            continue
        if r.name != name:
            prop.append('model name read back %r != %r' % (r.name, name))
        if rf.shape != (nap, nw) or re_.shape != (nap, nw):
            prop.append('model %s: shapes %r %r, expected %r' % (name, rf.shape, re_.shape, (nap, nw)))
            continue
        if not _eq(rf, flux[:, idx], exact):
            prop.append('model %s order=%s unit=%s: flux by (aperture, wavelength value): %s'
                        % (name, c['order'], c['unit'], _first_bad(rf, flux[:, idx], exact)))
        if not _eq(re_, err[:, idx], exact_e):
            prop.append('model %s order=%s unit=%s error unit=%s: error by (aperture, wavelength value), stored errors '
                        'expressed in the flux unit: %s'
                        % (name, c['order'], c['unit'], eun, _first_bad(re_, err[:, idx], exact_e)))
        if not np.all(np.abs(rn - nu_in[idx]) <= 1e-12 * nu_in[idx]):
            prop.append('model %s: frequencies not aligned with wavelengths: %r vs %r' % (name, rn.tolist(), nu_in[idx].tolist()))
        if c['has_ap']:
            if r.apertures is None or not np.allclose(r.apertures.to(u.au).value, c['aps'], rtol=1e-12, atol=0):
                prop.append('model %s: apertures read back %r != %r' % (name, r.apertures, c['aps']))
        if r.distance is None or abs(r.distance.to(u.kpc).value - c['distance_kpc']) > 1e-12 * c['distance_kpc']:
            prop.append('model %s: distance read back %r, stored %r kpc' % (name, r.distance, c['distance_kpc']))
        # ---- other order = joint reversal of all four arrays
        ok_rev = (np.array_equal(np.asarray(r2.wav.value), np.asarray(r.wav.value)[::-1]) and
                  np.array_equal(np.asarray(r2.nu.value), np.asarray(r.nu.value)[::-1]) and
                  np.array_equal(np.asarray(r2.flux.value), np.asarray(r.flux.value)[:, ::-1]) and
                  np.array_equal(np.asarray(r2.error.value), np.asarray(r.error.value)[:, ::-1]))
        if not ok_rev:
            prop.append('model %s: order=%s is not the joint reversal of order=%s (wav %r vs %r)'
                        % (name, other, c['order'], np.asarray(r2.wav.value).tolist(), np.asarray(r.wav.value).tolist()))
        stored_rev = nu_in[0] > nu_in[-1]
        branches.add('write_reverses' if stored_rev else 'write_keeps')
        read_rev = (c['order'] == 'wav')          # the file is in increasing nu
        branches.add('read_reverses' if read_rev else 'read_keeps')
        if not with_model:
            continue
        # ---- model: which stored cell sits where
        fid = _ids((nap, nw))
        eid = _ids((nap, nw), offset=nap * nw)
        line = ['sedrt', c['order'], rats(wav), rats(nu_in), '1' if c['has_ap'] else '0',
                rats(c['aps'] or []), _rows(fid.tolist()), '1', _rows(eid.tolist())]
        t = common.driver().ask(' '.join(line))
        if t.tok() != 'read':
            mod.append('model raised for SED %s' % name)
            continue
        mw = [float(x) for x in t.rats()]
        mn = [float(x) for x in t.rats()]
        maps = [float(x) for x in t.rats()]
        # apertures as the model predicts them: the given list, or the stored placeholder [1e-30] cm when there is none
        if c['has_ap']:
            ok_ap = r.apertures is not None and np.allclose(r.apertures.to(u.au).value, maps, rtol=1e-12, atol=0)
        else:
            ok_ap = (r.apertures is not None and r.apertures.unit == u.cm and
                     np.allclose(np.asarray(r.apertures.value, float), maps, rtol=1e-12, atol=0) and maps == [1e-30])
            branches.add('sed_aperture_placeholder')
        if not ok_ap:
            mod.append('model %s: apertures read back %r, model predicts %r' % (name, r.apertures, maps))
        mf = np.array([[int(x) for x in row] for row in _read_rows(t)], int).reshape(nap, nw)
        me = np.array([[int(x) - nap * nw for x in row] for row in _read_rows(t)], int).reshape(nap, nw)
        flat_f = flux.reshape(-1)
        flat_e = err.reshape(-1)
        if not (np.allclose(rw, mw, rtol=1e-12, atol=0) and np.allclose(rn, mn, rtol=1e-12, atol=0)):
            mod.append('model %s order=%s: wav/nu arrays as read %r / model %r' % (name, c['order'], rw.tolist(), mw))
        elif not (_eq(rf, flat_f[mf], exact) and _eq(re_, flat_e[me], exact_e)):
            mod.append('model %s order=%s: array positions differ from the model: flux %s; error %s'
                       % (name, c['order'], _first_bad(rf, flat_f[mf], exact), _first_bad(re_, flat_e[me], exact)))
    return prop, mod


# ----------------------------------------------------------------------------- cube

def check_cube(c, d, branches, with_model=True):
    from sedfitter.sed import SEDCube
    unit = _unit(c['unit'])
    wav = np.array(c['wav'], float)
    val = np.array(c['val'], float)
    unc = np.array(c['unc'], float) if c['has_unc'] else None
    nm, nap, nw = val.shape
    prop, mod = [], []
    other = 'wav' if c['order'] == 'nu' else 'nu'
    route = c.get('route') or {}
    _route_branches(c, branches)
    eunit = _unit(_eunit_name(c))
    if route.get('ctor'):
        # through the constructor's documented keyword arguments instead of attributes assigned later:
        # 'wav' / 'nu' = the spectral axis by keyword (the rest by attribute), 'all' (True) = every argument by keyword
        how = route['ctor'] if isinstance(route['ctor'], str) else 'all'
        spectral = dict(nu=(wav * u.micron).to(u.Hz, equivalencies=u.spectral())) if how == 'nu' else dict(wav=wav * u.micron)
        try:
            if how == 'all':
                cube = SEDCube(valid=None if c.get('valid') is None else np.array(c['valid'], dtype=int),
                               names=np.array(c['names']), distance=c['distance_kpc'] * u.kpc,
                               apertures=None if c['aps'] is None else np.array(c['aps'], float) * u.au,
                               val=val * unit, unc=None if unc is None else unc * eunit, **spectral)
            else:
                cube = SEDCube(names=np.array(c['names']), **spectral)
                cube.distance = c['distance_kpc'] * u.kpc
                if c['aps'] is not None:
                    cube.apertures = np.array(c['aps'], float) * u.au
                cube.val = val * unit
                if unc is not None:
                    cube.unc = unc * eunit
        except Exception as e:
            return ['SEDCube(%s=...) [%s]: a documented constructor argument is refused: %s: %s'
                    % ('nu' if how == 'nu' else 'wav', how, type(e).__name__, e)], []
        branches.add('route_ctor_%s_cube' % ('all_keywords' if how == 'all' else how))
    else:
        cube = pk.make_cube(c['names'], wav, val, unc, apertures_au=c['aps'], distance_kpc=c['distance_kpc'], unit=unit)
    if route.get('wav_unit') and route.get('ctor') != 'nu':
        cube.wav = (wav * u.micron).to(getattr(u, route['wav_unit']))      # same wavelengths, held in another unit
    if c['has_unc'] and eunit != unit:
        cube.unc = unc * eunit                   # uncertainties held in another permitted unit (BUNIT is per HDU)
        branches.add('flux_error_units_differ')
    if c.get('valid') is not None:
        cube.valid = np.array(c['valid'], dtype=int)
        branches.add('cube_valid_flags')
    fn, fn_read = _paths(c, d, 'cube.fits')
    meta = {'VERIFKEY': 17, 'ORIGINX': 'harness'} if route.get('meta') else None
    try:
        with common.quiet():
            cube = _clone(cube, route.get('clone'))
            _write(cube, fn, route, mod, 'cube', branches, meta=meta)
            if route.get('positional'):
                r = SEDCube.read(fn_read, c['order'], c['memmap'])
                r2 = SEDCube.read(fn_read, other, c['memmap'])
            else:
                r = SEDCube.read(fn_read, order=c['order'], memmap=c['memmap'])
                r2 = SEDCube.read(fn_read, order=other, memmap=c['memmap'])
    except Exception as e:
        return ['cube write/read raised %s: %s' % (type(e).__name__, e)], []
    if meta is not None:
        from astropy.io import fits as _fits
        with _fits.open(fn) as hl:
            hdr = hl[0].header
            if hdr.get('VERIFKEY') != 17 or hdr.get('ORIGINX') != 'harness':
                mod.append('cube: meta= keywords are not in the primary header')
    rw = np.asarray(r.wav.to(u.micron).value, float)
    try:
        rv = _qval(r.val, unit)
        ru = None if r.unc is None else _qval(r.unc, eunit)
    except AssertionError as e:
        return ['cube: %s' % e], []
    idx = _match(rw, wav)
    if idx is None:
        return ['cube: wavelengths read back %r are not the stored ones %r' % (rw.tolist(), wav.tolist())], []
    if [str(n) for n in r.names] != list(c['names']):
        prop.append('cube: names read back %r != %r' % (list(r.names), c['names']))
    want_valid = [bool(x) for x in c['valid']] if c.get('valid') is not None else [True] * nm
    if [bool(x) for x in np.asarray(r.valid)] != want_valid:
        prop.append('cube: valid flags read back %r, stored %r' % (np.asarray(r.valid).tolist(), want_valid))
    if r.distance is None or abs(r.distance.to(u.kpc).value - c['distance_kpc']) > 1e-12 * c['distance_kpc']:
        prop.append('cube: distance read back %r, stored %r kpc' % (r.distance, c['distance_kpc']))
    if rv.shape != val.shape:
        return ['cube: val shape %r, expected %r' % (rv.shape, val.shape)], []
    if not _eq(rv, val[:, :, idx], True):
        prop.append('cube order=%s memmap=%s: val by (model, aperture, wavelength value): %s'
                    % (c['order'], c['memmap'], _first_bad(rv, val[:, :, idx], True)))
    if c['has_unc']:
        if ru is None:
            prop.append('cube: uncertainties were stored but read back as None')
        elif not _eq(ru, unc[:, :, idx], True):
            prop.append('cube order=%s: unc by (model, aperture, wavelength value): %s'
                        % (c['order'], _first_bad(ru, unc[:, :, idx], True)))
    elif ru is not None:
        prop.append('cube: no uncertainties stored but read back %r' % (ru.shape,))
    if c['has_ap']:
        if r.apertures is None or not np.allclose(r.apertures.to(u.au).value, c['aps'], rtol=1e-12, atol=0):
            prop.append('cube: apertures read back %r != %r' % (r.apertures, c['aps']))
    elif r.apertures is not None:
        prop.append('cube: no apertures stored but read back %r' % (r.apertures,))
    # other order
    ok_rev = (np.array_equal(np.asarray(r2.wav.value), np.asarray(r.wav.value)[::-1]) and
              np.array_equal(np.asarray(r2.nu.value), np.asarray(r.nu.value)[::-1]) and
              np.array_equal(np.asarray(r2.val.value), np.asarray(r.val.value)[:, :, ::-1]) and
              ((r.unc is None and r2.unc is None) or
               (r.unc is not None and r2.unc is not None and
                np.array_equal(np.asarray(r2.unc.value), np.asarray(r.unc.value)[:, :, ::-1]))))
    if not ok_rev:
        prop.append('cube: order=%s is not the joint reversal (spectral axis of wav, nu, val, unc) of order=%s'
                    % (other, c['order']))
    # get_sed on the cube read back and on the in-memory cube
    for label, cb, widx in (('read-back', r, idx), ('in-memory', cube, list(range(nw)))):
        for im, name in enumerate(c['names']):
            try:
                with common.quiet():
                    s = cb.get_sed(name)
            except Exception as e:
                prop.append('get_sed(%r) on the %s cube raised %s: %s' % (name, label, type(e).__name__, e))
                continue
            branches.add('get_sed' if c['has_unc'] else 'get_sed_no_unc')
            try:
                sf = _qval(s.flux, unit)
            except AssertionError as e:
                prop.append('get_sed(%r): %s' % (name, e))
                continue
            if s.name != name:
                prop.append('get_sed(%r) returned name %r' % (name, s.name))
            if _match(np.asarray(s.wav.to(u.micron).value, float), wav) != widx:
                prop.append('get_sed(%r) on the %s cube: wavelengths %r' % (name, label, s.wav))
            if not _eq(sf, val[im][:, widx], True):
                prop.append('get_sed(%r) on the %s cube: flux is not the slice put in: %s'
                            % (name, label, _first_bad(sf, val[im][:, widx], True)))
            if c['has_unc']:
                if s.error is None or s.error.unit != eunit or \
                        not _eq(np.asarray(s.error.value, float), unc[im][:, widx], True):
                    prop.append('get_sed(%r) on the %s cube: error is not the slice put in (unit %s, stored in %s)'
                                % (name, label, None if s.error is None else s.error.unit, eunit))
            elif s.error is not None:
                prop.append('get_sed(%r): cube has no uncertainties but the SED has errors' % name)
            if c['has_ap']:
                if s.apertures is None or not np.allclose(s.apertures.to(u.au).value, c['aps'], rtol=1e-12, atol=0):
                    prop.append('get_sed(%r): apertures %r' % (name, s.apertures))
            elif s.apertures is not None:
                prop.append('get_sed(%r): cube has no apertures but the SED has %r' % (name, s.apertures))
    stored_rev_nu = wav[0] < wav[-1]      # nu decreasing as stored
    read_rev = (c['order'] == 'nu' and stored_rev_nu) or (c['order'] == 'wav' and not stored_rev_nu)
    branches.add('write_keeps')
    branches.add('read_reverses' if read_rev else 'read_keeps')
    if not with_model:
        return prop, mod
    # ---- model
    vid = _ids(val.shape)
    uid = _ids(val.shape, offset=val.size)
    cube_line = [' '.join([str(nm)] + list(c['names'])), rats(wav), '1' if c['has_ap'] else '0', rats(c['aps'] or []),
                 _cube3(vid.tolist()), '1' if c['has_unc'] else '0', _cube3(uid.tolist() if c['has_unc'] else [])]
    t = common.driver().ask(' '.join(['cubert', c['order']] + cube_line))
    if t.tok() != 'read':
        mod.append('model raised for the cube')
    else:
        mw = [float(x) for x in t.rats()]
        m_has_ap = t.nat()
        t.rats()
        mv = np.array(_read_cube3(t), dtype=object).astype(int).reshape(val.shape)
        m_has_unc = t.nat()
        mu3 = _read_cube3(t) if m_has_unc else (t.nat() and None)
        if not np.allclose(rw, mw, rtol=1e-12, atol=0):
            mod.append('cube order=%s: wav as read %r, model %r' % (c['order'], rw.tolist(), mw))
        elif not _eq(rv, val.reshape(-1)[mv], True):
            mod.append('cube order=%s: val positions differ from the model: %s' % (c['order'], _first_bad(rv, val.reshape(-1)[mv], True)))
        if bool(m_has_ap) != (r.apertures is not None) or bool(m_has_unc) != (r.unc is not None):
            mod.append('cube: optional parts: model (ap=%d, unc=%d), read (ap=%s, unc=%s)'
                       % (m_has_ap, m_has_unc, r.apertures is not None, r.unc is not None))
        if m_has_unc and ru is not None:
            mu = np.array(mu3, dtype=object).astype(int).reshape(val.shape) - val.size
            if not _eq(ru, unc.reshape(-1)[mu], True):
                mod.append('cube order=%s: unc positions differ from the model' % c['order'])
    # model get_sed for the first and last name, compared with the implementation on the read-back cube
    for name in sorted({c['names'][0], c['names'][-1]}):
        t = common.driver().ask(' '.join(['getsed', c['order'], name] + cube_line))
        if t.tok() != 'sed':
            mod.append('model get_sed(%r) raised' % name)
            continue
        t.rats()
        m_ap = t.nat(); t.rats()
        mf = np.array(_read_rows(t), dtype=object).astype(int).reshape(nap, nw)
        m_err = t.nat()
        try:
            with common.quiet():
                s = r.get_sed(name)
            if not _eq(_qval(s.flux, unit), val.reshape(-1)[mf], True):
                mod.append('get_sed(%r): flux positions differ from the model' % name)
            if bool(m_err) != (s.error is not None) or bool(m_ap) != (s.apertures is not None):
                mod.append('get_sed(%r): optional parts differ from the model' % name)
        except Exception as e:
            mod.append('get_sed(%r) raised %s' % (name, e))
    return prop, mod


# ----------------------------------------------------------------------------- convolved fluxes

def check_conv(c, d, branches, with_model=True):
    from sedfitter.convolved_fluxes import ConvolvedFluxes
    unit = _unit(c['unit'])
    val = np.array(c['val'], float)
    unc = np.array(c['unc'], float)
    nm, nap, nw = val.shape
    prop, mod = [], []
    for k in range(min(nw, 3)):
        route = c.get('route') or {}
        _route_branches(c, branches)
        has_wav = c.get('has_wav', True)
        eunit = _unit(_eunit_name(c))
        if eunit != unit:
            branches.add('flux_error_units_differ')
        cw = (c['wav'][k] * u.micron).to(getattr(u, route.get('wav_unit') or 'micron'))
        if route.get('ctor'):
            cf = ConvolvedFluxes(wavelength=cw if has_wav else None, model_names=np.array(c['names']),
                                 apertures=np.array(c['aps'], float) * u.au if c['has_ap'] else None,
                                 flux=val[:, :, k] * unit, error=unc[:, :, k] * eunit)
        else:
            cf = ConvolvedFluxes()
            cf.model_names = np.array(c['names'])
            if c['has_ap']:
                cf.apertures = np.array(c['aps'], float) * u.au
            if has_wav:
                cf.central_wavelength = cw
            cf.flux = val[:, :, k] * unit
            cf.error = unc[:, :, k] * eunit
        fn, fn_read = _paths(c, d, 'conv_%d.fits' % k)
        try:
            with common.quiet():
                cf = _clone(cf, route.get('clone'))
                _write(cf, fn, route, mod, 'conv', branches)
                r = ConvolvedFluxes.read(fn_read)
        except Exception as e:
            prop.append('conv write/read raised %s: %s' % (type(e).__name__, e))
            continue
        try:
            rf = _qval(r.flux, unit)
            re_ = _qval(r.error, eunit)
        except AssertionError as e:
            prop.append('conv: %s' % e)
            continue
        names = [str(n).strip() for n in r.model_names]
        if names != list(c['names']):
            prop.append('conv: names read back %r != %r' % (names, c['names']))
        if has_wav:
            if r.central_wavelength is None or abs(r.central_wavelength.to(u.micron).value - c['wav'][k]) > 1e-12 * c['wav'][k]:
                prop.append('conv: central wavelength %r != %r' % (r.central_wavelength, c['wav'][k]))
        elif r.central_wavelength is not None:
            prop.append('conv: no central wavelength stored but read back %r' % (r.central_wavelength,))
        if not _eq(rf, val[:, :, k], True):
            prop.append('conv unit=%s: flux by (model, aperture): %s' % (c['unit'], _first_bad(rf, val[:, :, k], True)))
        if not _eq(re_, unc[:, :, k], True):
            prop.append('conv unit=%s: error by (model, aperture): %s' % (c['unit'], _first_bad(re_, unc[:, :, k], True)))
        if c['has_ap']:
            if r.apertures is None or not np.allclose(r.apertures.to(u.au).value, c['aps'], rtol=1e-12, atol=0):
                prop.append('conv: apertures %r != %r' % (r.apertures, c['aps']))
        elif r.apertures is not None:
            prop.append('conv: no apertures stored but read back %r' % (r.apertures,))
        if not with_model:
            continue
        # model
        fid = _ids((nm, nap))
        eid = _ids((nm, nap), offset=nm * nap)
        line = ['convrt', '1' if has_wav else '0', rat(c['wav'][k]), ' '.join([str(nm)] + list(c['names'])),
                '1' if c['has_ap'] else '0', rats(c['aps'] or []), _rows(fid.tolist()), _rows(eid.tolist())]
        t = common.driver().ask(' '.join(line))
        if t.tok() != 'read':
            mod.append('model raised for conv')
            continue
        m_has_w = t.nat(); mw = t.rat()
        mnames = [t.tok() for _ in range(t.nat())]
        m_has_ap = t.nat(); t.rats()
        mf = np.array(_read_rows(t), dtype=object).astype(int).reshape(nm, nap)
        me = np.array(_read_rows(t), dtype=object).astype(int).reshape(nm, nap) - nm * nap
        if mnames != names or bool(m_has_ap) != (r.apertures is not None) or bool(m_has_w) != (r.central_wavelength is not None):
            mod.append('conv: names / optional parts differ from the model')
        if not (_eq(rf, val[:, :, k].reshape(-1)[mf], True) and _eq(re_, unc[:, :, k].reshape(-1)[me], True)):
            mod.append('conv: cell positions differ from the model')
        # ---- a file with scalar (1-D) flux columns, as other tools / older versions write them for one aperture:
        #      ConvolvedFluxes.read reshapes to (n, 1); compared with the model's `convread1d`
        if nap == 1 and k == 0:
            m2 = check_conv_scalar(c, d, unit, val[:, 0, k], unc[:, 0, k], has_wav, with_model)
            mod += m2
            branches.add('conv_scalar_columns')
    return prop, mod


def check_conv_scalar(c, d, unit, fcol, ecol, has_wav, with_model):
    from astropy.io import fits
    from astropy.table import Table
    from sedfitter.convolved_fluxes import ConvolvedFluxes
    nm = len(fcol)
    t = Table()
    t['MODEL_NAME'] = np.array(c['names'], dtype='S30')
    t['TOTAL_FLUX'] = np.asarray(fcol, float)
    t['TOTAL_FLUX_ERR'] = np.asarray(ecol, float)
    hdu0 = fits.PrimaryHDU()
    if has_wav:
        hdu0.header['FILTWAV'] = c['wav'][0]
    hdu1 = fits.BinTableHDU(np.array(t), name='CONVOLVED FLUXES')
    hdu1.columns[1].unit = unit.to_string(format='fits')
    hdu1.columns[2].unit = unit.to_string(format='fits')
    hdus = [hdu0, hdu1]
    if c['has_ap']:
        ta = Table()
        ta['APERTURE'] = np.array(c['aps'], float)
        hdu2 = fits.BinTableHDU(np.array(ta), name='APERTURES')
        hdu2.columns[0].unit = 'AU'
        hdus.append(hdu2)
    fn = os.path.join(d, 'conv_scalar.fits')
    fits.HDUList(hdus).writeto(fn, overwrite=True)
    out = []
    try:
        with common.quiet():
            r = ConvolvedFluxes.read(fn)
        got = ('read', np.asarray(r.flux.value, float), np.asarray(r.error.value, float),
               r.central_wavelength is not None, r.apertures is not None)
    except Exception as e:
        got = ('raise', '%s: %s' % (type(e).__name__, e))
    if not with_model:
        return out
    line = ['convread1d', '1' if has_wav else '0', rat(c['wav'][0]), ' '.join([str(nm)] + list(c['names'])),
            '1' if c['has_ap'] else '0', rats(c['aps'] or []), rats(range(nm)), rats(range(nm, 2 * nm))]
    tk = common.driver().ask(' '.join(line))
    if tk.tok() != 'read':
        if got[0] != 'raise':
            out.append('scalar-column conv file: model refuses, implementation read it')
        return out
    if got[0] == 'raise':
        return ['scalar-column conv file: implementation raised %s, model reads it' % got[1]]
    m_has_w = tk.nat(); tk.rat()
    for _ in range(tk.nat()):
        tk.tok()
    m_has_ap = tk.nat(); tk.rats()
    mf = np.array(_read_rows(tk), dtype=object).astype(int)
    me = np.array(_read_rows(tk), dtype=object).astype(int) - nm
    fcol = np.asarray(fcol, float)
    ecol = np.asarray(ecol, float)
    if (got[1].shape != mf.shape or not np.array_equal(got[1], fcol[mf]) or not np.array_equal(got[2], ecol[me]) or
            bool(m_has_w) != got[3] or bool(m_has_ap) != got[4]):
        out.append('scalar-column conv file: read %r (shape %r), model %r' % (got[1].tolist(), got[1].shape, fcol[mf].tolist()))
    return out


def check_sed_noerr(c, d, branches, with_model=True):
    """an SED whose errors are not set: SED.write refuses (ValueError); uncertainties are optional for cubes only"""
    from sedfitter.sed import SED
    unit = _unit(c['unit'])
    wav = np.array(c['wav'], float)
    prop, mod = [], []
    flux = np.array(c['val'][0], float)
    s = pk.make_sed(c['names'][0], wav, flux, np.array(c['unc'][0], float), apertures_au=c['aps'],
                    distance_kpc=c['distance_kpc'], unit=unit)
    s.error = None
    fn = os.path.join(d, 'sed_noerr.fits')
    try:
        with common.quiet():
            s.write(fn, overwrite=True)
        outcome = 'written'
    except ValueError as e:
        outcome = 'refused'
    except Exception as e:
        outcome = 'raised %s: %s' % (type(e).__name__, e)
    branches.add('sed_no_err_refused')
    expected = 'refused'
    if with_model:
        nap, nw = flux.shape
        nu_in = np.asarray(s.nu.to(u.Hz).value, float)
        line = ['sedrt', c['order'], rats(wav), rats(nu_in), '1' if c['has_ap'] else '0', rats(c['aps'] or []),
                _rows(_ids((nap, nw)).tolist()), '0', '0']
        t = common.driver().ask(' '.join(line))
        expected = 'refused' if t.tok() == 'raise-write' else 'written'
    if outcome != expected:
        mod.append('SED without errors: SED.write %s, model: %s' % (outcome, expected))
    # the same object, completed after the refusal, is written and read back like any other
    if outcome == 'refused':
        errv = np.array(c['unc'][0], float)
        try:
            with common.quiet():
                s.error = errv.reshape(s.flux.shape) * unit
                s.write(fn)
                r = SED.read(fn, order=c['order'], unit_flux=unit)
            idx = _match(np.asarray(r.wav.to(u.micron).value, float), wav)
            exact = c['unit'] == 'erg/cm2/s'
            if idx is None or not _eq(_qval(r.flux, unit), flux[:, idx], exact) or \
                    not _eq(_qval(r.error, unit), errv.reshape(flux.shape)[:, idx], exact):
                prop.append('SED completed after a refused write does not read back what was stored')
            branches.add('sed_reused_after_refusal')
        except Exception as e:
            prop.append('SED completed after a refused write: %s: %s' % (type(e).__name__, e))
    return prop, mod


def check_history(c, d, branches, with_model=True):
    """every step writes to the same paths in `d` (overwrite=True) and is read back at once: each read is compared
    with what was written last, by the same checks as a single round trip"""
    prop, mod = [], []
    for k, step in enumerate(c['steps']):
        p, m = CHECKS[step['kind']](step, d, branches, with_model=with_model)
        tag = 'write #%d of %d to the same path (%s)' % (k + 1, len(c['steps']), combo_name(step))
        if c.get('sibling'):
            tag = '%s, step %d: written to <path>%s, read as <path>%s (%s)' % (
                c['sibling'], k + 1, step.get('wsuf', ''), step.get('rsuf', step.get('wsuf', '')), combo_name(step))
        prop += ['%s: %s' % (tag, x) for x in p]
        mod += ['%s: %s' % (tag, x) for x in m]
    if c.get('sibling'):
        branches.add('sibling_%s_%s' % (c['sibling'], c['obj']))
        return prop, mod
    branches.add('history_' + c['obj'])
    branches.add('history_other_shape' if c.get('shape_change') else 'history_same_shape')
    return prop, mod


CHECKS = {'sed': check_sed, 'cube': check_cube, 'conv': check_conv, 'history': check_history,
          'sed_noerr': check_sed_noerr}


def evaluate(case, with_model=True):
    d = tempfile.mkdtemp(prefix='c12_')
    branches = set()
    try:
        prop, mod = CHECKS[case['kind']](case, d, branches, with_model=with_model)
    finally:
        shutil.rmtree(d, ignore_errors=True)
    return prop, mod, branches


def label(case):
    if case['kind'] == 'history':
        if case.get('sibling'):
            return 'sibling|%s|%s' % (case['sibling'], case['obj'])
        return 'history|%s|%d steps' % (case['obj'], len(case['steps']))
    return combo_name(case)


def run_case(case):
    prop, mod, branches = evaluate(case)
    parts = case['steps'] if case['kind'] == 'history' else [case]
    for c in parts:
        branches.add(combo_name(c))
        nm = len(c['names'])
        nap = len(c['aps']) if c['aps'] else 1
        branches.add('single_aperture' if nap == 1 else 'multi_aperture')
        branches.add('single_model' if nm == 1 else 'multi_model')
    c0 = parts[0]
    sample = dict(combo=label(case), n_models=len(c0['names']), n_ap=len(c0['aps']) if c0['aps'] else 1,
                  n_wav=len(c0['wav']), wav=c0['wav'][:4])
    key = common.canon_hash(case)
    if prop:
        return CaseResult(False, detail='property fails on the real code [%s]: %s' % (label(case), '; '.join(prop[:4])),
                          branches=branches, key=key, violates=True, sample=sample)
    if mod:
        return CaseResult(False, detail='model and implementation differ [%s]: %s' % (label(case), '; '.join(mod[:4])),
                          branches=branches, key=key, violates=None, sample=sample)
    return CaseResult(True, branches=branches, key=key, nontrivial=True, sample=sample)


def search(seed, tier, disagreeing):
    """the property evaluated directly on the real code (no model, no driver): the disagreeing cases, then the
    full directed product with fresh draws, then same-path histories"""
    found = []
    tried = 0
    cases = list(disagreeing)
    i = 0
    for combo in all_combos():
        cases.append(fill(case_rng(seed, PID + 'search', i), combo, small=True)); i += 1
    for combo in history_combos():
        cases.append(gen_history(case_rng(seed, PID + 'search', i), combo, 3, False)); i += 1
    for combo, mode in sibling_plan():
        cases.append(gen_sibling(case_rng(seed, PID + 'search', i), combo, mode)); i += 1
    for c in cases:
        tried += 1
        prop, _, _ = evaluate(c, with_model=False)
        if prop:
            found.append((c, 'property fails on the real code [%s]: %s' % (label(c), '; '.join(prop[:4]))))
            if len(found) >= 5:
                break
    return found, tried


def shrink(case):
    """structural shrink: fewer models, apertures, wavelengths while the property still fails"""
    def fails(c):
        try:
            r = run_case(c)
            return (not r.ok) and bool(r.violates)
        except Exception:
            return False
    if case['kind'] == 'history':
        # a shorter history that still fails (a single step first: then it is not about the history at all)
        n = len(case['steps'])
        for length in range(1, n):
            for a in range(0, n - length + 1):
                c = dict(case); c['steps'] = case['steps'][a:a + length]
                if fails(c):
                    return c
        return case
    cur = case
    changed = True
    while changed:
        changed = False
        nm = len(cur['names'])
        nap = len(cur['val'][0])
        nw = len(cur['wav'])
        cands = []
        if nm > 1:
            c = dict(cur); c['names'] = cur['names'][:-1]; c['val'] = cur['val'][:-1]; c['unc'] = cur['unc'][:-1]
            cands.append(c)
        if nap > 1 and cur['aps']:
            c = dict(cur); c['aps'] = cur['aps'][:-1]
            c['val'] = [m[:-1] for m in cur['val']]; c['unc'] = [m[:-1] for m in cur['unc']]
            cands.append(c)
        if nw > 2:
            c = dict(cur); c['wav'] = cur['wav'][:-1]
            c['val'] = [[r[:-1] for r in m] for m in cur['val']]; c['unc'] = [[r[:-1] for r in m] for m in cur['unc']]
            cands.append(c)
        for c in cands:
            if fails(c):
                cur = c
                changed = True
                break
    return cur
