"""C17 — plotted model SEDs are the fitted models.

Real side: cube package (`SEDCube.write`) -> `Fitter` at tabulated wavelengths -> `Fitter.fit` ->
`plot(info | [infos] | file, output_dir=None, select_format=('N', k), sed_type=mode)` ->
`figures[name]['lines'].get_segments()`.

Model side: driver op `curves` = `SF.curves` (Model/Plot.lean) in exact rationals on the package
arrays the harness wrote and the (sc, av, model name) the real fit reported; driver op `curve` = the
right-hand side of theorem `C17_through` (stored predicted log flux -> curve value).

Property side (independent of the model): count, order, and pass-through against
`info.model_fluxes` (10**pred * nu * 1e-26 within 2e-3: KPC = 3.086e21 vs astropy's kpc).
"""
import os
import shutil
import sys
import tempfile

os.environ.setdefault('MPLBACKEND', 'Agg')
if hasattr(sys, 'set_int_max_str_digits'):
    sys.set_int_max_str_digits(0)      # exact rationals from the driver can have thousands of digits

import numpy as np

from . import common
from .common import CaseResult, rat, rats, case_rng, nice
from . import packages as pk

PID = 'C17'
MODES = ['interp', 'largest', 'largest+smallest', 'all']
RULE = ('cases = (cube package with 1 or 3-5 apertures, 4-12 wavelengths in either stored order, 2-6 models; '
        '3-5 monochromatic filters at tabulated wavelengths with angular apertures (repeated values allowed); '
        'model names stored in the cube in arbitrary (shuffled, un-padded numbered) order; extinction law tabulated in '
        'micron, nm, Angstrom or cm; distance range with theta*d inside or above the aperture table; 1-2 sources; k = 1..5 selected fits; '
        'results passed as object or as file); every case is plotted in all four display modes; a case is '
        'non-trivial when at least one pass-through point (fit x filter x mode) is checked; distinct = '
        'distinct canonical hash of the generated inputs')
REQUIRED_BRANCHES = ['mode_interp', 'mode_largest', 'mode_largest+smallest', 'mode_all',
                     'single_aperture', 'multi_aperture', 'form_object', 'form_file',
                     'k1', 'k_gt1', 'k_exceeds_models', 'inside_table', 'above_table',
                     'repeated_filter_aperture', 'distinct_filter_apertures', 'two_sources', 'ext_unit_micron', 'ext_unit_other',
                     'ext_unit_other_file_av_nonzero', 'cube_names_unsorted', 'stored_increasing_wav', 'stored_decreasing_wav']
ASSUMPTIONS = ['IEEE rounding is not modelled: model-vs-implementation tolerance 1e-9 relative on curve values',
               'pass-through against the stored predicted flux is checked to 2e-3 relative (the plot uses KPC = 3.086e21 cm, '
               'the package distance is astropy\'s kpc = 3.0857e21 cm: ratio^2 = 1 - 2.1e-4)',
               'theta*dmin is kept >= 1.001 x the smallest tabulated aperture (the raise-below decision is discrete; '
               'the property\'s domain is "never below the table")',
               'matplotlib is only a container: LineCollection.get_segments() returns the arrays that were appended']
EXHAUSTIVE = {'quick': True, 'thorough': True}   # all 4 modes x {1, >1 apertures} x {object, file} in every run
TRUSTED_EXTRA = ['matplotlib LineCollection stores and returns the segments unchanged']
N = {'quick': 160, 'thorough': 6000}
C_UNIT = 1e-26
KPC_PLOT = 3.086e21
C_LIGHT_UM = 299792458e6      # micron * Hz


def gen_case(rng, directed=None):
    directed = directed or {}
    nw = rng.randint(4, 12)
    nm = rng.randint(2, 6)
    multi = directed.get('multi', rng.random() < 0.65)
    wav = set()
    while len(wav) < nw:
        wav.add(nice(rng, 0.3, 500., 3))
    wav = sorted(wav)
    stored = directed.get('stored', rng.choice(['inc', 'dec']))
    if stored == 'dec':
        wav = wav[::-1]
    if multi:
        nap = rng.randint(3, 5)
        aps = set()
        while len(aps) < nap:
            aps.add(nice(rng, 50., 5e4, 2))
        aps = sorted(aps)
    else:
        nap = 1
        aps = None
    val = [[[nice(rng, 1e-2, 1e3, 4) for _ in range(nw)] for _ in range(nap)] for _ in range(nm)]
    nf = rng.randint(3, min(5, nw))
    fidx = rng.sample(range(nw), nf)
    pool = set()
    while len(pool) < nf:
        pool.add(nice(rng, 0.5, 20., 2))
    pool = sorted(pool)
    rng.shuffle(pool)
    repeat = directed.get('repeat', rng.random() < 0.5)
    if repeat:
        theta = [rng.choice(pool[:rng.randint(1, 3)]) for _ in range(nf)]
        theta[1] = theta[0]
    else:
        theta = pool[:nf]
    # extinction law: decreasing opacity with wiggles; |k| stays of order 1 over the SED (an arbitrary table could
    # give k ~ -1000 and 10**(av*k) would underflow: outside anything the fitter is used for)
    nt = rng.randint(3, 10)
    tw = sorted({0.05, 2000.} | {nice(rng, 0.1, 1000., 3) for _ in range(nt)})
    top = nice(rng, 1e3, 1e5, 3)
    beta = rng.uniform(0.4, 1.6)
    chi = [float('%.3g' % (top * (w / 0.05) ** (-beta) * 10 ** rng.uniform(-0.15, 0.15))) for w in tw]
    av_range = [0., float(rng.choice([5, 10, 30]))]
    where = directed.get('where', rng.choice(['inside', 'above', 'mixed']))
    if multi:
        tmin, tmax = min(theta), max(theta)
        base = aps[0] / (tmin * 1000.)                  # theta_min * base kpc = smallest aperture
        if where == 'inside':
            top = aps[-1] / (tmax * 1000.)
            if top > base * 1.3:
                dmin = float('%.3g' % (base * rng.uniform(1.05, 1.2)))
                dmax = float('%.3g' % min(top * 0.95, dmin * 10))
            else:
                where = 'mixed'
        if where == 'above':
            dmin = float('%.3g' % (aps[-1] / (tmin * 1000.) * rng.uniform(1.1, 2.)))
            dmax = float('%.3g' % (dmin * rng.uniform(1.5, 5.)))
        if where == 'mixed':
            dmin = float('%.3g' % (base * rng.uniform(1.05, 3.)))
            dmax = float('%.3g' % (dmin * rng.uniform(1.5, 30.)))
        if dmin * tmin * 1000. < aps[0] * 1.001:
            dmin = float('%.3g' % (dmin * 1.01))
        if dmax <= dmin:
            dmax = float('%.3g' % (dmin * 2))
        ratio = np.log10(dmax / dmin)
        step = float('%.2g' % max(ratio / rng.randint(2, 25), 0.005))
    else:
        dmin, dmax = 1., float(rng.choice([2, 5, 10]))
        step = 0.05
    nsrc = directed.get('nsrc', rng.choice([1, 1, 2]))
    sources = []
    for si in range(nsrc):
        m = rng.randrange(nm)
        d = rng.uniform(dmin, dmax)
        flags = [rng.choice([1, 1, 1, 1, 4, 3, 0]) for _ in range(nf)]
        for j in rng.sample(range(nf), 2):
            if flags[j] not in (1, 4):
                flags[j] = 1
        flux, err = [], []
        for j in range(nf):
            f = val[m][rng.randrange(nap)][fidx[j]] / d ** 2 * 10 ** rng.uniform(-0.3, 0.3)
            f = float('%.4g' % f)
            if flags[j] == 4:
                flux.append(float('%.4f' % np.log10(f)))
                err.append(nice(rng, 0.01, 0.2, 2))
            elif flags[j] == 3:
                flux.append(f)
                err.append(float(rng.choice([0.5, 0.9])))
            else:
                flux.append(f)
                err.append(float('%.3g' % (f * nice(rng, 0.01, 0.3, 2))))
        sources.append(dict(name='src%d' % si, flags=flags, flux=flux, err=err))
    k = directed.get('k', rng.randint(1, 5))
    forms = directed.get('forms', [rng.choice(['object', 'file'])])
    # model names in the cube: arbitrary order, un-padded numbers (m_8, m_9, m_10 sort differently as strings)
    start = rng.choice([1, 7, 8, 97, 98])
    names = ['m_%d' % (start + i) for i in range(nm)]
    if directed.get('names', rng.choice(['shuffled', 'shuffled', 'numeric'])) == 'shuffled':
        rng.shuffle(names)
    # unit in which the extinction law's wavelength column is tabulated
    ext_unit = directed.get('ext_unit', rng.choice(['micron', 'micron', 'nm', 'Angstrom', 'cm']))
    return dict(wav=wav, aps=aps, val=val, fidx=fidx, theta=theta, tab_w=tw, tab_chi=chi, av=av_range,
                drange=[dmin, dmax], step=step, sources=sources, k=k, forms=forms, names=names, ext_unit=ext_unit)


DIRECTED = [
    dict(multi=False, k=1, forms=['object', 'file'], nsrc=1, stored='inc', repeat=False),
    dict(multi=True, k=1, forms=['object', 'file'], nsrc=1, where='inside', stored='dec', repeat=False),
    dict(multi=True, k=3, forms=['object', 'file'], nsrc=2, where='above', repeat=True, stored='inc'),
    dict(multi=False, k=5, forms=['object', 'file'], nsrc=2, repeat=True, stored='dec'),
    dict(multi=True, k=5, forms=['object', 'file'], nsrc=1, where='mixed'),
    dict(multi=True, k=2, forms=['file'], nsrc=2, where='inside', repeat=True),
    dict(multi=True, k=7, forms=['object'], nsrc=1, where='mixed'),
    dict(multi=False, k=7, forms=['file'], nsrc=1),
    dict(multi=True, k=3, forms=['object', 'file'], nsrc=1, where='inside', ext_unit='nm', names='shuffled'),
    dict(multi=False, k=2, forms=['file'], nsrc=2, ext_unit='Angstrom', names='shuffled'),
    dict(multi=True, k=4, forms=['file'], nsrc=1, where='mixed', ext_unit='cm', names='numeric'),
    dict(multi=False, k=3, forms=['object'], nsrc=1, ext_unit='nm', names='shuffled'),
]
for _d in DIRECTED[:8]:
    _d.setdefault('ext_unit', 'micron')


def gen_cases(seed, tier):
    for i in range(N[tier]):
        rng = case_rng(seed, PID, i)
        yield gen_case(rng, DIRECTED[i] if i < len(DIRECTED) else None)


# ----------------------------------------------------------------------------- real side

def names_of(case):
    return list(case.get('names') or ['mod%02d' % i for i in range(len(case['val']))])


def make_ext(case):
    """the extinction law, its wavelength column given in the case's unit (the model side works in micron)"""
    from astropy import units as u
    unit = u.Unit(case.get('ext_unit', 'micron'))
    w = (np.array(case['tab_w'], dtype=float) * u.micron).to(unit).value
    return pk.make_extinction(w, case['tab_chi'], wav_unit=unit)


def run_impl(case, d):
    """returns (infos, {(form, mode): figures}) from the real code"""
    from astropy import units as u
    from sedfitter.plot import plot
    from sedfitter.fit_info import FitInfoFile
    names = names_of(case)
    val = np.array(case['val'], dtype=float)
    pk.write_cube_package(d, names, case['wav'], val, val * 0.1, apertures_au=case['aps'])
    ext = make_ext(case)
    fnames = [case['wav'][i] * u.micron for i in case['fidx']]
    fitter = pk.make_fitter(d, fnames, case['theta'], ext, case['av'], distance_range_kpc=case['drange'])
    infos = []
    for s in case['sources']:
        src = pk.make_source(s['name'], s['flags'], s['flux'], s['err'])
        with common.quiet():
            infos.append(fitter.fit(src))
    out = {}
    for form in case['forms']:
        if form == 'object':
            arg = infos[0] if len(infos) == 1 else list(infos)
        else:
            arg = os.path.join(d, 'fits_%s.fitinfo' % form)
            fo = FitInfoFile(arg, 'w')
            for info in infos:
                fo.write(info)
            fo.close()
        for mode in MODES:
            with common.quiet():
                figs = plot(arg, output_dir=None, select_format=('N', case['k']), sed_type=mode)
            out[(form, mode)] = {name: [np.array(sg, dtype=float) for sg in figs[name]['lines'].get_segments()]
                                 for name in figs if 'lines' in figs[name]}
    return infos, out


def n_shown(case, mode):
    """number of apertures the display mode shows"""
    if mode in ('interp', 'largest'):
        return 1
    if mode == 'largest+smallest':
        return 2
    return len(set(case['theta']))


def shown_index(case, mode, j):
    """index (within one fit's block of curves) of the curve drawn for filter j's aperture, or None"""
    th = case['theta']
    if mode == 'interp':
        return 0
    if mode == 'largest':
        return 0 if th[j] == max(th) else None
    if mode == 'largest+smallest':
        if th[j] == min(th):
            return 0
        return 1 if th[j] == max(th) else None
    return sorted(set(th)).index(th[j])


def property_check(case, infos, figs):
    """the statement of C17 evaluated on the real outputs only.  returns (ok, detail, n_points)"""
    npts = 0
    wav_seen = sorted(case['wav'], reverse=True)          # increasing frequency, as plot reads the cube
    for (form, mode), per_src in figs.items():
        for info in infos:
            name = info.source.name
            a = pk.fit_arrays(info)
            n = min(case['k'], len(a['chi2']))
            nc = n_shown(case, mode)
            segs = per_src.get(name)
            if segs is None:
                return False, 'form=%s mode=%s: no curves returned for source %s' % (form, mode, name), npts
            if len(segs) != n * nc:
                return False, ('form=%s mode=%s source=%s: %d curves drawn; property: %d selected fits x %d apertures shown = %d'
                               % (form, mode, name, len(segs), n, nc, n * nc)), npts
            for i in range(n):
                block = segs[(n - 1 - i) * nc:(n - i) * nc]     # best fit (i = 0) is the last block
                for j, wi in enumerate(case['fidx']):
                    c = shown_index(case, mode, j)
                    if c is None:
                        continue
                    lam = case['wav'][wi]
                    row = wav_seen.index(lam)
                    seg = block[c]
                    if seg.shape != (len(case['wav']), 2) or seg[row, 0] != lam:
                        return False, ('form=%s mode=%s source=%s fit %d: curve does not list wavelength %r at row %d: %r'
                                       % (form, mode, name, i, lam, row, seg[:, 0].tolist())), npts
                    expect = 10. ** a['model_fluxes'][i, j] * (C_LIGHT_UM / lam) * C_UNIT
                    npts += 1
                    if not abs(seg[row, 1] - expect) <= 2e-3 * abs(expect):
                        return False, ('form=%s mode=%s source=%s fit %d (model %s, sc=%r, av=%r) filter %d (%.4g um, %r arcsec): '
                                       'curve value %r; stored predicted flux 10**%r mJy -> %r erg/cm2/s (rel. diff %.3g)'
                                       % (form, mode, name, i, a['name'][i], float(a['sc'][i]), float(a['av'][i]), j, lam,
                                          case['theta'][j], float(seg[row, 1]), float(a['model_fluxes'][i, j]), float(expect),
                                          abs(seg[row, 1] / expect - 1))), npts
    return True, '', npts


# ----------------------------------------------------------------------------- model side

def ctx_tokens(case):
    from astropy import units as u
    d_old = (1. * u.kpc).to(u.cm).value
    aps = case['aps'] or []
    t = [rat(C_UNIT), rat(d_old), rat(KPC_PLOT), rats(aps), str(len(case['fidx']))]
    for wi, th in zip(case['fidx'], case['theta']):
        t += [rat(case['wav'][wi]), rat(th)]
    return t


def model_curves(case, mode, a, n):
    names = names_of(case)
    wav_seen = sorted(case['wav'], reverse=True)
    line = ['curves', mode] + ctx_tokens(case)
    line += [rat(0.55), str(len(case['tab_w']))]
    for w, c in zip(case['tab_w'], case['tab_chi']):
        line += [rat(w), rat(c)]
    line.append(str(n))
    for i in range(n):
        m = names.index(a['name'][i])
        line += [rat(a['sc'][i]), rat(a['av'][i]), str(len(wav_seen))]
        for lam in wav_seen:
            wi = case['wav'].index(lam)
            line += [rat(lam), rat(C_LIGHT_UM / lam), rats([case['val'][m][ia][wi] for ia in range(len(case['val'][m]))])]
    t = common.driver().ask(' '.join(line))
    kind = t.tok()
    if kind == 'E':
        return t.tok()
    nc = t.nat()
    out = []
    for _ in range(nc):
        npt = t.nat()
        out.append([(t.rat(), t.rat()) for _ in range(npt)])
    return out


def model_through(case, a, i, ks):
    """theorem right-hand side per filter: (pred, curve value)"""
    names = names_of(case)
    m = names.index(a['name'][i])
    line = ['curve'] + ctx_tokens(case) + [rat(a['sc'][i]), rat(a['av'][i]), str(len(case['fidx']))]
    for j, wi in enumerate(case['fidx']):
        lam = case['wav'][wi]
        line += [rat(case['theta'][j]), rat(ks[j]), rat(C_LIGHT_UM / lam),
                 rats([case['val'][m][ia][wi] for ia in range(len(case['val'][m]))])]
    t = common.driver().ask(' '.join(line))
    n = t.nat()
    return [(t.rat(), t.rat()) for _ in range(n)]


def run_case(case):
    d = tempfile.mkdtemp(prefix='c17_')
    branches = set()
    try:
        try:
            infos, figs = run_impl(case, d)
        except Exception as e:
            import traceback
            return CaseResult(False, violates=True, key=common.canon_hash(case),
                              detail='implementation raised on an in-domain plot request: %r\n%s'
                                     % (e, traceback.format_exc()[-1500:]))
        ok, detail, npts = property_check(case, infos, figs)
        if not ok:
            return CaseResult(False, detail='property fails on the real code: ' + detail, violates=True,
                              key=common.canon_hash(case))
        # ---- correspondence with the Lean model
        multi = case['aps'] is not None
        branches.add('multi_aperture' if multi else 'single_aperture')
        branches.add('stored_increasing_wav' if case['wav'][0] < case['wav'][-1] else 'stored_decreasing_wav')
        branches.add('repeated_filter_aperture' if len(set(case['theta'])) < len(case['theta'])
                     else 'distinct_filter_apertures')
        if len(case['sources']) > 1:
            branches.add('two_sources')
        nm = len(case['val'])
        branches.add('k1' if case['k'] == 1 else 'k_gt1')
        if case['k'] > nm:
            branches.add('k_exceeds_models')
        other_unit = case.get('ext_unit', 'micron') != 'micron'
        branches.add('ext_unit_other' if other_unit else 'ext_unit_micron')
        if other_unit and 'file' in case['forms'] and any(float(x) != 0. for info in infos for x in np.asarray(info.av, dtype=float)[:case['k']]):
            branches.add('ext_unit_other_file_av_nonzero')
        nn = names_of(case)
        branches.add('cube_names_sorted' if nn == sorted(nn) else 'cube_names_unsorted')
        from astropy import units as u
        for info in infos:
            a = pk.fit_arrays(info)
            n = min(case['k'], len(a['chi2']))
            if multi:
                for i in range(n):
                    for th in case['theta']:
                        x = th * 10. ** a['sc'][i] * 1000.
                        branches.add('above_table' if x > case['aps'][-1] else 'inside_table')
            # theorem right-hand side vs stored predicted flux vs model curve
            t = common.driver().ask('getav %s %d %s %s' % (
                rat(0.55), len(case['tab_w']),
                ' '.join('%s %s' % (rat(w), rat(c)) for w, c in zip(case['tab_w'], case['tab_chi'])),
                rats([case['wav'][wi] for wi in case['fidx']])))
            ks = t.rats()
            thr = [model_through(case, a, i, ks) for i in range(n)]
            for i in range(n):
                for j in range(len(case['fidx'])):
                    if not common.close(a['model_fluxes'][i, j], thr[i][j][0], 1e-9):
                        return CaseResult(False, violates=None, branches=branches, key=common.canon_hash(case),
                                          detail='stored predicted log flux of fit %d filter %d: impl %r, model predStored %r'
                                                 % (i, j, float(a['model_fluxes'][i, j]), float(thr[i][j][0])))
            for mode in MODES:
                exp = model_curves(case, mode, a, n)
                if isinstance(exp, str):
                    return CaseResult(False, violates=None, branches=branches, key=common.canon_hash(case),
                                      detail='model raises %s in mode %s but the implementation returned curves' % (exp, mode))
                for form in case['forms']:
                    branches.add('mode_' + mode)
                    branches.add('form_' + form)
                    segs = figs[(form, mode)][info.source.name]
                    if len(segs) != len(exp):
                        return CaseResult(False, violates=None, branches=branches, key=common.canon_hash(case),
                                          detail='mode %s form %s: impl draws %d curves, model %d' % (mode, form, len(segs), len(exp)))
                    for ci, (sg, ex) in enumerate(zip(segs, exp)):
                        if sg.shape[0] != len(ex):
                            return CaseResult(False, violates=None, branches=branches, key=common.canon_hash(case),
                                              detail='mode %s curve %d: %d points vs model %d' % (mode, ci, sg.shape[0], len(ex)))
                        for p, (x, y) in enumerate(ex):
                            if sg[p, 0] != float(x) or not common.close(sg[p, 1], y, 1e-9, scale=0.):
                                return CaseResult(False, violates=None, branches=branches, key=common.canon_hash(case),
                                                  detail=('mode %s form %s source %s curve %d point %d: impl (%r, %r), model (%r, %r)'
                                                          % (mode, form, info.source.name, ci, p, float(sg[p, 0]), float(sg[p, 1]),
                                                             float(x), float(y))))
                # model curve through the theorem's right-hand side (fit i, filter j)
                nc = n_shown(case, mode)
                wav_seen = sorted(case['wav'], reverse=True)
                for i in range(n):
                    for j, wi in enumerate(case['fidx']):
                        c = shown_index(case, mode, j)
                        if c is None:
                            continue
                        y = exp[(n - 1 - i) * nc + c][wav_seen.index(case['wav'][wi])][1]
                        if not common.close(y, thr[i][j][1], 1e-12, scale=0.):
                            return CaseResult(False, violates=None, branches=branches, key=common.canon_hash(case),
                                              detail='model curve %r differs from theorem right-hand side %r (mode %s fit %d filter %d)'
                                                     % (float(y), float(thr[i][j][1]), mode, i, j))
        sample = dict(n_models=nm, n_wav=len(case['wav']), apertures=case['aps'], theta=case['theta'],
                      filters_um=[case['wav'][i] for i in case['fidx']], k=case['k'], forms=case['forms'],
                      distance_range=case['drange'], n_sources=len(case['sources']), pass_through_points=npts)
        return CaseResult(True, branches=branches, key=common.canon_hash(case), nontrivial=npts > 0,
                          sample=sample)
    finally:
        shutil.rmtree(d, ignore_errors=True)


def search(seed, tier, disagreeing):
    """falsifier: the property's statement on the real code only (no driver)"""
    found = []
    tried = 0
    pool = list(disagreeing)
    for i in range(60 if tier == 'quick' else 400):
        pool.append(gen_case(case_rng(seed, PID + '-search', i), DIRECTED[i % len(DIRECTED)] if i < 2 * len(DIRECTED) else None))
    for case in pool:
        case = {k: v for k, v in case.items() if k != '_corpus'}
        tried += 1
        d = tempfile.mkdtemp(prefix='c17s_')
        try:
            try:
                infos, figs = run_impl(case, d)
            except Exception as e:
                found.append((case, 'implementation raised on an in-domain plot request: %r' % (e,)))
                continue
            ok, detail, _ = property_check(case, infos, figs)
            if not ok:
                found.append((case, 'property fails on the real code: ' + detail))
        finally:
            shutil.rmtree(d, ignore_errors=True)
        if len(found) >= 3:
            break
    return found, tried


def shrink(case):
    """drop sources / forms / selected fits while the case still fails"""
    def fails(c):
        try:
            return not run_case(c).ok
        except Exception:
            return True
    cur = dict(case)
    for key in ('sources', 'forms'):
        while len(cur[key]) > 1:
            c = dict(cur); c[key] = cur[key][1:]
            if fails(c):
                cur = c
                continue
            c = dict(cur); c[key] = cur[key][:1]
            if fails(c):
                cur = c
                continue
            break
    while cur['k'] > 1:
        c = dict(cur); c['k'] = cur['k'] - 1
        if fails(c):
            cur = c
        else:
            break
    return cur
