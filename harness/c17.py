"""C17 — plotted model SEDs are the fitted models.

Real side: cube package (`SEDCube.write`) -> `Fitter` at tabulated wavelengths -> `Fitter.fit` ->
`plot(info | [infos] | file written with FitInfoFile | file written by sedfitter.fit(output_convolved=True),
output_dir=None, select_format=(N|A|C|D|E|F, x), plot_max, plot_mode, sources, sed_type=mode)` ->
`figures[name]['lines'].get_segments()`.

Model side: driver op `curves` = `SF.curves` (Model/Plot.lean) in exact rationals on the package
arrays the harness wrote and the (sc, av, model name) the real fit reported; driver op `curve` = the
right-hand side of theorem `C17_through` (stored predicted log flux -> curve value).

Property side (independent of the model): count, order, and pass-through against
`info.model_fluxes` (10**pred * nu * 1e-26 within 2e-3: KPC = 3.086e21 vs astropy's kpc).
"""
import os
import shutil
import sys
import tempfile

os.environ.setdefault('MPLBACKEND', 'Agg')
if hasattr(sys, 'set_int_max_str_digits'):
    sys.set_int_max_str_digits(0)      # exact rationals from the driver can have thousands of digits

import numpy as np

from . import common
from .common import CaseResult, rat, rats, case_rng, nice
from . import packages as pk

PID = 'C17'
MODES = ['interp', 'largest', 'largest+smallest', 'all']
RULE = ('cases = (cube package (two thirds) or per-file package with convolved files at the tabulated wavelengths and the SEDs '
        'in seds/ or in seds/<first 1-3 characters of the model name>/, with no aperture list, a list of one, two or 3-5 apertures, 4-12 wavelengths in either stored order, 2-6 models; '
        '3-5 monochromatic filters at tabulated wavelengths with angular apertures (repeated values allowed); '
        'model names stored in the cube in arbitrary (shuffled, un-padded numbered) order; extinction law tabulated in '
        'micron, nm, Angstrom or cm; distance range with theta*d inside or above the aperture table; 1-2 sources; selector N/A/C/D/E/F aimed at k = 1..5 selected fits, optional plot_max, plot_mode A or I, '
        'optional sources=[...] subset; filter wavelengths / apertures / A_V range start in varied units and values; '
        'cube stored in mJy, Jy or uJy; in a fifth of the cases two models coincide at every fitted wavelength (exact chi2 tie '
        'of their fits) and differ elsewhere; in a third of the cases the same package is fitted and plotted with 2-3 different extinction laws in turn in one process, '
        'every plot checked against its own fit; results passed as object, as FitInfoFile file or as the file fit(output_convolved=True) writes); every case is plotted in all four display modes; a case is '
        'non-trivial when at least one pass-through point (fit x filter x mode) is checked; distinct = '
        'distinct canonical hash of the generated inputs')
REQUIRED_BRANCHES = ['mode_interp', 'mode_largest', 'mode_largest+smallest', 'mode_all',
                     'single_aperture', 'multi_aperture', 'form_object', 'form_file',
                     'k1', 'k_gt1', 'k_exceeds_models', 'inside_table', 'above_table',
                     'repeated_filter_aperture', 'distinct_filter_apertures', 'two_sources', 'ext_unit_micron', 'ext_unit_other',
                     'ext_unit_other_file_av_nonzero', 'cube_names_unsorted', 'aperture_list_of_one', 'two_apertures',
                     'selector_N', 'selector_other', 'plot_max', 'plot_mode_I', 'sources_subset', 'form_fitfile',
                     'filter_units_other', 'av_range_not_from_zero', 'several_laws_same_package', 'later_law_av_nonzero', 'flux_unit_mJy', 'flux_unit_other', 'best_fit_tied', 'aperture_equal_smallest', 'nearly_equal_filter_apertures', 'ext_route_deepcopy', 'ext_route_pickle', 'ext_route_table', 'plot_opts_positional',
                     'plot_opts_memmap_off', 'plot_opts_show_convolved', 'aperture_table_in_AU', 'aperture_table_other_unit_cube', 'aperture_table_other_unit_per_file',
                     'per_file_package', 'seds_in_subdirs', 'seds_flat',
                     'subdir_shared_by_models', 'name_shorter_than_subdir', 'name_as_long_as_subdir', 'stored_increasing_wav', 'stored_decreasing_wav']
ASSUMPTIONS = ['IEEE rounding is not modelled: model-vs-implementation tolerance 1e-9 relative on curve values',
               'pass-through against the stored predicted flux is checked to 2e-3 relative (the plot uses KPC = 3.086e21 cm, '
               'the package distance is astropy\'s kpc = 3.0857e21 cm: ratio^2 = 1 - 2.1e-4)',
               'theta*dmin is kept >= 1.001 x the smallest tabulated aperture (the raise-below decision is discrete; the property\'s '
               'domain is "never below the table"), except for the exactly representable boundary theta x 1 kpc x 1000 == smallest '
               'aperture at a fixed distance of 1 kpc, which is generated and must be drawn',
               'matplotlib is only a container: LineCollection.get_segments() returns the arrays that were appended',
               'plot_mode=\'I\' with output_dir=None: plot() builds one collection per fit and the returned dictionary keeps only '
               'the last one built (the best fit); the count is then 1 fit x apertures shown, and pass-through is checked for fit 0',
               'packages with several apertures are fitted aperture-dependent (models.conf aperture_dependent = yes): with '
               'aperture_dependent = no the fitter uses the first aperture with a free scale while plot() interpolates in '
               'aperture, and its scale is a dimensionless Quantity that SED.interpolate rejects (reported, not generated)',
               'selector thresholds (C, D, E, F) are placed midway between two attained statistic values of the first source',
               'files written by fit() hold float32-precision predictions (memmap): stored-vs-model tolerance 1e-5 there']
EXHAUSTIVE = {'quick': True, 'thorough': True}   # all 4 modes x {1, >1 apertures} x {object, file} in every run
TRUSTED_EXTRA = ['matplotlib LineCollection stores and returns the segments unchanged']
N = {'quick': 160, 'thorough': 6000}
C_UNIT = 1e-26
KPC_PLOT = 3.086e21
C_LIGHT_UM = 299792458e6      # micron * Hz


def gen_case(rng, directed=None):
    directed = directed or {}
    nw = rng.randint(4, 12)
    nm = rng.randint(2, 6)
    multi = directed.get('multi', rng.random() < 0.65)
    napkind = directed.get('napkind', (rng.choice(['many', 'many', 'two']) if multi else rng.choice(['none', 'none', 'one'])))
    multi = napkind in ('two', 'many')
    wav = set()
    while len(wav) < nw:
        wav.add(nice(rng, 0.3, 500., 3))
    wav = sorted(wav)
    stored = directed.get('stored', rng.choice(['inc', 'dec']))
    if stored == 'dec':
        wav = wav[::-1]
    if napkind == 'none':
        nap, aps = 1, None
    else:
        nap = {'one': 1, 'two': 2}.get(napkind) or rng.randint(3, 5)
        aps = set()
        while len(aps) < nap:
            aps.add(nice(rng, 50., 5e4, 2))
        aps = sorted(aps)
    val = [[[nice(rng, 1e-2, 1e3, 4) for _ in range(nw)] for _ in range(nap)] for _ in range(nm)]
    nf = rng.randint(3, min(5, nw))
    fidx = rng.sample(range(nw), nf)
    pool = set()
    while len(pool) < nf:
        pool.add(nice(rng, 0.5, 20., 2))
    pool = sorted(pool)
    rng.shuffle(pool)
    repeat = directed.get('repeat', rng.random() < 0.5)
    if repeat:
        theta = [rng.choice(pool[:rng.randint(1, 3)]) for _ in range(nf)]
        theta[1] = theta[0]
    else:
        theta = pool[:nf]
    # two filters whose apertures differ by 1e-3 .. 4e-3 arcsec: different apertures, however close
    near = bool(directed.get('near', rng.random() < 0.2))
    if near:
        theta[1] = round(theta[0] + rng.choice([1e-3, 2e-3, 3e-3, 4e-3]), 6)
    # extinction law: decreasing opacity with wiggles; |k| stays of order 1 over the SED (an arbitrary table could
    # give k ~ -1000 and 10**(av*k) would underflow: outside anything the fitter is used for)
    nt = rng.randint(3, 10)
    tw = sorted({0.05, 2000.} | {nice(rng, 0.1, 1000., 3) for _ in range(nt)})
    top = nice(rng, 1e3, 1e5, 3)
    beta = rng.uniform(0.4, 1.6)
    chi = [float('%.3g' % (top * (w / 0.05) ** (-beta) * 10 ** rng.uniform(-0.15, 0.15))) for w in tw]
    # history: the same package fitted and plotted with further, clearly different extinction laws in the same process
    laws = []
    for _ in range(directed.get('n_laws', rng.choice([1, 1, 1, 2, 2, 3])) - 1):
        tw2 = sorted({0.05, 2000.} | {nice(rng, 0.1, 1000., 3) for _ in range(rng.randint(3, 10))})
        beta2 = rng.choice([b for b in (0.4, 0.7, 1.0, 1.3, 1.6) if abs(b - beta) > 0.25])
        top2 = nice(rng, 1e3, 1e5, 3)
        laws.append(dict(tab_w=tw2, ext_unit=rng.choice(['micron', 'nm', 'Angstrom', 'cm']),
                         tab_chi=[float('%.3g' % (top2 * (w / 0.05) ** (-beta2) * 10 ** rng.uniform(-0.15, 0.15))) for w in tw2]))
    av_lo = float(directed.get('av_lo', rng.choice([0., 0., 0., -5., 2.5])))
    av_range = [av_lo, av_lo + float(rng.choice([5, 10, 30]))]
    where = directed.get('where', rng.choice(['inside', 'above', 'mixed']))
    if multi:
        tmin, tmax = min(theta), max(theta)
        base = aps[0] / (tmin * 1000.)                  # theta_min * base kpc = smallest aperture
        if where == 'inside':
            top = aps[-1] / (tmax * 1000.)
            if top > base * 1.3:
                dmin = float('%.3g' % (base * rng.uniform(1.05, 1.2)))
                dmax = float('%.3g' % min(top * 0.95, dmin * 10))
            else:
                where = 'mixed'
        if where == 'above':
            dmin = float('%.3g' % (aps[-1] / (tmin * 1000.) * rng.uniform(1.1, 2.)))
            dmax = float('%.3g' % (dmin * rng.uniform(1.5, 5.)))
        if where == 'mixed':
            dmin = float('%.3g' % (base * rng.uniform(1.05, 3.)))
            dmax = float('%.3g' % (dmin * rng.uniform(1.5, 30.)))
        if dmin * tmin * 1000. < aps[0] * 1.001:
            dmin = float('%.3g' % (dmin * 1.01))
        if dmax <= dmin:
            dmax = float('%.3g' % (dmin * 2))
        ratio = np.log10(dmax / dmin)
        step = float('%.2g' % max(ratio / rng.randint(2, 25), 0.005))
    else:
        dmin, dmax = 1., float(rng.choice([2, 5, 10]))
        step = 0.05
    # boundary: the smallest filter aperture at a fixed distance of exactly 1 kpc EQUALS the smallest tabulated aperture
    # (theta in half arcseconds: theta * 1 * 1000 is exact, log10(1) = 0 and 10**0 = 1 exactly)
    on_knot = bool(multi and directed.get('on_knot', rng.random() < 0.12))
    if on_knot:
        base_t = [0.5 * rng.randint(1, 40) for _ in range(nf)]
        theta = [base_t[0] if (repeat and j == 1) else base_t[j] for j in range(nf)]
        dmin = dmax = 1.
        step = 0.05
        a0 = min(theta) * 1000.
        grow = sorted(nice(rng, 1.5, 60., 2) for _ in range(nap - 1))
        aps = [a0] + [float('%.4g' % (a0 * g)) for g in grow]
        if len(set(aps)) < nap:
            aps = [a0 * (1. + j) for j in range(nap)]
    # unit in which the cube stores its flux densities (`val` holds the numbers in that unit)
    flux_unit = directed.get('flux_unit', rng.choice(['mJy', 'mJy', 'Jy', 'uJy']))
    to_mjy = FLUX_TO_MJY[flux_unit]
    # two models equal at every fitted wavelength (all apertures) but different elsewhere: their fits tie exactly
    dup = None
    if directed.get('dup', rng.random() < 0.2) and nw > nf:
        a_, b_ = rng.sample(range(nm), 2)
        for ia in range(nap):
            for wi in fidx:
                val[b_][ia][wi] = val[a_][ia][wi]
        dup = [a_, b_]
    nsrc = directed.get('nsrc', rng.choice([1, 1, 2]))
    sources = []
    for si in range(nsrc):
        m = dup[0] if (dup and si == 0) else rng.randrange(nm)
        d = rng.uniform(dmin, dmax)
        flags = [rng.choice([1, 1, 1, 1, 4, 3, 0]) for _ in range(nf)]
        for j in rng.sample(range(nf), 2):
            if flags[j] not in (1, 4):
                flags[j] = 1
        flux, err = [], []
        for j in range(nf):
            f = val[m][rng.randrange(nap)][fidx[j]] * to_mjy / d ** 2 * 10 ** rng.uniform(-0.3, 0.3)
            f = float('%.4g' % f)
            if flags[j] == 4:
                flux.append(float('%.4f' % np.log10(f)))
                err.append(nice(rng, 0.01, 0.2, 2))
            elif flags[j] == 3:
                flux.append(f)
                err.append(float(rng.choice([0.5, 0.9])))
            else:
                flux.append(f)
                err.append(float('%.3g' % (f * nice(rng, 0.01, 0.3, 2))))
        sources.append(dict(name='src%d' % si, flags=flags, flux=flux, err=err))
    k = directed.get('k', rng.randint(1, 5))
    forms = directed.get('forms', [rng.choice(['object', 'file', 'fitfile'])])
    # model names in the cube: arbitrary order, un-padded numbers (m_8, m_9, m_10 sort differently as strings)
    start = rng.choice([1, 7, 8, 97, 98])
    names = ['m_%d' % (start + i) for i in range(nm)]
    if directed.get('names', rng.choice(['shuffled', 'shuffled', 'numeric'])) == 'shuffled':
        rng.shuffle(names)
    # package format: cube (flux.fits) or per-file (seds/*.fits + convolved/*.fits written by the harness at the
    # tabulated wavelengths), the latter with the SEDs in seds/<first k characters of the name>/ for k > 0
    pkg = directed.get('pkg', rng.choice(['cube', 'cube', 'per_file']))
    subdir = 0
    if pkg == 'per_file':
        subdir = directed.get('subdir', rng.choice([0, 1, 2, 3]))
        # names that share / do not share their first k characters, shorter than k, exactly k long
        pool_names = ['a', 'ab', 'abc', 'abd1', 'abd2', 'ac7', 'b', 'b12', 'xyz9', 'xy', 'abcde', 'x', 'xyz']
        names = rng.sample(pool_names, nm)
    # unit in which the extinction law's wavelength column is tabulated
    ext_unit = directed.get('ext_unit', rng.choice(['micron', 'micron', 'nm', 'Angstrom', 'cm']))
    # how the fits are selected and shown
    select = directed.get('select', rng.choice(['N', 'N', 'N', 'A', 'C', 'D', 'E', 'F']))
    plot_max = directed.get('plot_max', rng.choice([None, None, None, 1, 2, 3]))
    plot_mode = directed.get('plot_mode', rng.choice(['A', 'A', 'A', 'I']))
    subset = directed.get('subset', rng.choice([None, None, None, 'first', 'absent']))
    # units in which the filter wavelengths and the angular apertures are handed to the Fitter
    wav_unit = directed.get('wav_unit', rng.choice(['micron', 'micron', 'nm', 'Angstrom', 'cm', 'm']))
    ap_unit = directed.get('ap_unit', rng.choice(['arcsec', 'arcsec', 'arcmin', 'deg', 'rad']))
    if on_knot:
        ap_unit = 'arcsec'                     # a unit round trip would move the aperture off the knot
    return dict(wav=wav, aps=aps, val=val, fidx=fidx, theta=theta, tab_w=tw, tab_chi=chi, av=av_range,
                drange=[dmin, dmax], step=step, sources=sources, k=k, forms=forms, names=names, ext_unit=ext_unit,
                select=select, plot_max=plot_max, plot_mode=plot_mode, subset=subset, wav_unit=wav_unit, ap_unit=ap_unit,
                laws=laws, flux_unit=flux_unit, dup=dup, pkg=pkg, subdir=subdir,
                ap_table_unit=('AU' if (on_knot or not aps) else directed.get('ap_table_unit', rng.choice(['AU', 'AU', 'pc', 'cm']))),
                on_knot=on_knot,
                ext_route=directed.get('ext_route', rng.choice(['direct', 'direct', 'deepcopy', 'pickle', 'table'])),
                plot_opts=directed.get('plot_opts', rng.choice(['keywords', 'keywords', 'positional', 'memmap_off', 'show_convolved'])))


FLUX_TO_MJY = {'mJy': 1., 'Jy': 1000., 'uJy': 1e-3}
PLAIN = dict(near=False, on_knot=False, ext_route='direct', plot_opts='keywords', pkg='cube', ap_table_unit='AU', n_laws=1, flux_unit='mJy', dup=False, select='N', plot_max=None, plot_mode='A', subset=None, wav_unit='micron', ap_unit='arcsec', av_lo=0.)
DIRECTED = [
    dict(PLAIN, multi=False, napkind='none', k=1, forms=['object', 'file'], nsrc=1, stored='inc', repeat=False, ext_unit='micron'),
    dict(PLAIN, multi=True, napkind='many', k=1, forms=['object', 'file'], nsrc=1, where='inside', stored='dec', repeat=False, ext_unit='micron'),
    dict(PLAIN, multi=True, napkind='many', k=3, forms=['object', 'file'], nsrc=2, where='above', repeat=True, stored='inc', ext_unit='micron'),
    dict(PLAIN, multi=False, napkind='none', k=5, forms=['object', 'file'], nsrc=2, repeat=True, stored='dec', ext_unit='micron'),
    dict(PLAIN, multi=True, napkind='many', k=5, forms=['object', 'file'], nsrc=1, where='mixed', ext_unit='micron'),
    dict(PLAIN, multi=True, napkind='many', k=2, forms=['file'], nsrc=2, where='inside', repeat=True, ext_unit='micron'),
    dict(PLAIN, multi=True, napkind='many', k=7, forms=['object'], nsrc=1, where='mixed', ext_unit='micron'),
    dict(PLAIN, multi=False, napkind='none', k=7, forms=['file'], nsrc=1, ext_unit='micron'),
    dict(PLAIN, multi=True, napkind='many', k=3, forms=['object', 'file'], nsrc=1, where='inside', ext_unit='nm', names='shuffled'),
    dict(PLAIN, multi=False, napkind='none', k=2, forms=['file'], nsrc=2, ext_unit='Angstrom', names='shuffled'),
    dict(PLAIN, multi=True, napkind='many', k=4, forms=['file'], nsrc=1, where='mixed', ext_unit='cm', names='numeric'),
    dict(PLAIN, multi=False, napkind='none', k=3, forms=['object'], nsrc=1, ext_unit='nm', names='shuffled'),
    dict(PLAIN, multi=True, napkind='two', k=3, forms=['object', 'fitfile'], nsrc=1, where='inside', repeat=False),
    dict(PLAIN, multi=False, napkind='one', k=2, forms=['object', 'file', 'fitfile'], nsrc=2),
    dict(PLAIN, multi=True, napkind='many', k=2, forms=['object', 'file'], nsrc=2, select='F', plot_max=None, subset='first', wav_unit='nm', ap_unit='arcmin', av_lo=-5.),
    dict(PLAIN, multi=True, napkind='two', k=3, forms=['file', 'fitfile'], nsrc=1, select='C', plot_max=2, wav_unit='Angstrom', ap_unit='deg', av_lo=2.5),
    dict(PLAIN, multi=False, napkind='none', k=4, forms=['object'], nsrc=2, select='D', plot_mode='I', subset='absent', wav_unit='cm', ap_unit='rad'),
    dict(PLAIN, multi=True, napkind='many', k=3, forms=['fitfile'], nsrc=1, select='E', plot_mode='I', where='mixed', wav_unit='m'),
    dict(PLAIN, multi=True, napkind='many', k=5, forms=['object', 'file'], nsrc=1, select='A', plot_max=1),
    dict(PLAIN, multi=True, napkind='many', k=2, forms=['object', 'file'], nsrc=1, where='inside', n_laws=3),
    dict(PLAIN, multi=False, napkind='none', k=3, forms=['file', 'fitfile'], nsrc=2, n_laws=2, ext_unit='nm'),
    dict(PLAIN, multi=True, napkind='two', k=1, forms=['object'], nsrc=1, n_laws=2),
    dict(PLAIN, multi=True, napkind='many', k=3, forms=['object', 'file'], nsrc=1, where='inside', flux_unit='Jy'),
    dict(PLAIN, multi=False, napkind='none', k=2, forms=['file', 'fitfile'], nsrc=2, flux_unit='uJy'),
    dict(PLAIN, multi=False, napkind='none', k=3, forms=['object', 'file'], nsrc=1, dup=True),
    dict(PLAIN, multi=True, napkind='many', k=4, forms=['object', 'fitfile'], nsrc=1, where='inside', dup=True, flux_unit='Jy'),
    dict(PLAIN, multi=True, napkind='two', k=2, forms=['file'], nsrc=2, where='mixed', dup=True),
    dict(PLAIN, pkg='per_file', subdir=0, multi=True, napkind='many', k=3, forms=['object', 'file'], nsrc=1, where='inside'),
    dict(PLAIN, pkg='per_file', subdir=1, multi=False, napkind='none', k=4, forms=['object', 'file', 'fitfile'], nsrc=2),
    dict(PLAIN, pkg='per_file', subdir=2, multi=True, napkind='many', k=5, forms=['file'], nsrc=1, where='mixed', flux_unit='Jy'),
    dict(PLAIN, pkg='per_file', subdir=3, multi=True, napkind='two', k=3, forms=['object', 'fitfile'], nsrc=1, where='inside', dup=True),
    dict(PLAIN, pkg='per_file', subdir=2, multi=False, napkind='one', k=6, forms=['object'], nsrc=1, n_laws=2),
    dict(PLAIN, ap_table_unit='pc', multi=True, napkind='many', k=3, forms=['object', 'file'], nsrc=1, where='inside'),
    dict(PLAIN, ap_table_unit='cm', multi=True, napkind='two', k=2, forms=['file', 'fitfile'], nsrc=2, where='mixed'),
    dict(PLAIN, ap_table_unit='pc', pkg='per_file', subdir=1, multi=True, napkind='many', k=3, forms=['object', 'fitfile'], nsrc=1, where='inside'),
    dict(PLAIN, ap_table_unit='cm', pkg='per_file', subdir=0, multi=True, napkind='many', k=4, forms=['file'], nsrc=1, where='above'),
    dict(PLAIN, ap_table_unit='pc', multi=False, napkind='one', k=2, forms=['object'], nsrc=1),
    dict(PLAIN, on_knot=True, multi=True, napkind='many', k=2, forms=['object', 'file'], nsrc=1, repeat=False, ext_route='deepcopy'),
    dict(PLAIN, on_knot=True, multi=True, napkind='two', k=3, forms=['fitfile'], nsrc=2, repeat=True, plot_opts='positional', ext_route='pickle'),
    dict(PLAIN, on_knot=True, pkg='per_file', subdir=1, multi=True, napkind='many', k=1, forms=['object'], nsrc=1, plot_opts='memmap_off', ext_route='table'),
    dict(PLAIN, multi=True, napkind='many', k=3, forms=['file'], nsrc=1, where='inside', plot_opts='show_convolved'),
    dict(PLAIN, near=True, multi=True, napkind='many', k=3, forms=['object', 'file'], nsrc=1, where='inside', repeat=False),
    dict(PLAIN, near=True, multi=False, napkind='none', k=2, forms=['object'], nsrc=1, repeat=True),
]


def gen_cases(seed, tier):
    for i in range(N[tier]):
        rng = case_rng(seed, PID, i)
        yield gen_case(rng, DIRECTED[i] if i < len(DIRECTED) else None)


# ----------------------------------------------------------------------------- real side

def names_of(case):
    return list(case.get('names') or ['mod%02d' % i for i in range(len(case['val']))])


def make_ext(case):
    """the extinction law, its wavelength column given in the case's unit (the model side works in micron)"""
    from astropy import units as u
    unit = u.Unit(case.get('ext_unit', 'micron'))
    w = (np.array(case['tab_w'], dtype=float) * u.micron).to(unit).value
    return pk.make_extinction(w, case['tab_chi'], wav_unit=unit)


def filter_quantities(case):
    """(filter wavelengths, apertures) as handed to the Fitter, in the case's units"""
    from astropy import units as u
    wu = u.Unit(case.get('wav_unit', 'micron'))
    au = u.Unit(case.get('ap_unit', 'arcsec'))
    if case.get('pkg', 'cube') == 'per_file':        # named filters: convolved/F<j>.fits at the tabulated wavelength
        fw = ['F%d' % j for j in range(len(case['fidx']))]
    else:
        fw = [(case['wav'][i] * u.micron).to(wu) for i in case['fidx']]
    ap = (np.array(case['theta'], dtype=float) * u.arcsec).to(au)
    return fw, ap


def theta_eff(case):
    """the apertures in arcsec as the Fitter derives them from what it was given"""
    from astropy import units as u
    return [float(x) for x in filter_quantities(case)[1].to(u.arcsec).value]


def fwav_eff(case):
    """the filter wavelengths in micron as plot() derives them from the stored filters"""
    from astropy import units as u
    if case.get('pkg', 'cube') == 'per_file':
        return [float(case['wav'][i]) for i in case['fidx']]
    return [float(q.to(u.micron).value) for q in filter_quantities(case)[0]]


def write_package_ap_unit(case, d, names, val, funit, tab_unit):
    """the same package as the helpers write, with the aperture table of the SEDs / cube / convolved files stored in
    `tab_unit` (pc, cm) instead of AU"""
    from astropy import units as u
    from sedfitter.convolved_fluxes import ConvolvedFluxes
    aps_q = (np.array(case['aps'], dtype=float) * u.au).to(tab_unit)
    dependent = len(case['aps']) > 1
    if case.get('pkg', 'cube') == 'per_file':
        k = case.get('subdir', 0)
        pk.write_conf(d, dependent, version=1, length_subdir=k)
        for i, n in enumerate(names):
            sed = pk.make_sed(n, case['wav'], val[i], val[i] * 0.1, case['aps'], unit=funit)
            sed.apertures = aps_q
            sub = os.path.join(d, 'seds', n[:k]) if k else os.path.join(d, 'seds')
            os.makedirs(sub, exist_ok=True)
            sed.write(os.path.join(sub, n + '_sed.fits'), overwrite=True)
        os.makedirs(os.path.join(d, 'convolved'), exist_ok=True)
        for j, wi in enumerate(case['fidx']):
            c = ConvolvedFluxes()
            c.model_names = np.array(names)
            c.apertures = aps_q
            c.central_wavelength = case['wav'][wi] * u.micron
            c.flux = val[:, :, wi] * funit
            c.error = val[:, :, wi] * 0.1 * funit
            c.write(os.path.join(d, 'convolved', 'F%d.fits' % j), overwrite=True)
    else:
        pk.write_conf(d, dependent, version=2)
        cube = pk.make_cube(names, case['wav'], val, val * 0.1, case['aps'], unit=funit)
        cube.apertures = aps_q
        cube.write(os.path.join(d, 'flux.fits'), overwrite=True)
    pk.write_parameters(d, list(names), {'PAR1': [float(i) for i in range(len(names))]})


def route_object(ext, route):
    """the same extinction law reached through another plain-Python route before use"""
    import copy
    import pickle
    if route == 'deepcopy':
        return copy.deepcopy(ext)
    if route == 'pickle':
        return pickle.loads(pickle.dumps(ext, 2))
    if route == 'table':
        from sedfitter.extinction import Extinction
        return Extinction.from_table(ext.to_table())
    return ext


class BuildError(Exception):
    pass


def build(case, d, li=0):
    """package, fitter, fits and result files: everything that happens before plot() is called.
    returns {form: (argument for plot, [fit_arrays per source], [source names])}"""
    from astropy import units as u
    from sedfitter.fit import Fitter
    from sedfitter.fit_info import FitInfoFile
    names = names_of(case)
    val = np.array(case['val'], dtype=float)
    if li == 0:                                  # later laws of the history reuse the same package
        from astropy import units as u_
        funit = u_.Unit(case.get('flux_unit') or 'mJy')
        tab_unit = case.get('ap_table_unit') or 'AU'
        if tab_unit != 'AU' and case['aps'] is not None:
            write_package_ap_unit(case, d, names, val, funit, u_.Unit(tab_unit))
        elif case.get('pkg', 'cube') == 'per_file':
            pk.write_sed_package(d, names, case['wav'], val, val * 0.1, apertures_au=case['aps'], unit=funit,
                                 length_subdir=case.get('subdir', 0))
            for j, wi in enumerate(case['fidx']):
                pk.write_convolved(d, 'F%d' % j, case['wav'][wi], names, val[:, :, wi], val[:, :, wi] * 0.1,
                                   apertures_au=case['aps'], unit=funit)
        else:
            pk.write_cube_package(d, names, case['wav'], val, val * 0.1, apertures_au=case['aps'], unit=funit)
    ext = route_object(make_ext(case), case.get('ext_route', 'direct'))
    fw, ap = filter_quantities(case)
    out = {}
    infos = None
    if any(f in ('object', 'file') for f in case['forms']):
        with common.quiet():
            fitter = Fitter(fw, ap, d, extinction_law=ext, av_range=tuple(case['av']),
                            distance_range=np.array(case['drange'], dtype=float) * u.kpc, use_memmap=False)
        infos = []
        for s in case['sources']:
            src = pk.make_source(s['name'], s['flags'], s['flux'], s['err'])
            with common.quiet():
                infos.append(fitter.fit(src))
    for form in case['forms']:
        if form == 'object':
            out[form] = (infos[0] if len(infos) == 1 else list(infos), [pk.fit_arrays(i) for i in infos])
        elif form == 'file':
            path = os.path.join(d, 'fits_file_%d.fitinfo' % li)
            fo = FitInfoFile(path, 'w')
            for info in infos:
                fo.write(info)
            fo.close()
            out[form] = (path, [pk.fit_arrays(i) for i in infos])
        else:                                    # the file sedfitter.fit() itself writes, predictions kept
            from sedfitter import fit
            data = os.path.join(d, 'data_%d.txt' % li)
            with open(data, 'w') as fh:
                for s in case['sources']:
                    fh.write('%s 0.0 0.0 %s %s\n' % (s['name'], ' '.join(str(x) for x in s['flags']),
                                                   ' '.join('%r %r' % (a, b) for a, b in zip(s['flux'], s['err']))))
            path = os.path.join(d, 'fits_fitfile_%d.fitinfo' % li)
            with common.quiet():
                fit(data, fw, ap, d, path, n_data_min=1, extinction_law=ext, av_range=tuple(case['av']),
                    distance_range=np.array(case['drange'], dtype=float) * u.kpc, output_format=('A', 0),
                    output_convolved=True)
            recs = []
            fin = FitInfoFile(path, 'r')
            for info in fin:
                recs.append(pk.fit_arrays(info))
            fin.close()
            if len(recs) != len(case['sources']) or any(r['model_fluxes'] is None for r in recs):
                raise BuildError('fit() wrote %d records for %d sources / without predicted fluxes' % (len(recs), len(case['sources'])))
            out[form] = (path, recs)
    return out


def statistic(kind, chi2, n_data):
    chi2 = np.asarray(chi2, dtype=float)
    if kind == 'C':
        return chi2
    if kind == 'D':
        return chi2 - chi2[0]
    if kind == 'E':
        return chi2 / n_data
    return (chi2 - chi2[0]) / n_data


def n_tied(a, n):
    """True when the best fit ties exactly with the next selected fit"""
    return n >= 2 and float(a['chi2'][0]) == float(a['chi2'][1])


def n_data_of(src):
    return sum(1 for f in src['flags'] if f in (1, 4))


def selector(case, recs):
    """(select_format, [number of fits it selects per source, after plot_max]).  Thresholds are placed between two
    attained values of the first source's statistic so that about k fits are selected"""
    kind = case.get('select', 'N')
    nmod = len(case['val'])
    if kind == 'N':
        fmt = ('N', case['k'])
        ns = [min(case['k'], nmod) for _ in recs]
    elif kind == 'A':
        fmt = ('A', 0)
        ns = [nmod for _ in recs]
    else:
        st = statistic(kind, recs[0]['chi2'], n_data_of(case['sources'][0]))
        j = max(1, min(case['k'], nmod))
        thr = float(0.5 * (st[j - 1] + st[j])) if j < nmod else float(st[-1] * 1.5 + 1.)
        allst = [statistic(kind, r['chi2'], n_data_of(s)) for r, s in zip(recs, case['sources'])]
        for _ in range(20):
            if all(np.all(np.abs(x - thr) > 1e-9 * (1. + abs(thr))) for x in allst):
                break
            thr *= 1. + 1e-6
        fmt = (kind, thr)
        ns = [int(np.sum(x <= thr)) for x in allst]
    if case.get('plot_max'):
        ns = [min(n, case['plot_max']) for n in ns]
    return fmt, ns


def plotted_sources(case):
    """(value of plot()'s `sources` argument, names of the sources it lets through)"""
    allnames = [s['name'] for s in case['sources']]
    sub = case.get('subset')
    if sub == 'first':
        return [allnames[0]], [allnames[0]]
    if sub == 'absent':
        return ['no_such_source'], []
    return None, allnames


def drawn_fits(case, n):
    """fit indices whose curves the returned collection holds, in the order they are appended"""
    if n == 0:
        return []
    if case.get('plot_mode', 'A') == 'I':
        return [0]              # one collection per fit; the dictionary keeps the last one built: the best fit
    return list(range(n - 1, -1, -1))


def run_plots(case, built):
    """{(form, mode): (figures as {name: segments or None}, select_format, ns)}"""
    from sedfitter.plot import plot
    out = {}
    srcarg, _ = plotted_sources(case)
    for form, (arg, recs) in built.items():
        fmt, ns = selector(case, recs)
        for mode in MODES:
            kw = dict(output_dir=None, select_format=fmt, sed_type=mode)
            if case.get('plot_max'):
                kw['plot_max'] = case['plot_max']
            if case.get('plot_mode', 'A') != 'A':
                kw['plot_mode'] = case['plot_mode']
            if srcarg is not None:
                kw['sources'] = srcarg
            opts = case.get('plot_opts', 'keywords')
            with common.quiet():
                if opts == 'positional':
                    # plot(input_fits, output_dir, select_format, plot_max, plot_mode, sed_type, ...)
                    figs = plot(arg, None, fmt, kw.get('plot_max'), kw.get('plot_mode', 'A'), mode,
                                **({'sources': kw['sources']} if 'sources' in kw else {}))
                elif opts == 'memmap_off':
                    figs = plot(arg, memmap=False, **kw)
                elif opts == 'show_convolved':
                    figs = plot(arg, show_convolved=True, show_sed=True, plot_name=False, plot_info=False, **kw)
                else:
                    figs = plot(arg, **kw)
            ref = None
            if case.get('plot_mode', 'A') == 'A' and max(ns) >= 2 and (case.get('dup') or form == list(built)[0]):
                # the best fit on its own (rank 1 of the result as given): what the LAST block of curves must be
                kw1 = dict(kw, select_format=('N', 1))
                kw1.pop('plot_max', None)
                with common.quiet():
                    f1 = plot(arg, **kw1)
                ref = {name: [np.array(sg, dtype=float) for sg in f1[name]['lines'].get_segments()]
                       for name in f1 if 'lines' in f1[name]}
            out[(form, mode)] = ({name: ([np.array(sg, dtype=float) for sg in figs[name]['lines'].get_segments()]
                                         if 'lines' in figs[name] else None) for name in figs}, fmt, ns, ref)
    return out


def n_shown(case, mode):
    """number of apertures the display mode shows"""
    if mode in ('interp', 'largest'):
        return 1
    if mode == 'largest+smallest':
        return 2
    return len(set(theta_eff(case)))


def shown_index(case, mode, j):
    """index (within one fit's block of curves) of the curve drawn for filter j's aperture, or None"""
    th = theta_eff(case)
    if mode == 'interp':
        return 0
    if mode == 'largest':
        return 0 if th[j] == max(th) else None
    if mode == 'largest+smallest':
        if th[j] == min(th):
            return 0
        return 1 if th[j] == max(th) else None
    return sorted(set(th)).index(th[j])


def property_check(case, built, figs):
    """the statement of C17 evaluated on the real outputs only.  returns (ok, detail, n_points)"""
    npts = 0
    wav_seen = sorted(case['wav'], reverse=True)          # increasing frequency, as plot reads the cube
    _, let_through = plotted_sources(case)
    for (form, mode), (per_src, fmt, ns, ref) in figs.items():
        recs = built[form][1]
        what = 'form=%s mode=%s select_format=%r plot_max=%r plot_mode=%r' % (
            form, mode, fmt, case.get('plot_max'), case.get('plot_mode', 'A'))
        if sorted(per_src) != sorted(let_through):
            return False, '%s sources=%r: figures returned for %r; expected %r' % (
                what, plotted_sources(case)[0], sorted(per_src), sorted(let_through)), npts
        for si, (a, s) in enumerate(zip(recs, case['sources'])):
            name = s['name']
            if name not in let_through:
                continue
            n = ns[si]
            nc = n_shown(case, mode)
            order = drawn_fits(case, n)
            segs = per_src.get(name) or []
            if len(segs) != len(order) * nc:
                return False, ('%s source=%s: %d curves drawn; property: %d fits shown (of %d selected) x %d apertures shown = %d'
                               % (what, name, len(segs), len(order), n, nc, len(order) * nc)), npts
            if ref is not None and n >= 1:
                # best fit drawn last: the last block is, point for point, what plot() draws for fit 0 alone
                last = segs[-nc:]
                alone = ref.get(name) or []
                same = len(alone) == nc and all(x.shape == y.shape and np.allclose(x, y, rtol=1e-12, atol=0.)
                                               for x, y in zip(last, alone))
                if not same:
                    tied = n >= 2 and float(a['chi2'][0]) == float(a['chi2'][1])
                    return False, ('%s source=%s: the last %d curve(s) drawn are not those of the best fit (rank 1 of the result: '
                                   'model %s, chi2=%r%s): last block %r..., best fit alone %r...'
                                   % (what, name, nc, a['name'][0], float(a['chi2'][0]),
                                      '; tied exactly with rank 2, model %s' % a['name'][1] if tied else '',
                                      last[0][:3, 1].tolist() if last else None, alone[0][:3, 1].tolist() if alone else None)), npts
            for b, i in enumerate(order):
                block = segs[b * nc:(b + 1) * nc]              # the best fit (i = 0) is the last block
                for j, wi in enumerate(case['fidx']):
                    c = shown_index(case, mode, j)
                    if c is None:
                        continue
                    lam = case['wav'][wi]
                    row = wav_seen.index(lam)
                    seg = block[c]
                    if seg.shape != (len(case['wav']), 2) or not abs(seg[row, 0] - lam) <= 1e-12 * lam:
                        return False, ('%s source=%s fit %d: curve does not list wavelength %r at row %d: %r'
                                       % (what, name, i, lam, row, seg[:, 0].tolist())), npts
                    expect = 10. ** a['model_fluxes'][i, j] * (C_LIGHT_UM / lam) * C_UNIT
                    npts += 1
                    if not abs(seg[row, 1] - expect) <= 2e-3 * abs(expect):
                        return False, ('%s source=%s fit %d (model %s, sc=%r, av=%r) filter %d (%.4g um, %r arcsec): '
                                       'curve value %r; stored predicted flux 10**%r mJy -> %r erg/cm2/s (rel. diff %.3g)'
                                       % (what, name, i, a['name'][i], float(a['sc'][i]), float(a['av'][i]), j, lam,
                                          case['theta'][j], float(seg[row, 1]), float(a['model_fluxes'][i, j]), float(expect),
                                          abs(seg[row, 1] / expect - 1))), npts
    return True, '', npts


# ----------------------------------------------------------------------------- model side

def ctx_tokens(case):
    from astropy import units as u
    d_old = (1. * u.kpc).to(u.cm).value
    aps = case['aps'] or []
    t = [rat(C_UNIT), rat(d_old), rat(KPC_PLOT), rats(aps), str(len(case['fidx']))]
    for w, th in zip(fwav_eff(case), theta_eff(case)):
        t += [rat(w), rat(th)]
    return t


def model_curves(case, mode, a, fits_best_first):
    """`SF.curves` for the given fits (best first; the model reverses them like the plotting loop)"""
    names = names_of(case)
    wav_seen = sorted(case['wav'], reverse=True)
    line = ['curves', mode] + ctx_tokens(case)
    line += [rat(0.55), str(len(case['tab_w']))]
    for w, c in zip(case['tab_w'], case['tab_chi']):
        line += [rat(w), rat(c)]
    line.append(str(len(fits_best_first)))
    for i in fits_best_first:
        m = names.index(a['name'][i])
        line += [rat(a['sc'][i]), rat(a['av'][i]), str(len(wav_seen))]
        for lam in wav_seen:
            wi = case['wav'].index(lam)
            line += [rat(lam), rat(C_LIGHT_UM / lam), rats([case['val'][m][ia][wi] * FLUX_TO_MJY[case.get('flux_unit') or 'mJy'] for ia in range(len(case['val'][m]))])]
    t = common.driver().ask(' '.join(line))
    kind = t.tok()
    if kind == 'E':
        return t.tok()
    nc = t.nat()
    out = []
    for _ in range(nc):
        npt = t.nat()
        out.append([(t.rat(), t.rat()) for _ in range(npt)])
    return out


def model_through(case, a, i, ks):
    """theorem right-hand side per filter: (pred, curve value)"""
    names = names_of(case)
    m = names.index(a['name'][i])
    th = theta_eff(case)
    line = ['curve'] + ctx_tokens(case) + [rat(a['sc'][i]), rat(a['av'][i]), str(len(case['fidx']))]
    for j, wi in enumerate(case['fidx']):
        lam = case['wav'][wi]
        line += [rat(th[j]), rat(ks[j]), rat(C_LIGHT_UM / lam),
                 rats([case['val'][m][ia][wi] * FLUX_TO_MJY[case.get('flux_unit') or 'mJy'] for ia in range(len(case['val'][m]))])]
    t = common.driver().ask(' '.join(line))
    n = t.nat()
    return [(t.rat(), t.rat()) for _ in range(n)]


def law_cases(case):
    """the case once per extinction law of its history: the same package fitted and plotted with each law in turn, in
    one process"""
    out = [case]
    for law in case.get('laws') or []:
        out.append(dict(case, tab_w=law['tab_w'], tab_chi=law['tab_chi'], ext_unit=law['ext_unit']))
    return out


def run_case(case):
    d = tempfile.mkdtemp(prefix='c17_')
    branches = set()
    key = common.canon_hash(case)
    total = 0
    sample = None
    try:
        subs = law_cases(case)
        for li, sub in enumerate(subs):
            res = _run_law(sub, d, li, branches, key)
            if isinstance(res, CaseResult):
                if len(subs) > 1:
                    res.detail = 'extinction law %d of %d fitted and plotted on the same package in this process: %s' % (
                        li + 1, len(subs), res.detail)
                return res
            npts, smp = res
            total += npts
            sample = sample or smp
            if li > 0:
                branches.add('several_laws_same_package')
        sample['n_laws'] = len(subs)
        sample['pass_through_points'] = total
        return CaseResult(True, branches=branches, key=key, nontrivial=total > 0, sample=sample)
    finally:
        shutil.rmtree(d, ignore_errors=True)


def _run_law(case, d, li, branches, key):
    """one fit-and-plot round with the case's (current) extinction law; a CaseResult on failure, else (points, sample)"""
    try:
        try:
            built = build(case, d, li)
        except Exception as e:
            import traceback
            # nothing of C17 has been exercised yet: package, Fitter, fit and result files belong to other properties
            return CaseResult(False, violates=None, key=key,
                              detail='could not build the package / fits for the plot (not a C17 verdict): %r\n%s'
                                     % (e, traceback.format_exc()[-1500:]))
        try:
            figs = run_plots(case, built)
        except Exception as e:
            import traceback
            return CaseResult(False, violates=True, key=key,
                              detail='plot() raised on an in-domain request: %r\n%s' % (e, traceback.format_exc()[-1500:]))
        ok, detail, npts = property_check(case, built, figs)
        if not ok:
            return CaseResult(False, detail='property fails on the real code: ' + detail, violates=True, key=key)
        # ---- correspondence with the Lean model
        aps = case['aps']
        multi = aps is not None and len(aps) > 1
        branches.add('multi_aperture' if multi else 'single_aperture')
        if aps is not None and len(aps) == 1:
            branches.add('aperture_list_of_one')
        if aps is not None and len(aps) == 2:
            branches.add('two_apertures')
        branches.add('stored_increasing_wav' if case['wav'][0] < case['wav'][-1] else 'stored_decreasing_wav')
        branches.add('repeated_filter_aperture' if len(set(case['theta'])) < len(case['theta'])
                     else 'distinct_filter_apertures')
        if len(case['sources']) > 1:
            branches.add('two_sources')
        nm = len(case['val'])
        kind = case.get('select', 'N')
        branches.add('selector_N' if kind == 'N' else 'selector_other')
        branches.add('selector_' + kind)
        if kind == 'N':
            branches.add('k1' if case['k'] == 1 else 'k_gt1')
            if case['k'] > nm:
                branches.add('k_exceeds_models')
        if case.get('plot_max'):
            branches.add('plot_max')
        if case.get('plot_mode', 'A') == 'I':
            branches.add('plot_mode_I')
        if case.get('subset'):
            branches.add('sources_subset')
        if case.get('wav_unit', 'micron') != 'micron' or case.get('ap_unit', 'arcsec') != 'arcsec':
            branches.add('filter_units_other')
        if case['av'][0] != 0:
            branches.add('av_range_not_from_zero')
        other_unit = case.get('ext_unit', 'micron') != 'micron'
        branches.add('ext_unit_other' if other_unit else 'ext_unit_micron')
        nn = names_of(case)
        if case.get('pkg', 'cube') == 'per_file':
            k_ = case.get('subdir', 0)
            branches.add('per_file_package')
            branches.add('seds_in_subdirs' if k_ else 'seds_flat')
            if k_:
                pre = [x[:k_] for x in nn]
                if len(set(pre)) < len(pre):
                    branches.add('subdir_shared_by_models')
                if any(len(x) < k_ for x in nn):
                    branches.add('name_shorter_than_subdir')
                if any(len(x) == k_ for x in nn):
                    branches.add('name_as_long_as_subdir')
        else:
            branches.add('cube_names_sorted' if nn == sorted(nn) else 'cube_names_unsorted')
        if multi:
            branches.add('aperture_table_in_AU' if (case.get('ap_table_unit') or 'AU') == 'AU' else
                         'aperture_table_other_unit_' + case.get('pkg', 'cube'))
        if multi and any(t * 10. ** float(a_['sc'][0]) * 1000. == aps[0] for _, recs_ in built.values() for a_ in recs_
                         for t in theta_eff(case)):
            branches.add('aperture_equal_smallest')
        if any(0 < abs(x - y) < 0.005 for i_, x in enumerate(case['theta']) for y in case['theta'][i_ + 1:]):
            branches.add('nearly_equal_filter_apertures')
        branches.add('ext_route_' + case.get('ext_route', 'direct'))
        branches.add('plot_opts_' + case.get('plot_opts', 'keywords'))
        branches.add('flux_unit_mJy' if (case.get('flux_unit') or 'mJy') == 'mJy' else 'flux_unit_other')
        _, let_through = plotted_sources(case)
        t = common.driver().ask('getav %s %d %s %s' % (
            rat(0.55), len(case['tab_w']),
            ' '.join('%s %s' % (rat(w), rat(c)) for w, c in zip(case['tab_w'], case['tab_chi'])),
            rats([case['wav'][wi] for wi in case['fidx']])))
        ks = t.rats()
        wav_seen = sorted(case['wav'], reverse=True)
        th = theta_eff(case)
        # the theorem speaks of a filter wavelength EQUAL to a tabulated one; a wavelength handed over in another unit
        # comes back one rounding off the knot, and the composite curve is then interpolated next to it
        knot_tol = 1e-12 if fwav_eff(case) == [case['wav'][i] for i in case['fidx']] else 1e-8
        for form, (arg, recs) in built.items():
            stored_tol = 1e-5 if form == 'fitfile' else 1e-9
            for si, (a, s) in enumerate(zip(recs, case['sources'])):
                if s['name'] not in let_through:
                    continue
                ns = figs[(form, MODES[0])][2]
                if n_tied(a, ns[si]):
                    branches.add('best_fit_tied')
                n = ns[si]
                if n == 0:
                    branches.add('zero_fits_selected')
                shown = sorted(drawn_fits(case, n))                 # best first
                if other_unit and form != 'object' and any(float(a['av'][i]) != 0. for i in shown):
                    branches.add('ext_unit_other_file_av_nonzero')
                if li > 0 and any(float(a['av'][i]) != 0. for i in shown):
                    branches.add('later_law_av_nonzero')
                if multi:
                    for i in shown:
                        for tj in th:
                            x = tj * 10. ** a['sc'][i] * 1000.
                            branches.add('above_table' if x > aps[-1] else 'inside_table')
                # theorem right-hand side vs stored predicted flux vs model curve
                thr = {i: model_through(case, a, i, ks) for i in shown}
                for i in shown:
                    for j in range(len(case['fidx'])):
                        if not common.close(a['model_fluxes'][i, j], thr[i][j][0], stored_tol):
                            return CaseResult(False, violates=None, branches=branches, key=key,
                                              detail='form %s: stored predicted log flux of fit %d filter %d: impl %r, model predStored %r'
                                                     % (form, i, j, float(a['model_fluxes'][i, j]), float(thr[i][j][0])))
                for mode in MODES:
                    exp = model_curves(case, mode, a, shown)
                    if isinstance(exp, str):
                        return CaseResult(False, violates=None, branches=branches, key=key,
                                          detail='model raises %s in mode %s but the implementation returned curves' % (exp, mode))
                    branches.add('mode_' + mode)
                    branches.add('form_' + form)
                    segs = figs[(form, mode)][0].get(s['name']) or []
                    if len(segs) != len(exp):
                        return CaseResult(False, violates=None, branches=branches, key=key,
                                          detail='mode %s form %s: impl draws %d curves, model %d' % (mode, form, len(segs), len(exp)))
                    for ci, (sg, ex) in enumerate(zip(segs, exp)):
                        if sg.shape[0] != len(ex):
                            return CaseResult(False, violates=None, branches=branches, key=key,
                                              detail='mode %s curve %d: %d points vs model %d' % (mode, ci, sg.shape[0], len(ex)))
                        for p, (x, y) in enumerate(ex):
                            if not abs(sg[p, 0] - float(x)) <= 1e-12 * float(x) or not common.close(sg[p, 1], y, 1e-9, scale=0.):
                                return CaseResult(False, violates=None, branches=branches, key=key,
                                                  detail=('mode %s form %s source %s curve %d point %d: impl (%r, %r), model (%r, %r)'
                                                          % (mode, form, s['name'], ci, p, float(sg[p, 0]), float(sg[p, 1]),
                                                             float(x), float(y))))
                    # model curve through the theorem's right-hand side (fit i, filter j)
                    nc = n_shown(case, mode)
                    order = drawn_fits(case, n)
                    for b, i in enumerate(order):
                        for j, wi in enumerate(case['fidx']):
                            c = shown_index(case, mode, j)
                            if c is None:
                                continue
                            y = exp[b * nc + c][wav_seen.index(case['wav'][wi])][1]
                            if not common.close(y, thr[i][j][1], knot_tol, scale=0.):
                                return CaseResult(False, violates=None, branches=branches, key=key,
                                                  detail='model curve %r differs from theorem right-hand side %r (mode %s fit %d filter %d)'
                                                         % (float(y), float(thr[i][j][1]), mode, i, j))
        sample = dict(n_models=nm, n_wav=len(case['wav']), apertures=case['aps'], theta=case['theta'],
                      filters_um=[case['wav'][i] for i in case['fidx']], k=case['k'], forms=case['forms'],
                      select=kind, plot_max=case.get('plot_max'), plot_mode=case.get('plot_mode', 'A'),
                      subset=case.get('subset'), units=[case.get('wav_unit'), case.get('ap_unit'), case.get('ext_unit')],
                      av_range=case['av'], distance_range=case['drange'], n_sources=len(case['sources']),
                      pass_through_points=npts)
        return npts, sample
    finally:
        pass


def search(seed, tier, disagreeing):
    """falsifier: the property's statement on the real code only (no driver)"""
    found = []
    tried = 0
    pool = list(disagreeing)
    for i in range(60 if tier == 'quick' else 400):
        pool.append(gen_case(case_rng(seed, PID + '-search', i), DIRECTED[i % len(DIRECTED)] if i < 2 * len(DIRECTED) else None))
    for case in pool:
        case = {k: v for k, v in case.items() if k != '_corpus'}
        tried += 1
        d = tempfile.mkdtemp(prefix='c17s_')
        try:
            for li, sub in enumerate(law_cases(case)):
                try:
                    built = build(sub, d, li)
                except Exception:
                    break                      # not a C17 matter
                try:
                    figs = run_plots(sub, built)
                except Exception as e:
                    found.append((case, 'plot() raised on an in-domain request: %r' % (e,)))
                    break
                ok, detail, _ = property_check(sub, built, figs)
                if not ok:
                    found.append((case, 'extinction law %d: property fails on the real code: %s' % (li + 1, detail)))
                    break
        finally:
            shutil.rmtree(d, ignore_errors=True)
        if len(found) >= 3:
            break
    return found, tried


def shrink(case):
    """drop sources / forms / selected fits while the case still fails"""
    def fails(c):
        try:
            return not run_case(c).ok
        except Exception:
            return True
    cur = dict(case)
    for key in ('sources', 'forms'):
        while len(cur[key]) > 1:
            c = dict(cur); c[key] = cur[key][1:]
            if fails(c):
                cur = c
                continue
            c = dict(cur); c[key] = cur[key][:1]
            if fails(c):
                cur = c
                continue
            break
    while cur['k'] > 1:
        c = dict(cur); c['k'] = cur['k'] - 1
        if fails(c):
            cur = c
        else:
            break
    return cur
