"""C03 — data flags mean what the data-format page says.

Every flag vector in {0,1,2,3,4,9}^n, 1 <= n <= 5, crossed with random photometry, confidences in
{0, (0,1), 1}, both fitting modes.  For every vector the harness builds one source S and a family of
sources that differ from S only in ignored / equivalent content, and runs `Fitter.fit` on all of them,
on a distance-independent and on a distance-dependent package:

 (a) other values on flag-0 / flag-9 bands (non-positive ones and -999 placeholders included) -> identical FitInfo
 (b) limits with confidence 0  vs  the same bands flagged 0                                -> identical FitInfo
 (a') flags 0 and 9 exchanged on the ignored bands                                         -> identical FitInfo
 (c) flag-1 bands  vs  flag-4 bands carrying (log10 F - 0.5 (s/F)^2/ln10, |s/F|/ln10)      -> identical to 1e-12
 (h) ONE Source object fitted, its valid / flux / error re-assigned (each alone and combined), fitted again
                                                                          -> bit-identical to a fresh Source with that content
 (r) the photometry held as int64 / int32 / big-endian / read-only / strided arrays, lists, tuples, float32
                                                                          -> same fit as float64 arrays with the same values
 (d) a model on the forbidden side of a limit with confidence 1                           -> chi2 >= 1e30
 (e) chi2 = sum over fitted bands of ((lf - predicted)/le)^2 + sum over limits on whose forbidden side
     the reported model lies of -2 ln(1-c)  (arithmetic check on the reported predicted fluxes; and, in the
     distance-independent mode, limits removed -> same (av, sc), chi2 lower by exactly the penalties)

In the distance-independent mode the result for S is also compared with the Lean model (driver op `fit2`
= getAv, logTransform, mkPts, fit2Full in exact rationals), which is what the theorems of
Properties/C03.lean talk about.  The distance-dependent mode is checked metamorphically on the real code.
"""
import itertools
import math
import shutil
import tempfile

import numpy as np

from . import common
from .common import CaseResult, case_rng, nice
from . import packages as pk
from . import c01

PID = 'C03'
RULE = ('cases = groups of up to 4 flag vectors of equal length n (1..5) over {0,1,2,3,4,9} (quick: a directed block + '
        '~300 sampled vectors; thorough: all 9330 non-empty vectors; the empty vector admits no Fitter and is vacuous), each '
        'with its own random photometry, ignored bands carrying arbitrary values incl. non-positive ones, -999, signed zeros with '
        'and without error, +-inf, NaN, 1e+-300 (a directed block puts every entry of IGNORED_ALPHABET into a flag-9 and a flag-0 '
        'slot; pair (a) is taken against the same source with ordinary values on those bands, which must fit finitely), limit '
        'confidences from {0, (0,1), 1}, one random distance-independent package (convolved-flux files with named filters, or an '
        'SED cube fitted at wavelengths given as Quantities, with use_memmap off / on) and one distance-dependent package per case; '
        'non-trivial = at least one vector of the group has a non-singular fit in some mode (>= 2 fitted bands with '
        'distinct extinction coefficient, resp. >= 1 fitted band); distinct = canonical hash of the generated inputs')
REQUIRED_BRANCHES = ['flag0', 'flag1', 'flag2', 'flag3', 'flag4', 'flag9', 'conf0', 'conf1', 'conf_mid',
                     'mode_indep', 'mode_dist', 'nonpositive_ignored', 'placeholder_ignored',
                     'limit_violated', 'limit_ok', 'conf1_violated', 'pair_ignored', 'pair_conf0', 'pair_flag4',
                     'model_corr', 'singular', 'ignored_zero_flux_nonzero_err_flag0', 'ignored_zero_flux_nonzero_err_flag9',
                     'ignored_zero_flux_zero_err', 'ignored_inf', 'ignored_nan', 'ignored_huge_tiny',
                     'exact_tie_indep', 'exact_tie_dist', 'exact_tie_model',
                     'indep_files', 'indep_cube_wav', 'indep_cube_wav_memmap',
                     'n_fitted_0', 'n_fitted_1', 'n_fitted_2', 'pair_conf0_singular', 'pair_swap09', 'pair_swap09_singular',
                     'rep_float32', 'rep_int64', 'rep_int32', 'rep_list_int', 'rep_bigendian_int32', 'rep_bigendian', 'rep_readonly',
                     'rep_list_float', 'rep_tuple_float', 'rep_valid_float', 'rep_valid_int32', 'rep_noncontiguous',
                     'rep_valid_uint8', 'rep_valid_uint16', 'rep_valid_int8', 'rep_route_ascii', 'rep_route_dict', 'rep_route_copy',
                     'rep_route_deepcopy', 'rep_route_pickle', 'rep_route_attributes_reordered',
                     'near_tie_forbidden_side', 'near_tie_allowed_side', 'dist_remove_resolved', 'resolved_mask_on_steep_band', 'resolved_changes_result', 'pair_flag4_on_resolving_band',
                     'low_snr', 'same_object_valid', 'same_object_flux', 'same_object_error', 'same_object_combined']
ASSUMPTIONS = ['IEEE rounding is not modelled: model comparison tolerance 1e-9 x condition number; paired real runs are '
               'compared to 1e-12 relative (they are bit-identical on the unchanged tree)',
               'limit decisions closer than 1e-9 to the threshold are skipped (counted as margin_relaxed) - except constructed '
               'ties (kind exact_tie: the source is a grid model given as flag-4 log fluxes, limits equal to its fluxes), where '
               'the reported predicted flux equals the limit bit for bit: there the model is on the limit, not beyond it, and no '
               'penalty may appear',
               'fits with fewer than 2 fitted bands of distinct extinction coefficient (distance-independent) or no '
               'fitted band (distance-dependent) are singular (outside the grids of C01/C02: every output is NaN or '
               'rounding noise): only the NaN-aware identity of the paired runs (a), (b) and 0 <-> 9 is checked there; with NO fitted '
               'band chi2 is left out of (b) and 0 <-> 9 (unchanged tree: 0.0 if all bands are flagged 0, NaN otherwise)',
               'failures of clauses owned by other properties (source modified: C11; n_data: C05; ranking: C04) are reported as broken '
               'correspondence (violates=None), not as C03 violations',
               'with use_memmap=True (float32 model fluxes) only the paired real runs and the penalty arithmetic are checked',
               'with Fitter(remove_resolved=True) (a share of the distance-dependent packages, built so that the rule bites: one band '
               'resolved at every trial distance but the last) the documented rule removes (model, distance) cells resolved in any band '
               'with valid > 0: a flag-9 band and a limit of any confidence count, a flag-0 band does not; so pairs (b) (confidence 0 vs '
               'flag 0) and (a\') (0 <-> 9) compare sources with legitimately different masks and are not applied there; all other '
               'pairs, in particular (c) flag 1 <-> flag 4 on the resolving band, are',
               'the distance-dependent mode is checked on the real code only (paired runs + penalty arithmetic); its model '
               'correspondence is C02']
EXHAUSTIVE = {'quick': False, 'thorough': True}
FLAGS = [0, 1, 2, 3, 4, 9]
GROUP = 4
N_QUICK_VECTORS = 300
LN10 = np.log(10.)

DIRECTED = [
    [1, 1, 1], [4, 4, 4], [1, 4, 0], [1, 4, 9], [1, 1, 2], [1, 1, 3], [4, 1, 2, 3], [1, 1, 2, 2, 3],
    [0, 9, 1, 4, 1], [9, 9, 1, 1, 0], [1, 0, 0], [0, 0], [9], [2, 3], [1, 2, 3, 4, 9], [4, 4, 3, 0, 9],
    [1, 1, 3, 3], [1, 4, 2, 2], [3, 1, 1, 1, 1], [2, 4, 4, 4, 4],
    # number of fitted bands 0, 1, 2 next to limits / plot-only / unused bands
    [0, 9, 2], [9, 0, 0], [3, 0], [1, 3, 0], [1, 9, 0], [4, 2, 9], [0, 4], [9, 1], [1, 1, 0], [4, 1, 9], [1, 4, 3, 0],
]
# what the limits of a directed vector should look like (index into DIRECTED -> (far, conf))
DIRECTED_LIMITS = {4: ('violated', 1.), 5: ('violated', 1.), 6: ('violated', 0.5), 7: ('ok', 0.9),
                   14: ('violated', 0.), 15: ('ok', 1.), 16: ('violated', 1.), 17: ('violated', 0.99),
                   18: ('violated', 1.), 19: ('violated', 1.)}


# directed vectors whose flag-1 bands all get an error larger than the flux
LOW_SNR_DIRECTED = {0, 2, 3, 8}


def all_vectors():
    for n in range(1, 6):
        for v in itertools.product(FLAGS, repeat=n):
            yield list(v)


# ----------------------------------------------------------------------------- generation

INF = float('inf')
NAN = float('nan')
# extreme (flux, error) contents for bands that must be ignored: zero flux with and without error, signed zeros,
# infinities, NaN, huge / tiny / denormal magnitudes, negative values, the -999 placeholder
IGNORED_ALPHABET = [
    [0., 1.], [0., 0.], [-0., 1.], [-0., 0.], [0., -1.], [INF, 1.], [-INF, 1.], [INF, INF], [1., INF], [1., -INF],
    [NAN, 1.], [1., NAN], [NAN, NAN], [0., NAN], [0., INF], [1e300, 1.], [1e-300, 1.], [1e300, 1e300],
    [1e-300, 1e-300], [1., 1e300], [1., 1e-300], [1e300, 1e-300], [1e-300, 1e300], [-1., 1.], [-1., -1.], [1., -1.],
    [-999., -999.], [-1e300, 1.], [5e-324, 1.], [0., 1e-300], [0., 1e300],
]


def ignored_values(rng, f):
    """arbitrary (flux, error) for a band that must be ignored"""
    if rng.random() < 0.4:
        return list(rng.choice(IGNORED_ALPHABET))
    k = rng.choice(['placeholder', 'zero', 'zero_err', 'negflux', 'negerr', 'positive', 'tiny', 'neg_both'])
    if k == 'placeholder':
        return [-999., -999.]
    if k == 'zero':
        return [0., 0.]
    if k == 'zero_err':
        return [0., nice(rng, 1e-3, 1e2, 3)]
    if k == 'negflux':
        return [-abs(f), float('%.3g' % (abs(f) * 0.1))]
    if k == 'negerr':
        return [abs(f), -float('%.3g' % (abs(f) * 0.1))]
    if k == 'tiny':
        return [1e-30, 0.]
    if k == 'neg_both':
        return [-nice(rng, 1e-3, 1e3, 3), -nice(rng, 1e-3, 1e3, 3)]
    return [nice(rng, 1e-3, 1e4, 3), nice(rng, 1e-3, 1e2, 3)]


def benign_values(f):
    """ordinary positive (flux, error): the reference content of an ignored band"""
    return [float('%.3g' % (abs(f) * 1.7)), float('%.3g' % (abs(f) * 0.13))]


def gen_source(rng, vec, models, wavs, directed=None, ign=None, lowsn=False, sc_range=(-0.3, 0.6)):
    """underlying photometry for one flag vector: linear (F, sigma) for every band, limit (flux, confidence),
    two independent draws of ignored content"""
    nb = len(vec)
    m = rng.randrange(len(models))
    sc0 = rng.uniform(*sc_range)
    lin, lim, ign_a, ign_b = [], [], [], []
    for j in range(nb):
        base = models[m][j] * 10 ** (-2 * sc0) * 10 ** rng.uniform(-0.25, 0.25)
        f = float('%.4g' % base)
        # relative errors from 0.2 % to 50 %, and a share of marginal points whose error exceeds the flux (S/N < 1)
        if lowsn or rng.random() < 0.15:
            s = float('%.3g' % (f * nice(rng, 1.05, 4., 2)))
        else:
            s = float('%.3g' % (f * nice(rng, 2e-3, 0.5, 2)))
        lin.append([f, s])
        if directed is not None:
            how, conf = directed
        else:
            how = rng.choice(['violated', 'ok', 'near', 'near'])
            conf = rng.choice([0., 1., 0.5, 0.9, 0.99, round(rng.uniform(0.01, 0.99), 2), round(rng.uniform(0.01, 0.99), 3)])
        if vec[j] == 2:
            fac = {'violated': 1e3, 'ok': 1e-3}.get(how, 10 ** rng.uniform(-0.4, 0.4))
        else:
            fac = {'violated': 1e-3, 'ok': 1e3}.get(how, 10 ** rng.uniform(-0.4, 0.4))
        lim.append([float('%.4g' % (f * fac)), conf])
        ign_a.append(list(ign[0]) if ign is not None else ignored_values(rng, f))
        ign_b.append(list(ign[1]) if ign is not None else ignored_values(rng, f))
    return dict(flags=list(vec), lin=lin, lim=lim, ign_a=ign_a, ign_b=ign_b)


def gen_case(rng, vectors, directed_ids=None, fmt=None):
    nb = len(vectors[0])
    nm = rng.randint(1, 6)
    wavs = sorted({nice(rng, 0.3, 100., 3) for _ in range(nb)})
    while len(wavs) < nb:
        wavs = sorted(set(wavs) | {nice(rng, 0.3, 100., 3)})
    rng.shuffle(wavs)
    nt = rng.randint(3, 10)
    tw = sorted({0.1, 200.} | {nice(rng, 0.1, 200., 3) for _ in range(nt)})
    chi = sorted([nice(rng, 1., 1e4, 3) for _ in tw], reverse=True)
    if rng.random() < 0.3:
        rng.shuffle(chi)
    models = [[nice(rng, 1e-2, 1e3, 4) for _ in range(nb)] for _ in range(nm)]
    kind = rng.choice(['wide', 'wide', 'wide', 'clamp_low', 'clamp_high', 'lo_eq_hi'])
    if kind == 'wide':
        av = [round(-rng.uniform(0, 40), 1), round(rng.uniform(20, 80), 1)]
    elif kind == 'clamp_low':
        av = [round(rng.uniform(30, 60), 1), round(rng.uniform(60, 70), 1)]
    elif kind == 'clamp_high':
        av = [round(-30 - rng.uniform(0, 5), 1), -25.]
    else:
        v = round(rng.uniform(0, 10), 1)
        av = [v, v]
    # distance-dependent package: apertures (AU), growth curve per model and band, angular apertures, distance range
    nap = rng.randint(2, 5)
    aps = sorted({float('%.2g' % (10 ** rng.uniform(1.5, 5.5))) for _ in range(nap)})
    while len(aps) < 2:
        aps = sorted(set(aps) | {float('%.2g' % (10 ** rng.uniform(1.5, 5.5)))})
    grow = [[sorted(round(rng.uniform(0.2, 1.), 3) for _ in aps) for _ in range(nb)] for _ in range(nm)]
    dmin = nice(rng, 0.3, 3., 2)
    dmax = dmin if rng.random() < 0.15 else float('%.2g' % (dmin * 10 ** rng.uniform(0.05, 1.)))
    if dmax < dmin:
        dmax = dmin
    theta_min = aps[0] / (dmin * 1000.)
    theta = [float('%.3g' % (theta_min * 10 ** rng.uniform(0.05, 1.5) * 1.01)) for _ in range(nb)]
    step = rng.choice([0.05, 0.1, 0.2, 0.5])
    sources = []
    for i, v in enumerate(vectors):
        d = None
        ign = None
        did = directed_ids[i] if directed_ids is not None else None
        if isinstance(did, (list, tuple)):
            k = did[1]
            ign = (IGNORED_ALPHABET[k], IGNORED_ALPHABET[(k + 11) % len(IGNORED_ALPHABET)])
        elif did in DIRECTED_LIMITS:
            d = DIRECTED_LIMITS[did]
        sources.append(gen_source(rng, v, models, wavs, d, ign, lowsn=(isinstance(did, int) and did in LOW_SNR_DIRECTED)))
    if fmt is None:
        fmt = rng.choice(['files', 'files', 'cube_wav', 'cube_wav_memmap'])
    return dict(wavs=wavs, tab_w=tw, tab_chi=chi, models=models, av=av, kind=kind, fmt=fmt,
                aps=aps, grow=grow, drange=[dmin, dmax], theta=theta, step=step, sources=sources)


RESOLVED_VECTORS = [[4, 1, 1, 0], [1, 4, 3, 1], [4, 4, 1, 9], [1, 1, 4, 2]]


def make_resolved(case, rng, jstar=None, replant=True):
    """rewrite the distance-dependent part of a case so that `Fitter(remove_resolved=True)` bites: one band (`steep_band`) whose
    flux grows steeply with aperture (power-law index 5-7: after the d^-2 dilution the surface brightness of the per-distance
    fluxes peaks at the LAST trial aperture, so every trial distance but the last is resolved in that band), the other bands
    compact (index 0.3-1.5); all trial apertures inside the table; >= 3 trial distances; sources planted near dmin"""
    nb, nm = len(case['wavs']), len(case['models'])
    a0 = float('%.3g' % (10 ** rng.uniform(2., 3.5)))
    aps = [float('%.4g' % (a0 * 10 ** (0.35 * i))) for i in range(5)]
    dmin = nice(rng, 0.5, 2., 2)
    ndist = rng.randint(3, 6)
    step = rng.choice([0.1, 0.15, 0.2])
    dmax = float('%.4g' % (dmin * 10 ** (step * (ndist - 1) * 0.97)))
    if jstar is None:
        fitted = [j for j, f in enumerate(case['sources'][0]['flags']) if f in (1, 4)]
        jstar = rng.choice(fitted) if fitted else rng.randrange(nb)
    grow = []
    for i in range(nm):
        rows = []
        for j in range(nb):
            pw = rng.uniform(5., 7.) if j == jstar else rng.uniform(0.3, 1.5)
            rows.append([float('%.4g' % ((a / aps[-1]) ** pw)) for a in aps])
        grow.append(rows)
    theta = [float('%.4g' % (aps[0] / (dmin * 1000.) * rng.uniform(1.02, 1.3))) for _ in range(nb)]
    case.update(aps=aps, grow=grow, drange=[dmin, dmax], theta=theta, step=step, resolved=True, steep_band=jstar)
    if replant:
        lo = math.log10(dmin)
        case['sources'] = [gen_source(rng, src['flags'], case['models'], case['wavs'],
                                      sc_range=(lo, lo + 0.6 * step * (ndist - 1))) for src in case['sources']]
    return case


def vector_groups(seed, tier):
    """list of (vectors, directed_ids or None)"""
    groups = []
    by_n = {}
    for i, v in enumerate(DIRECTED):
        by_n.setdefault(len(v), []).append((v, i))
    for n in sorted(by_n):
        items = by_n[n]
        for k in range(0, len(items), GROUP):
            chunk = items[k:k + GROUP]
            groups.append(([c[0] for c in chunk], [c[1] for c in chunk]))
    # directed block: every entry of the ignored-value alphabet in a flag-9 and in a flag-0 slot of a well-posed source
    shapes = [[1, 9, 4, 0, 1], [9, 1, 1], [1, 0, 4], [0, 9, 1, 1]]
    items = [(shapes[k % len(shapes)], ['ign', k]) for k in range(len(IGNORED_ALPHABET))]
    for shape in shapes:
        chunk = [it for it in items if it[0] is shape]
        for k in range(0, len(chunk), GROUP):
            groups.append(([c[0] for c in chunk[k:k + GROUP]], [c[1] for c in chunk[k:k + GROUP]]))
    vecs = list(all_vectors())
    if tier == 'quick':
        rng = case_rng(seed, PID, 'sample')
        vecs = rng.sample(vecs, N_QUICK_VECTORS)
        vecs.sort(key=lambda v: (len(v), v))
    cur = []
    for v in vecs:
        if cur and (len(cur) == GROUP or len(cur[0]) != len(v)):
            groups.append((cur, None))
            cur = []
        cur.append(v)
    if cur:
        groups.append((cur, None))
    return groups


FORMATS = ['files', 'cube_wav', 'cube_wav_memmap']
TIE_PATTERNS = [[4, 4, 2, 4, 0], [4, 3, 4, 9, 4], [2, 4, 4, 3, 4], [4, 4, 4, 4, 3]]
N_TIE = {'quick': 8, 'thorough': 80}


def tie_pattern(rng):
    n = rng.randint(3, 5)
    fl = [4, 4, rng.choice([2, 3])] + [rng.choice([4, 4, 2, 3, 0, 9]) for _ in range(n - 3)]
    rng.shuffle(fl)
    return fl


def gen_tie_case(rng, patterns, exact_model):
    """sources that ARE a model of the grid: flag-4 bands = log10 of the model's fluxes, every limit = the model's flux in
    that band.  All residuals, A_V and scale are exactly 0 in float arithmetic, so the model lies exactly on every limit.
    exact_model: the planted model's fluxes are 1 ('ones') or 1 / 10 mJy, whose log10 the driver also computes exactly"""
    nb = len(patterns[0])
    for attempt in range(40):
        case = gen_case(rng, patterns, None)
        case['kind'] = 'exact_tie'
        case['fmt'] = 'files'      # float64 storage: the tie is exact only if the model fluxes are held exactly
        case['av'] = [-round(rng.uniform(1, 10), 1), round(rng.uniform(5, 40), 1)]
        # one trial distance, 1 kpc: the distance the model fluxes are tabulated for (d^-2 factor exactly 1)
        case['drange'] = [1., 1.]
        case['theta'] = [float('%.3g' % (case['aps'][0] / 1000. * 10 ** rng.uniform(0.05, 1.5) * 1.01)) for _ in range(nb)]
        nm = len(case['models'])
        ok = True
        for src in case['sources']:
            m = rng.randrange(nm)
            if exact_model == 'ones':
                case['models'][m] = [1.] * nb       # log10(1) = 0 exactly, in numpy (any code path) and in the driver
            elif exact_model:
                case['models'][m] = [rng.choice([1., 10.]) for _ in range(nb)]
            # same flux in every aperture: interpolation in aperture returns it exactly
            case['grow'][m] = [[1.] * len(case['aps']) for _ in range(nb)]
            src['tie'] = dict(m=m, mflux=None, le=[nice(rng, 0.01, 0.3, 2) for _ in range(nb)])
            for j in range(nb):
                src['lim'][j][1] = rng.choice([0.5, 0.9, 0.99, 1., round(rng.uniform(0.05, 0.95), 2)])
        for src in case['sources']:
            src['tie']['mflux'] = list(case['models'][src['tie']['m']])
            if c01.singular(case, variants(src)['S']):
                ok = False
        if ok:
            return case
    return case


def tie_cases(seed, tier, stream=PID):
    k = 0
    for exact_model in ('ones', True, False):
        yield gen_tie_case(case_rng(seed, stream, 'tie%d' % k), TIE_PATTERNS, exact_model)
        k += 1
    for _ in range(N_TIE[tier]):
        rng = case_rng(seed, stream, 'tie%d' % k)
        n = rng.randint(3, 5)
        pats = []
        while len(pats) < 3:
            fl = tie_pattern(rng)
            if len(fl) == n:
                pats.append(fl)
        yield gen_tie_case(rng, pats, rng.choice(['ones', True, False, False]))
        k += 1


def resolved_cases(seed, stream=PID):
    """directed: remove_resolved=True on packages where the rule bites, the steep band being a flag-4 / flag-1 / flag-9 band"""
    for k in range(3):
        rng = case_rng(seed, stream, 'resolved%d' % k)
        case = gen_case(rng, RESOLVED_VECTORS, None, fmt='files')
        yield make_resolved(case, rng, jstar=[0, 1, 2][k])


def gen_cases(seed, tier):
    groups = vector_groups(seed, tier)
    n_directed = sum(1 for g in groups if g[1] is not None)
    for i, (vectors, dids) in enumerate(groups):
        if i == n_directed:
            for case in tie_cases(seed, tier):
                yield case
            for case in resolved_cases(seed):
                yield case
        rng = case_rng(seed, PID, i)
        case = gen_case(rng, vectors, dids, fmt=(FORMATS[i % 3] if dids is not None else None))
        if dids is None and rng.random() < 0.2:
            make_resolved(case, rng)
        yield case


# ----------------------------------------------------------------------------- sources derived from one vector

def transform(f, s):
    """the documented flag-1 -> flag-4 transform, in float, with the code's formula"""
    f = np.float64(f)
    s = np.float64(s)
    return float(np.log10(f) - 0.5 * (s / f) ** 2. / LN10), float(np.abs(s / f) / LN10)


def variants(src):
    """sources (flags, flux, err) derived from the underlying photometry of one flag vector"""
    flags = src['flags']
    nb = len(flags)

    tie = src.get('tie')
    if tie is not None:
        # photometry that IS model `m` of the grid: flag-4 bands carry log10 of the model flux computed as the code
        # computes it, limits carry the model flux itself -> every residual is exactly 0 in float arithmetic
        mflux = np.array(tie['mflux'], dtype=np.float64)
        lgm = np.log10(mflux)

    def build(fl, ign, conf0=False):
        flux, err = [], []
        for j in range(nb):
            f = fl[j]
            if tie is not None and f == 4:
                flux.append(float(lgm[j])); err.append(tie['le'][j])
            elif tie is not None and f in (2, 3):
                flux.append(float(mflux[j])); err.append(0. if conf0 else src['lim'][j][1])
            elif f == 1:
                flux.append(src['lin'][j][0]); err.append(src['lin'][j][1])
            elif f == 4:
                a, b = transform(*src['lin'][j])
                flux.append(a); err.append(b)
            elif f in (2, 3):
                flux.append(src['lim'][j][0]); err.append(0. if conf0 else src['lim'][j][1])
            else:
                flux.append(ign[j][0]); err.append(ign[j][1])
        return dict(flags=list(fl), flux=flux, err=err)

    out = {'S': build(flags, src['ign_a'])}
    if any(f in (0, 9) for f in flags):
        out['ignored'] = build(flags, src['ign_b'])
        out['benign'] = build(flags, [benign_values(x[0]) for x in src['lin']])
    if any(f in (0, 9) for f in flags):
        out['swap09'] = build([{0: 9, 9: 0}.get(f, f) for f in flags], src['ign_a'])
    if any(f in (2, 3) for f in flags):
        out['conf0'] = build(flags, src['ign_a'], conf0=True)
        nolim = [0 if f in (2, 3) else f for f in flags]
        out['limits_off'] = build(nolim, src['ign_b'])
    if tie is not None:
        return out
    if 1 in flags:
        out['to4'] = build([4 if f == 1 else f for f in flags], src['ign_a'])
    if 4 in flags:
        out['to1'] = build([1 if f == 4 else f for f in flags], src['ign_a'])
    return out


# ----------------------------------------------------------------------------- real side

def build_indep(case, d):
    """distance-independent package: convolved-flux files (version 1, named filters), or an SED cube (version 2) fitted at
    tabulated wavelengths given as Quantities, optionally with `use_memmap=True` (model fluxes held as float32)"""
    fmt = case.get('fmt', 'files')
    if fmt == 'files':
        return c01.build(case, d)
    from astropy import units as u
    nm = len(case['models'])
    names = ['m%03d' % i for i in range(nm)]
    extra = float('%.3g' % (max(case['wavs']) * 2.5))
    wav = sorted(list(case['wavs']) + [extra])
    val = np.ones((nm, 1, len(wav)))
    for j, w in enumerate(case['wavs']):
        val[:, 0, wav.index(w)] = [case['models'][i][j] for i in range(nm)]
    pk.write_cube_package(d, names, wav, val, np.zeros_like(val), apertures_au=None, aperture_dependent=False)
    ext = pk.make_extinction(case['tab_w'], case['tab_chi'])
    fitter = pk.make_fitter(d, [w * u.micron for w in case['wavs']], [1.] * len(case['wavs']), ext, case['av'],
                            use_memmap=(fmt == 'cube_wav_memmap'))
    return fitter, names


def build_dist(case, d, remove_resolved=None):
    nm = len(case['models'])
    nb = len(case['wavs'])
    names = ['m%03d' % i for i in range(nm)]
    pk.write_conf(d, aperture_dependent=True, logd_step=case['step'])
    fnames = []
    for j, w in enumerate(case['wavs']):
        fn = 'F%d' % j
        fnames.append(fn)
        flux = [[case['models'][i][j] * g for g in case['grow'][i][j]] for i in range(nm)]
        pk.write_convolved(d, fn, w, names, flux, np.zeros((nm, len(case['aps']))), apertures_au=case['aps'])
    ext = pk.make_extinction(case['tab_w'], case['tab_chi'])
    fitter = pk.make_fitter(d, fnames, case['theta'], ext, case['av'], distance_range_kpc=case['drange'],
                            remove_resolved=bool(case.get('resolved')) if remove_resolved is None else remove_resolved)
    return fitter, names


# ----------------------------------------------------------------------------- representations of the photometry

INT_REPS = ['int64', 'int32', 'list_int', 'bigendian_int32']
FLOAT_REPS = ['bigendian', 'readonly', 'list_float', 'tuple_float', 'valid_float', 'valid_int32', 'noncontiguous',
              'valid_uint8', 'valid_uint16', 'valid_int8', 'route_ascii', 'route_dict', 'route_copy', 'route_deepcopy',
              'route_pickle', 'route_attributes_reordered']


def make_source_rep(tag, s, rep=None):
    """a Source whose valid / flux / error are held in the given representation (the VALUES are those of `s`):
    int64 / int32 / big-endian int32 arrays and lists of Python ints (values must be whole numbers), float32, big-endian
    float64, read-only arrays, lists / tuples of floats, strided views, `valid` held as float64 or int32"""
    from sedfitter.source import Source
    if rep in (None, 'float64'):
        return pk.make_source(tag, s['flags'], s['flux'], s['err'])
    src = Source()
    src.name = tag
    src.x = 0.
    src.y = 0.
    flags, flux, err = list(s['flags']), list(s['flux']), list(s['err'])
    if rep in ('int64', 'int32', 'bigendian_int32'):
        dt = {'int64': np.int64, 'int32': np.int32, 'bigendian_int32': '>i4'}[rep]
        src.valid = np.array(flags, dtype=dt)
        src.flux = np.array([int(v) for v in flux], dtype=dt)
        src.error = np.array([int(v) for v in err], dtype=dt)
    elif rep == 'list_int':
        src.valid = flags
        src.flux = [int(v) for v in flux]
        src.error = [int(v) for v in err]
    elif rep == 'float32':
        src.valid = np.array(flags, dtype=int)
        src.flux = np.array(flux, dtype=np.float32)
        src.error = np.array(err, dtype=np.float32)
    elif rep == 'bigendian':
        src.valid = np.array(flags, dtype='>i8')
        src.flux = np.array(flux, dtype='>f8')
        src.error = np.array(err, dtype='>f8')
    elif rep == 'readonly':
        src.valid = np.array(flags, dtype=int)
        src.flux = np.array(flux, dtype=float)
        src.error = np.array(err, dtype=float)
        for a in (src.valid, src.flux, src.error):
            a.setflags(write=False)
    elif rep == 'list_float':
        src.valid = flags
        src.flux = [float(v) for v in flux]
        src.error = [float(v) for v in err]
    elif rep == 'tuple_float':
        src.valid = tuple(flags)
        src.flux = tuple(float(v) for v in flux)
        src.error = tuple(float(v) for v in err)
    elif rep == 'valid_float':
        src.valid = np.array(flags, dtype=float)
        src.flux = np.array(flux, dtype=float)
        src.error = np.array(err, dtype=float)
    elif rep == 'valid_int32':
        src.valid = np.array(flags, dtype=np.int32)
        src.flux = np.array(flux, dtype=float)
        src.error = np.array(err, dtype=float)
    elif rep in ('valid_uint8', 'valid_uint16', 'valid_int8'):
        src.valid = np.array(flags, dtype={'valid_uint8': np.uint8, 'valid_uint16': np.uint16, 'valid_int8': np.int8}[rep])
        src.flux = np.array(flux, dtype=float)
        src.error = np.array(err, dtype=float)
    elif rep == 'route_dict':
        base = pk.make_source(tag, flags, flux, err)
        src = Source.from_dict(base.to_dict())
    elif rep == 'route_copy':
        import copy
        src = copy.copy(pk.make_source(tag, flags, flux, err))
    elif rep == 'route_deepcopy':
        import copy
        src = copy.deepcopy(pk.make_source(tag, flags, flux, err))
    elif rep == 'route_pickle':
        import pickle
        src = pickle.loads(pickle.dumps(pk.make_source(tag, flags, flux, err), 2))
    elif rep == 'route_attributes_reordered':
        # error first, then flux, then valid (the setters check lengths against whatever is already there)
        src.error = np.array(err, dtype=float)
        src.flux = np.array(flux, dtype=float)
        src.valid = np.array(flags, dtype=int)
    elif rep == 'noncontiguous':
        src.valid = np.array([[f, 7] for f in flags], dtype=int)[:, 0]
        src.flux = np.array([[v, -1.] for v in flux], dtype=float)[:, 0]
        src.error = np.array([[v, -1.] for v in err], dtype=float)[:, 0]
    else:
        raise ValueError(rep)
    return src


def integerised(s):
    """the source with whole-number content (what a catalogue of integer mJy fluxes holds): flag-1 flux and error >= 1, limits
    with confidence 0 or 1, flag-4 bands with whole-number log flux and log error 1, ignored bands whole numbers or -999"""
    flux, err = [], []
    for f, x, e in zip(s['flags'], s['flux'], s['err']):
        if f == 1:
            flux.append(float(max(1, round(x)))); err.append(float(max(1, round(e))))
        elif f in (2, 3):
            flux.append(float(max(1, round(x)))); err.append(float(round(e)))
        elif f == 4:
            flux.append(float(round(x))); err.append(1.)
        else:
            ok = math.isfinite(x) and math.isfinite(e) and abs(x) < 1e9 and abs(e) < 1e9
            flux.append(float(round(x)) if ok else -999.); err.append(float(round(e)) if ok else -999.)
    return dict(flags=list(s['flags']), flux=flux, err=err)


def fit_rep(fitter, s, rep, tag='rep'):
    src = make_source_rep(tag, s, rep)
    with common.quiet():
        return pk.fit_arrays(fitter.fit(src))


def representation_checks(fitter, S, vi, cond, branches, masked=False):
    """the same photometry held in other representations.  returns (violates, detail) or (None, None).
    * float values in big-endian / read-only / list / tuple / strided arrays, `valid` as float64 or int32: bit-identical
    * float32 arrays: the float64 source holding the float32-rounded values, within a float32 budget
    * whole-number content in int64 / int32 / big-endian int32 arrays and lists of ints: bit-identical to the float64 source
      with the same values; if not, the statement's clause (c) is evaluated for the integer-held source against its
      flag-4 twin (which necessarily is a float array)"""
    ref = fit_rep(fitter, S, None)
    k0 = (vi * 5 + len(S['flags'])) % len(FLOAT_REPS)
    for rep in (FLOAT_REPS[k0], FLOAT_REPS[(k0 + 3) % len(FLOAT_REPS)], FLOAT_REPS[(k0 + 8) % len(FLOAT_REPS)]):
        branches.add('rep_' + rep)
        content, refr = S, ref
        try:
            if rep == 'route_ascii':
                # the data-file route of sedfitter.fit: one line in the fitter data format, parsed by Source.from_ascii.  The
                # format keeps 4 significant digits, so the reference is a plain source holding the PARSED values
                from sedfitter.source import Source
                if not all(math.isfinite(v) for v in S['flux'] + S['err']):
                    continue
                obj = Source.from_ascii(pk.make_source('asc', S['flags'], S['flux'], S['err']).to_ascii())
                content = dict(flags=[int(v) for v in obj.valid], flux=[float(v) for v in obj.flux],
                               err=[float(v) for v in obj.error])
                if c_singular_values(content) or content['flags'] != list(S['flags']):
                    continue
                refr = fit_rep(fitter, content, None)
                with common.quiet():
                    got = pk.fit_arrays(fitter.fit(obj))
            else:
                got = fit_rep(fitter, S, rep)
        except Exception as e:
            return True, 'Fitter.fit raised %s: %s for the source %r held as / reached through %s' % (type(e).__name__, e, S, rep)
        diff = same_bits(refr, got)
        if diff:
            # which clause of the statement fails for the source as held: the limit arithmetic (d)/(e) on its own result
            err, _ = arithmetic(content, got, set(), masked=masked)
            if err:
                return True, ('the source %r held as / reached through %s: %s (plain float64 / int64 arrays with the same values: no '
                              'such failure)' % (content, rep, err))
            return None, ('the source %r held as / reached through %s is fitted differently from the same values in plain arrays: %s'
                          % (content, rep, diff))
    # float32
    branches.add('rep_float32')
    S32 = dict(flags=S['flags'], flux=[float(np.float32(v)) for v in S['flux']], err=[float(np.float32(v)) for v in S['err']])
    if all(math.isfinite(v) for v in S32['flux'] + S32['err']) and not any(
            f in (1, 2, 3) and x <= 0 or f in (1, 4) and e == 0 for f, x, e in zip(S32['flags'], S32['flux'], S32['err'])):
        r64 = fit_rep(fitter, S32, None)
        try:
            r32 = fit_rep(fitter, S32, 'float32')
        except Exception as e:
            return True, 'Fitter.fit raised %s: %s for the source %r held as float32' % (type(e).__name__, e, S32)
        # float32 evaluation of log10 and of sigma/F: every log flux / log error moves by a few float32 ulps
        lv = [v for v in log_values(S32) if v is not None]
        d32 = 2. ** -22 * (1. + max([abs(v[0]) for v in lv] + [1.]))
        sw = sum(1. / v[1] ** 2 for f, v in zip([f for f in S32['flags'] if f in (1, 2, 3, 4)], lv) if f in (1, 4))
        ia, ib = by_name(r64), by_name(r32)
        for n in ia:
            c = float(r64['chi2'][ia[n]])
            if not math.isfinite(c) or c >= 1e29:
                continue
            lv_all = log_values(S32)
            pred = r64['model_fluxes'][ia[n]]
            if any(f in (2, 3) and abs(pred[j] - lv_all[j][0]) < 1e-5 * (1. + abs(lv_all[j][0]))
                   for j, f in enumerate(S32['flags'])):
                continue        # a limit decided within float32 rounding of its threshold
            rel_le = 2. ** -22
            bud = 4. * (2. * math.sqrt(abs(c) * sw) * d32 + sw * d32 ** 2 + 2. * rel_le * abs(c)) + 1e-9
            if abs(float(r32['chi2'][ib[n]]) - c) > bud * max(1., cond):
                return None, ('the source %r held as float32 gives chi2 = %r for model %s, float64 arrays with the same values give '
                              '%r (float32 budget %.3g)' % (S32, float(r32['chi2'][ib[n]]), n, c, bud * max(1., cond)))
    # whole-number content
    SI = integerised(S)
    if c_singular_values(SI):
        return None, None
    refi = fit_rep(fitter, SI, None)
    for rep in (INT_REPS[vi % len(INT_REPS)], INT_REPS[(vi + 1) % len(INT_REPS)]):
        branches.add('rep_' + rep)
        try:
            got = fit_rep(fitter, SI, rep)
        except Exception as e:
            return True, 'Fitter.fit raised %s: %s for the source %r held as %s' % (type(e).__name__, e, SI, rep)
        diff = same_bits(refi, got)
        if diff:
            # clause (c) of the statement for the integer-held source: its flag-4 twin must give the same fit
            twin = dict(flags=[4 if f == 1 else f for f in SI['flags']],
                        flux=[transform(x, e)[0] if f == 1 else x for f, x, e in zip(SI['flags'], SI['flux'], SI['err'])],
                        err=[transform(x, e)[1] if f == 1 else e for f, x, e in zip(SI['flags'], SI['flux'], SI['err'])])
            t = fit_rep(fitter, twin, None)
            ok_float = same_info(refi, t, 1e-6) is None
            bad_int = same_info(got, t, 1e-6)
            if 1 in SI['flags'] and ok_float and bad_int:
                return True, ('(c) the flag-1 source %r held as %s and its flag-4 twin %r give different fits: %s (the same values '
                              'in float64 arrays agree with the twin)' % (SI, rep, twin, bad_int))
            return None, ('the source %r held as %s is fitted differently from the same values in float64 arrays: %s'
                          % (SI, rep, diff))
    return None, None


def c_singular_values(s):
    """whole-number content that is no longer a valid source (cannot happen with integerised(): kept as a guard)"""
    return any(f in (1, 2, 3) and x <= 0 or f in (1, 4) and e == 0 for f, x, e in zip(s['flags'], s['flux'], s['err']))


def run_fit(fitter, s, tag):
    src = pk.make_source(tag, s['flags'], s['flux'], s['err'])
    before = (src.valid.copy(), src.flux.copy(), src.error.copy())
    with common.quiet():
        info = fitter.fit(src)
    a = pk.fit_arrays(info)
    a['n_data'] = int(src.n_data)
    a['untouched'] = (np.array_equal(before[0], src.valid) and np.array_equal(before[1], src.flux, equal_nan=True)
                      and np.array_equal(before[2], src.error, equal_nan=True))
    return a


def same_bits(a, b):
    """None if two results are identical bit for bit (NaN-aware), else a description"""
    for k in ('av', 'sc', 'chi2', 'model_fluxes'):
        if not np.array_equal(np.asarray(a[k]), np.asarray(b[k]), equal_nan=True):
            return '%s: %r vs %r' % (k, np.asarray(a[k]).tolist(), np.asarray(b[k]).tolist())
    if a['name'] != b['name']:
        return 'ranking: %r vs %r' % (a['name'], b['name'])
    return None


def reassignments(S):
    """contents to re-assign on ONE Source object between fits: (what is assigned, new content).  Only re-interpretations that
    keep every non-ignored band valid: a fitted band switched off (1 -> 0, 4 -> 9), lower <-> upper limit, 0 <-> 9,
    linear -> log10 (1 -> 4); fluxes / errors of flag-1 bands and fluxes of limits rescaled"""
    flags = list(S['flags'])
    v1 = list(flags)
    for j, f in enumerate(flags):
        if f in (1, 4):
            v1[j] = 0 if f == 1 else 9
            break
    swap = {2: 3, 3: 2, 0: 9, 9: 0}
    v2 = [swap.get(f, f) for f in flags]
    for j, f in enumerate(flags):
        if f == 1 and S['err'][j] > 0:
            v2[j] = 4
            break
    f2 = [x * 1.5 if f in (1, 2, 3) else x for x, f in zip(S['flux'], flags)]
    e2 = [x * 2. if f == 1 else x for x, f in zip(S['err'], flags)]
    cur = dict(flags=flags, flux=list(S['flux']), err=list(S['err']))
    steps = []
    for what, upd in (('valid', dict(flags=v1)), ('flux', dict(flux=f2)), ('error', dict(err=e2)),
                      ('valid', dict(flags=v2)), ('combined', dict(flags=flags, flux=list(S['flux']), err=list(S['err']))),
                      ('valid', dict(flags=v1))):
        cur = dict(cur); cur.update(upd)
        steps.append((what, upd, dict(flags=list(cur['flags']), flux=list(cur['flux']), err=list(cur['err']))))
    return steps


def same_object_history(fitter, S, branches):
    """fit -> re-assign valid / flux / error on the SAME Source object -> fit: every fit must equal, bit for bit, the fit of a
    fresh Source carrying the same content (the flags / values in force are the ones the object holds now)"""
    obj = pk.make_source('obj', S['flags'], S['flux'], S['err'])
    with common.quiet():
        got = pk.fit_arrays(fitter.fit(obj))
    diff = same_bits(run_fit(fitter, S, 'fresh'), got)
    if diff:
        return 'first fit of the object differs from a fresh source: ' + diff
    hist = ['fit']
    for what, upd, content in reassignments(S):
        if 'flags' in upd:
            obj.valid = np.array(upd['flags'], dtype=int)
        if 'flux' in upd:
            obj.flux = np.array(upd['flux'], dtype=float)
        if 'err' in upd:
            obj.error = np.array(upd['err'], dtype=float)
        hist.append('assign ' + what)
        branches.add('same_object_' + what)
        with common.quiet():
            got = pk.fit_arrays(fitter.fit(obj))
        hist.append('fit')
        ref = run_fit(fitter, content, 'fresh')
        diff = same_bits(ref, got)
        if diff:
            return ('history %r on one Source object (started as %r): the last fit differs from the fit of a fresh Source holding '
                    'the same content %r: %s' % (hist, S, content, diff))
    return None


def same_num(x, y, tol):
    x = float(x); y = float(y)
    if math.isnan(x) or math.isnan(y):
        return math.isnan(x) and math.isnan(y)
    if math.isinf(x) or math.isinf(y):
        return x == y
    return abs(x - y) <= tol * (1. + abs(y))


def by_name(a):
    return {n: i for i, n in enumerate(a['name'])}


def same_info(a, b, tol, fields=('av', 'sc', 'chi2', 'model_fluxes')):
    """None if the two results agree for every model, else a description"""
    ia, ib = by_name(a), by_name(b)
    if sorted(ia) != sorted(ib) or len(ia) != len(a['name']):
        return 'model names differ: %r vs %r' % (a['name'], b['name'])
    for n in sorted(ia):
        for f in fields:
            if f == 'model_fluxes':
                ra, rb = a[f][ia[n]], b[f][ib[n]]
                if not all(same_num(x, y, tol) for x, y in zip(ra, rb)):
                    return 'model %s: predicted fluxes %r vs %r' % (n, ra.tolist(), rb.tolist())
            elif not same_num(a[f][ia[n]], b[f][ib[n]], tol):
                return 'model %s: %s = %r vs %r' % (n, f, float(a[f][ia[n]]), float(b[f][ib[n]]))
    return None


def ranked(a):
    c = a['chi2']
    if np.any(np.isnan(c)):
        return True
    return bool(np.all(c[:-1] <= c[1:]))


def penalty(c):
    if c == 1.:
        return 1e30
    return -2. * math.log(1. - c)


def log_values(s):
    """(lf, le) per band as the documentation defines them (None where the band is ignored)"""
    out = []
    for f, x, e in zip(s['flags'], s['flux'], s['err']):
        if f == 1:
            out.append(transform(x, e))
        elif f == 4:
            out.append((x, e))
        elif f in (2, 3):
            out.append((float(np.log10(np.array([x], dtype=np.float64))[0]), e))
        else:
            out.append(None)
    return out


def arithmetic(s, a, branches, tie_name=None, mode='', masked=False):
    """(e)/(d): chi2 reported = fitted squares + penalties of the limits on whose forbidden side the reported
    predicted fluxes lie.  returns (error or None, n_relaxed)"""
    lv = log_values(s)
    relaxed = 0
    for row, nme in enumerate(a['name']):
        pred = a['model_fluxes'][row]
        if not np.all(np.isfinite(pred)):
            return 'model %s: predicted fluxes not finite: %r' % (nme, pred.tolist()), relaxed
        exp = 0.
        skip = False
        hard = False
        # a constructed tie counts as exact only if the code reproduced the model bit for bit: A_V (and scale) exactly 0 and
        # every predicted log flux equal to the source's (numpy's vectorised log10 is not guaranteed to round alike on
        # arrays of different shape; when it does not, this is an ordinary near-tie and is skipped as a margin case)
        exact = (nme == tie_name and float(a['av'][row]) == 0. and float(a['sc'][row]) == 0.
                 and all(lv[j] is None or pred[j] == lv[j][0] for j in range(len(lv))))
        for j, f in enumerate(s['flags']):
            if f in (1, 4):
                exp += ((lv[j][0] - pred[j]) / lv[j][1]) ** 2
            elif f in (2, 3):
                lf, conf = lv[j]
                if nme == tie_name and exact:
                    # constructed tie: the reported model lies EXACTLY on the limit (every quantity is exactly 0 in float
                    # arithmetic), which is not the forbidden side: no penalty, and no margin to hide behind
                    branches.add('exact_tie_' + mode)
                    branches.add('limit_ok')
                    continue
                if abs(pred[j] - lf) < 1e-9 * (1. + abs(lf)):
                    skip = True
                    break
                viol = (pred[j] < lf) if f == 2 else (pred[j] > lf)
                if viol:
                    branches.add('limit_violated')
                    exp += penalty(conf)
                    if conf == 1.:
                        hard = True
                        branches.add('conf1_violated')
                else:
                    branches.add('limit_ok')
        if skip:
            relaxed += 1
            continue
        got = float(a['chi2'][row])
        if masked and got == float('inf'):
            continue        # remove_resolved: every trial distance of this model is removed
        if hard:
            # the property promises chi2 >= 1e30 here and nothing more precise
            if not got >= 1e30:
                return ('model %s violates a limit of confidence 1 but chi2 = %r < 1e30 (predicted %r, source %r)'
                        % (nme, got, pred.tolist(), s)), relaxed
            continue
        if not same_num(got, exp, 1e-8):
            return ('model %s: chi2 = %r but fitted squares + penalties of violated limits = %r (predicted %r, source %r)'
                    % (nme, got, exp, pred.tolist(), s)), relaxed
    return None, relaxed


def for_model(s):
    """the source as sent to the driver: ignored bands (flags 0, 9) carry zeros - the model never reads them (theorem
    C03_ignored) and infinities / NaN have no rational form"""
    keep = [f not in (0, 9) for f in s['flags']]
    return dict(flags=list(s['flags']), flux=[x if k else 0. for x, k in zip(s['flux'], keep)],
                err=[x if k else 0. for x, k in zip(s['err'], keep)])


def nonsingular_indep(case, s):
    return not c01.singular(case, s)


def nonsingular_dist(case, s):
    tw = np.array(case['tab_w']); tc = np.array(case['tab_chi'])
    for f, w in zip(s['flags'], case['wavs']):
        if f in (1, 4) and np.interp(w, tw, tc, left=0., right=0.) != 0.:
            return True
    return False


def check_mode(case, mode, fitter, names, use_model, branches, stats):
    """all checks of one mode; returns CaseResult on failure, None when everything agrees"""
    lo, hi = case['av']
    for vi, src in enumerate(case['sources']):
        vs = variants(src)
        S = vs['S']
        tie_name = names[src['tie']['m']] if 'tie' in src else None
        for f in S['flags']:
            branches.add('flag%d' % f)
        if any(f == 1 and e > x for f, x, e in zip(S['flags'], S['flux'], S['err'])):
            branches.add('low_snr')
        for j, f in enumerate(S['flags']):
            if f in (0, 9):
                for ign in (src['ign_a'][j], src['ign_b'][j]):
                    if ign[0] <= 0:
                        branches.add('nonpositive_ignored')
                    if ign[0] == -999.:
                        branches.add('placeholder_ignored')
                    if ign[0] == 0. and ign[1] != 0. and not math.isnan(ign[1]):
                        branches.add('ignored_zero_flux_nonzero_err_flag%d' % f)
                    if ign[0] == 0. and ign[1] == 0.:
                        branches.add('ignored_zero_flux_zero_err')
                    if math.isinf(ign[0]) or math.isinf(ign[1]):
                        branches.add('ignored_inf')
                    if math.isnan(ign[0]) or math.isnan(ign[1]):
                        branches.add('ignored_nan')
                    if any(x != 0 and not math.isinf(x) and (abs(x) >= 1e300 or abs(x) <= 1e-300) for x in ign):
                        branches.add('ignored_huge_tiny')
            if f in (2, 3):
                c = src['lim'][j][1]
                branches.add('conf0' if c == 0. else 'conf1' if c == 1. else 'conf_mid')
        regular = nonsingular_indep(case, S) if mode == 'indep' else nonsingular_dist(case, S)
        if regular:
            stats['regular'] += 1
        else:
            branches.add('singular')
        res = {}
        for k, s in vs.items():
            try:
                res[k] = run_fit(fitter, s, 'v%d_%s' % (vi, k))
            except Exception as e:
                return CaseResult(False, violates=True, branches=branches,
                                  detail='%s mode: Fitter.fit raised %s: %s on source %r' % (mode, type(e).__name__, e, s))
            if not res[k]['untouched']:
                # purity is C11's clause: reported as a broken correspondence, the verdict is not C03's
                return CaseResult(False, violates=None, branches=branches,
                                  detail='%s mode: Fitter.fit modified the source %r (C11)' % (mode, s))
            if res[k]['n_data'] != sum(1 for f in s['flags'] if f in (1, 4)):
                # the count itself is used by the selectors of C05
                return CaseResult(False, violates=None, branches=branches,
                                  detail='n_data = %d for flags %r (C05)' % (res[k]['n_data'], s['flags']))
        A = res['S']
        if sorted(A['name']) != sorted(names):
            return CaseResult(False, violates=True, branches=branches, detail='model names %r' % (A['name'],))
        # same Source object re-used with re-assigned valid / flux / error
        err = same_object_history(fitter, S, branches)
        if err:
            return CaseResult(False, violates=True, branches=branches, detail='%s mode, flags %r: %s' % (mode, S['flags'], err))

        def fail(what, other, diff):
            return CaseResult(False, violates=True, branches=branches,
                              detail='%s mode, flags %r, %s: results differ: %s\n source A = %r\n source B = %r\n '
                                     'A: av=%r sc=%r chi2=%r names=%r\n B: av=%r sc=%r chi2=%r names=%r'
                                     % (mode, S['flags'], what, diff, vs[other[0]], vs[other[1]],
                                        res[other[0]]['av'].tolist(), res[other[0]]['sc'].tolist(),
                                        res[other[0]]['chi2'].tolist(), res[other[0]]['name'],
                                        res[other[1]]['av'].tolist(), res[other[1]]['sc'].tolist(),
                                        res[other[1]]['chi2'].tolist(), res[other[1]]['name']))

        # (a) ignored content
        if 'ignored' in res:
            branches.add('pair_ignored')
            R = res['benign']
            if regular and not (np.all(np.isfinite(R['av'])) and np.all(np.isfinite(R['sc']))
                                and not np.any(np.isnan(R['chi2']))):
                return CaseResult(False, violates=True, branches=branches,
                                  detail='%s mode: non-finite result on a well-posed source with ordinary values on its '
                                         'ignored bands %r: av=%r sc=%r chi2=%r'
                                         % (mode, vs['benign'], R['av'].tolist(), R['sc'].tolist(), R['chi2'].tolist()))
            for k in ('S', 'ignored'):
                diff = same_info(R, res[k], 1e-12)
                if diff:
                    return fail('(a) other values on flag 0/9 bands', ('benign', k), diff)
        # The next two pairs come straight from the statement and are applied to EVERY source, well-posed or not, NaN-aware:
        # paired sources go through the same arithmetic, so even a degenerate result (one fitted band: NaN / rounding noise)
        # must come out the same.  With NO fitted band at all chi2 is excluded: on the unchanged tree it is 0.0 when every band
        # is flagged 0 (chi_squared forces flag-0 terms to zero) and NaN as soon as a limit or a flag-9 band is present
        # (0 * NaN), e.g. flags [0,0,0] vs [0,9,0]: chi2 0.0 vs nan in both modes - a fit without data, reported, not judged.
        n_fitted = sum(1 for f in S['flags'] if f in (1, 4))
        branches.add('n_fitted_%s' % (n_fitted if n_fitted < 3 else '3plus'))
        fields = ('av', 'sc', 'chi2', 'model_fluxes') if n_fitted > 0 else ('av', 'sc')
        # With remove_resolved=True the documented rule removes (model, distance) cells that are resolved in any band with
        # valid > 0: a limit (whatever its confidence) and a plot-only band count, an unused band does not.  There (b) and
        # (a') compare sources whose removal masks legitimately differ, and are not applied.
        masked = (mode == 'dist' and bool(case.get('resolved')))
        # (b) confidence 0 == flag 0
        if 'conf0' in res and not masked:
            branches.add('pair_conf0' if regular else 'pair_conf0_singular')
            diff = same_info(res['conf0'], res['limits_off'], 1e-12, fields=fields)
            if diff:
                return fail('(b) limits with confidence 0 vs the same bands flagged 0', ('conf0', 'limits_off'), diff)
        # (a') a band flagged 0 vs the same band flagged 9: neither may influence anything
        if 'swap09' in res and not masked:
            branches.add('pair_swap09' if regular else 'pair_swap09_singular')
            diff = same_info(A, res['swap09'], 1e-12, fields=fields)
            if diff:
                return fail("(a') flags 0 and 9 exchanged on the ignored bands", ('S', 'swap09'), diff)
        if not regular:
            continue
        # everything below needs a well-posed fit
        if not np.all(np.isfinite(A['av'])) or not np.all(np.isfinite(A['sc'])) or np.any(np.isnan(A['chi2'])):
            return CaseResult(False, violates=True, branches=branches,
                              detail='%s mode: non-finite result on a well-posed source %r: av=%r sc=%r chi2=%r'
                                     % (mode, S, A['av'].tolist(), A['sc'].tolist(), A['chi2'].tolist()))
        cond = 1.
        exp = None
        if mode == 'indep':
            branches.add('indep_' + case.get('fmt', 'files'))
        if mode == 'indep' and use_model:
            exp = c01.model_side(case, for_model(S))
            cond = max([1.] + [e['cond'] for e in exp])
            if case.get('fmt') == 'cube_wav_memmap':
                # float32 model fluxes: the paired runs below share one fitter and stay comparable to rounding; the
                # comparison with the exact model under a float32 budget is C07's
                exp = None
        elif mode == 'indep':
            cond = 1e3
        # (c) flag 1 <-> flag 4
        for k in ('to4', 'to1'):
            if k in res:
                branches.add('pair_flag4')
                if masked and vs[k]['flags'][case['steep_band']] != S['flags'][case['steep_band']]:
                    branches.add('pair_flag4_on_resolving_band')
                diff = same_info(A, res[k], 1e-12 * max(1., cond))
                if diff:
                    return fail('(c) flag-1 bands vs flag-4 bands carrying the transformed values', ('S', k), diff)
        # (d), (e) arithmetic on the reported predicted fluxes
        for k in ('S', 'conf0', 'limits_off', 'to4', 'to1'):
            if k in res:
                err, rel = arithmetic(vs[k], res[k], branches, tie_name=tie_name, mode=mode, masked=masked)
                stats['relaxed'] += rel
                if err:
                    return CaseResult(False, violates=True, branches=branches, detail='%s mode, (d)/(e): %s' % (mode, err))
                if not ranked(res[k]):
                    # ranking is C04's clause
                    return CaseResult(False, violates=None, branches=branches,
                                      detail='%s mode: chi2 not sorted: %r (C04)' % (mode, res[k]['chi2'].tolist()))
        # near-ties: limits placed 1e-6 / 3e-6 dex on either side of what a model predicts (well outside the 1e-9 margin of the
        # arithmetic check, so the exact comparison decides): the penalty must be there on the forbidden side and only there
        if 'limits_off' in res and not masked and tie_name is None:
            off = res['limits_off']
            row0 = 0
            pred0 = off['model_fluxes'][row0]
            if np.all(np.isfinite(pred0)) and np.all(np.abs(pred0) < 200.):
                for rnd, deltas in enumerate(([1e-6, -1e-6, 3e-6, -3e-6], [-1e-6, 1e-6, -3e-6, 3e-6])):
                    near = dict(flags=list(S['flags']), flux=list(S['flux']), err=list(S['err']))
                    for j, f in enumerate(S['flags']):
                        if f in (2, 3):
                            dlt = deltas[j % 4]
                            near['flux'][j] = float(10. ** (float(pred0[j]) + dlt))
                            near['err'][j] = 0.9 if S['err'][j] in (0., 1.) else S['err'][j]
                            forb = (dlt > 0) if f == 2 else (dlt < 0)
                            branches.add('near_tie_forbidden_side' if forb else 'near_tie_allowed_side')
                    rn = run_fit(fitter, near, 'near')
                    err, rel = arithmetic(near, rn, branches, mode=mode)
                    stats['relaxed'] += rel
                    if err:
                        return CaseResult(False, violates=True, branches=branches,
                                          detail='%s mode, near-tie limits (1e-6 / 3e-6 dex from the prediction of model %s): %s'
                                                 % (mode, off['name'][row0], err))
        # representation of the photometry (dtype, byte order, writeability, container)
        viol, det = representation_checks(fitter, S, vi, cond, branches, masked=masked)
        if det:
            return CaseResult(False, violates=viol, branches=branches, detail='%s mode, flags %r: %s' % (mode, S['flags'], det))
        # limits never enter the least-squares solution
        if 'limits_off' in res:
            B = res['limits_off']
            ia, ib = by_name(A), by_name(B)
            if mode == 'indep':
                for n in names:
                    if not (same_num(A['av'][ia[n]], B['av'][ib[n]], 1e-12) and same_num(A['sc'][ia[n]], B['sc'][ib[n]], 1e-12)):
                        return fail('limits removed: (av, sc) must not change', ('S', 'limits_off'),
                                    'model %s: (av, sc) = (%r, %r) vs (%r, %r)'
                                    % (n, A['av'][ia[n]], A['sc'][ia[n]], B['av'][ib[n]], B['sc'][ib[n]]))
            for n in names:
                # penalties are >= 0 for confidences in [0, 1]: removing limits cannot raise chi2
                if float(B['chi2'][ib[n]]) > float(A['chi2'][ia[n]]) * (1 + 1e-12) + 1e-12:
                    return fail('limits removed: chi2 must not increase', ('S', 'limits_off'),
                                'model %s: chi2 %r -> %r' % (n, A['chi2'][ia[n]], B['chi2'][ib[n]]))
        # model correspondence (distance-independent mode)
        if exp is not None:
            branches.add('model_corr')
            for row, nme in enumerate(A['name']):
                e = exp[names.index(nme)]
                scale = 1. + abs(float(e['av'])) + abs(float(e['sc']))
                if nme == tie_name and e['margin'] == 0. and e['av'] == 0 and e['sc'] == 0:
                    # constructed tie that is exact on the model side too (log10 of 1 and 10 are exact in the driver):
                    # the model lies on the limit, not beyond it; its chi2 carries no penalty and is compared strictly
                    branches.add('exact_tie_model')
                    if e['chi2'] != 0:
                        return CaseResult(False, violates=None, branches=branches,
                                          detail='Lean model penalises a model lying exactly on a limit: chi2 = %r, source %r'
                                                 % (float(e['chi2']), S))
                elif e['margin'] < 1e-7 * scale:
                    stats['relaxed'] += 1
                    continue
                tol = 1e-9 * max(1., e['cond'])
                if float(e['chi2']) >= 1e30:
                    okc = float(A['chi2'][row]) >= 1e30
                else:
                    okc = common.close(A['chi2'][row], e['chi2'], max(tol, 1e-9) * 10)
                ok = common.close(A['av'][row], e['av'], tol) and common.close(A['sc'][row], e['sc'], tol) and okc
                if not ok:
                    det = ('indep mode, flags %r, model %s: impl (av, sc, chi2) = (%r, %r, %r); Lean model (av, sc, chi2) = '
                           '(%r, %r, %r); cond=%.3g margin=%.3g source=%r'
                           % (S['flags'], nme, A['av'][row], A['sc'][row], A['chi2'][row], float(e['av']), float(e['sc']),
                              float(e['chi2']), e['cond'], e['margin'], S))
                    return CaseResult(False, violates=None, branches=branches, detail=det)
    return None


def run_case(case, use_model=True):
    branches = set()
    stats = dict(regular=0, relaxed=0)
    dirs = []
    try:
        for mode, builder in (('indep', build_indep), ('dist', build_dist)):
            d = tempfile.mkdtemp(prefix='c03_')
            dirs.append(d)
            fitter, names = builder(case, d)
            branches.add('mode_' + mode)
            if mode == 'dist' and case.get('resolved'):
                branches.add('dist_remove_resolved')
                ext_mask = np.asarray(fitter.models.extended)
                if ext_mask.ndim == 3 and ext_mask[:, :, case['steep_band']].any():
                    branches.add('resolved_mask_on_steep_band')
                    if not ext_mask[:, :, [j for j in range(ext_mask.shape[2]) if j != case['steep_band']]].all(axis=2)[
                            ext_mask[:, :, case['steep_band']]].all():
                        branches.add('resolved_cells_only_in_steep_band')
                d2 = tempfile.mkdtemp(prefix='c03_')
                dirs.append(d2)
                plain, _ = build_dist(case, d2, remove_resolved=False)
                for src in case['sources']:
                    s0 = variants(src)['S']
                    if same_bits(run_fit(fitter, s0, 'm'), run_fit(plain, s0, 'p')):
                        branches.add('resolved_changes_result')
            r = check_mode(case, mode, fitter, names, use_model, branches, stats)
            if r is not None:
                r.key = common.canon_hash(case)
                return r
        sample = dict(flag_vectors=[s['flags'] for s in case['sources']], n_models=len(case['models']),
                      av_range=case['av'], distance_range=case['drange'], source0=variants(case['sources'][0])['S'])
        return CaseResult(True, branches=branches, key=common.canon_hash(case), nontrivial=stats['regular'] > 0,
                          sample=sample, relaxed=stats['relaxed'])
    finally:
        for d in dirs:
            shutil.rmtree(d, ignore_errors=True)


# ----------------------------------------------------------------------------- falsifier

def search(seed, tier, disagreeing):
    """the property evaluated on the real code only (paired runs + penalty arithmetic), first on the disagreeing
    cases, then on the directed block and a sample of flag vectors"""
    found = []
    tried = 0
    pool = list(disagreeing)
    groups = vector_groups(seed, 'quick')
    for i, (vectors, dids) in enumerate(groups):
        pool.append(gen_case(case_rng(seed, PID + '/search', i), vectors, dids))
    pool.extend(tie_cases(seed, 'quick', stream=PID + '/search'))
    for case in pool:
        tried += 1
        try:
            r = run_case(case, use_model=False)
        except Exception as e:
            continue
        if not r.ok and r.violates:
            found.append((case, r.detail))
            if len(found) >= 3:
                break
    return found, tried


def shrink(case):
    """fewer flag vectors, then fewer models, while the case still fails"""
    def fails(c):
        try:
            r = run_case(c)
            return (not r.ok) and bool(r.violates)
        except Exception:
            return False
    cur = case
    if not fails(cur):
        return cur
    for i in range(len(cur['sources'])):
        c = dict(cur); c['sources'] = [cur['sources'][i]]
        if fails(c):
            cur = c
            break
    while len(cur['models']) > 1:
        c = dict(cur); c['models'] = cur['models'][:-1]; c['grow'] = cur['grow'][:-1]
        if fails(c):
            cur = c
        else:
            break
    return cur
