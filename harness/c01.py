"""C01 — best-fit (A_V, scale) is the constrained least-squares optimum (distance-independent mode).

Correspondence: random distance-independent packages (convolved-flux files written by the harness),
sources over all flag vectors, A_V ranges chosen to clamp low / high / not at all / lo==hi.
Real side: Fitter.fit(source) -> FitInfo.av/.sc/.chi2/.model_name.
Model side: driver op `fit2` = getAv ∘ logTransform ∘ mkPts ∘ fit2Full in exact rationals.
"""
import math
import os

import numpy as np

from . import common
from .common import CaseResult, rat, rats, case_rng, nice
from . import packages as pk

PID = 'C01'
RULE = ('cases = (package, extinction law, A_V range, sources) drawn from the quantifier of C01; a case is '
        'non-trivial when at least one model is fitted with >=2 fitted bands of distinct extinction coefficient; '
        'distinct = distinct canonical hash of the generated inputs')
COND_MAX = 1e10
REQUIRED_BRANCHES = ['filter_on_law_end_node', 'near_grey_law', 'signal_to_noise_below_0.05', 'law_route_attrs', 'law_route_file', 'law_route_file_swapped', 'law_route_file_03', 'law_route_file_21', 'law_route_copy', 'law_route_deepcopy', 'law_route_pickle', 'source_arrays_f8', 'source_arrays_list', 'source_arrays_int', 'source_arrays_be', 'source_arrays_readonly', 'tiny_model_flux', 'same_source_object_refitted', 'wav_filter_off_grid', 'rebuilt_in_place', 'wav_filter_other_unit', 'pkg_v1_mJy', 'pkg_v1_Jy', 'pkg_cube', 'pkg_cube_memmap', 'range_end_zero', 'law_other_unit', 'clamp_low', 'clamp_high', 'interior', 'lo_eq_hi', 'limit_violated', 'limit_ok', 'flag4', 'flag0or9']
ASSUMPTIONS = ['IEEE rounding is not modelled: comparison tolerance 1e-9 x condition number',
               'decisions closer than 1e-7 to their threshold are compared in relaxed mode',
               'regressions whose condition number exceeds 1e10 (nearly grey laws seen through nearly equal bands) are '
               'non-singular in exact arithmetic but not resolved by double precision: counted as relaxed, not compared',
               'the chi^2 tolerance includes the (A_V, scale) tolerance expressed in chi^2 (theorem C01_excess_bound)']
N = {'quick': 160, 'thorough': 12000}
FLAGS = [0, 1, 2, 3, 4, 9]


def gen_case(rng, directed=None):
    nb = rng.randint(2, 7)
    nm = rng.randint(1, 8)
    # filter wavelengths (micron), distinct
    wavs = sorted({nice(rng, 0.3, 100., 3) for _ in range(nb)})
    while len(wavs) < nb:
        wavs = sorted(set(wavs) | {nice(rng, 0.3, 100., 3)})
    rng.shuffle(wavs)
    # extinction table in increasing wavelength, covering V; sometimes not covering every filter
    nt = rng.randint(2, 12)
    lo_w = nice(rng, 0.05, 0.5, 2)
    hi_w = nice(rng, 1.0, 300., 2) if rng.random() < 0.8 else nice(rng, 0.6, 3., 2)
    # a share of laws end (or begin) exactly on a filter wavelength: a query on an end node of the table is inside it
    on_end = rng.random()
    if on_end < 0.12 and max(wavs) > 0.6:
        hi_w = max(wavs)
    elif on_end < 0.24 and min(wavs) < 0.5:
        lo_w = min(wavs)
    tw = sorted({lo_w, hi_w} | {nice(rng, lo_w, hi_w, 3) for _ in range(nt)})
    chi = [nice(rng, 1., 1e4, 3) for _ in tw]
    # a nearly grey law: opacities that differ by a few parts in 1e5 from node to node - the regression is still
    # well posed in double precision (the k of the fitted bands are distinct), only ill conditioned
    near_grey = (directed == 'near_grey') or (directed is None and rng.random() < 0.06)
    if near_grey:
        c0 = nice(rng, 10., 1e3, 3)
        dl = rng.choice([3e-5, 5e-5, 8e-5])
        chi = [c0 * (1. + dl * (len(tw) - j)) for j in range(len(tw))]
    models = [[nice(rng, 1e-3, 1e3, 4) for _ in range(nb)] for _ in range(nm)]
    # strictly positive but very small model fluxes (1e-14 .. 1e-8 mJy) are fluxes like any other: a whole band, a whole
    # model, or single entries
    tiny = rng.random()
    if tiny < 0.10:
        jt = rng.randrange(nb)
        for mf in models:
            mf[jt] = float('%.4g' % (mf[jt] * 10 ** -rng.randint(9, 15)))
    elif tiny < 0.20:
        it = rng.randrange(nm)
        models[it] = [float('%.4g' % (x * 10 ** -rng.randint(9, 15))) for x in models[it]]
    elif tiny < 0.30:
        for mf in models:
            for j in range(nb):
                if rng.random() < 0.2:
                    mf[j] = float('%.4g' % (mf[j] * 10 ** -rng.randint(9, 15)))
    if directed == 'near_grey':
        directed = 'interior'
    kind = directed or rng.choice(['interior', 'clamp_low', 'clamp_high', 'lo_eq_hi', 'wide', 'wide', 'zero_end'])
    a0 = round(rng.uniform(0.5, 12.), 2)
    # the law may be tabulated in any length unit (the filters' wavelengths are converted to it by the code)
    wav_unit = rng.choice(['micron', 'micron', 'nm', 'Angstrom', 'cm', 'm', 'mm'])
    if kind == 'interior' or kind == 'wide':
        av = [round(-rng.uniform(0, 40), 1), round(rng.uniform(20, 80), 1)]
    elif kind == 'clamp_low':
        av = [round(a0 * 3 + 10, 1), round(a0 * 3 + 10 + rng.uniform(0, 5), 1)]
    elif kind == 'clamp_high':
        av = [round(-30 - rng.uniform(0, 5), 1), round(-25., 1)]
    elif kind == 'zero_end':
        # ranges with an end at exactly 0 (A_V >= 0 is the natural physical bound)
        av = rng.choice([[0., 0.], [-round(rng.uniform(1, 30), 1), 0.], [0., round(rng.uniform(1, 30), 1)],
                         [-0., 0.], [0., 0.]])
    else:
        v = round(rng.uniform(0, 10), 1)
        av = [v, v]
    sources = []
    for si in range(rng.randint(3, 6)):
        flags = [rng.choice(FLAGS) for _ in range(nb)]
        # make sure >= 2 fitted points
        idx = list(range(nb))
        rng.shuffle(idx)
        for j in idx[:2]:
            if flags[j] not in (1, 4):
                flags[j] = rng.choice([1, 1, 4])
        m = rng.randrange(nm)
        sc0 = rng.uniform(-1, 1)
        flux, err = [], []
        # (near-grey law) the source is the model reddened by a large A_V with tiny errors, so that an A_V that is
        # not the optimum costs a large chi^2 although the coefficients of the bands differ by parts in 1e5 only
        a_pl = rng.uniform(10., 40.) if near_grey else 0.
        if near_grey:
            flags = [1 if f == 4 else f for f in flags]
        kk = [-0.4 * float(np.interp(w, tw, chi, left=0., right=0.)) / float(np.interp(0.55, tw, chi)) for w in wavs]
        lowsn = (not near_grey) and rng.random() < 0.15
        for j in range(nb):
            base = models[m][j] * 10 ** (-2 * sc0) * (10 ** (a_pl * kk[j]) if near_grey else 10 ** rng.uniform(-0.3, 0.3))
            f = float('%.4g' % base) if not near_grey else float(base)
            if flags[j] == 4:
                flux.append(float('%.4f' % math.log10(f)))
                err.append(nice(rng, 1e-3, 0.3, 2))
            elif flags[j] in (2, 3):
                flux.append(f)
                err.append(rng.choice([0., 0.5, 0.9, 0.99, 1., round(rng.random(), 2)]))
            else:
                flux.append(f)
                if near_grey:
                    err.append(float('%.3g' % (f * 1e-3)))
                elif lowsn and rng.random() < 0.5:
                    # signal-to-noise far below 1 (sigma/F of 30 .. 300): a small but non-zero weight and a finite,
                    # strongly bias-corrected log flux
                    err.append(float('%.3g' % (f * nice(rng, 30., 300., 2))))
                else:
                    err.append(float('%.3g' % (f * nice(rng, 1e-3, 0.5, 2))))
        # how the caller holds the photometry: float64 arrays, plain Python lists, integer arrays (whole-number fluxes
        # with fractional errors), big-endian arrays as they come out of FITS tables, read-only arrays
        rep = rng.choice(['f8', 'f8', 'list', 'int', 'int', 'be', 'readonly'])
        if rep == 'int':
            if 4 in flags or any(f < 0.5 or f > 1e15 for f in flux):
                rep = 'list'
            else:
                flux = [float(round(f)) for f in flux]
        sources.append(dict(flags=flags, flux=flux, err=err, rep=rep))
    # how the model fluxes reach the fitter: convolved-flux files in mJy or Jy (version 1), or a cube package fitted at
    # tabulated wavelengths (version 2; with use_memmap the fluxes are held as float32)
    pkg = rng.choice(['v1_mJy', 'v1_mJy', 'v1_Jy', 'cube', 'cube_memmap'])
    # wavelength "filters" of a cube package may be given in any length unit
    filt_units = [rng.choice(['micron', 'micron', 'nm', 'Angstrom', 'mm', 'cm']) for _ in wavs]
    # a share of cases first builds and fits a DIFFERENT package in the same directory (a package regenerated in
    # place within one process), so that anything remembered across packages by path would show
    rebuild = rng.random() < 0.25
    # ... and need not coincide with a tabulated wavelength: the nearest slice is used, while the extinction
    # coefficient is evaluated at the requested wavelength.  Offsets stay well inside half the gap to the next
    # tabulated wavelength.
    allw = sorted(wavs + [min(wavs) / 3., max(wavs) * 3.])
    req = []
    for w in wavs:
        gap = min(abs(w - x) for x in allw if x != w)
        off = rng.choice([0., 0., 0.3, -0.3, 0.1, -0.45]) * gap
        req.append(float('%.6g' % (w + off)))
    law_route = rng.choice(['attrs', 'attrs', 'file', 'file_swapped', 'file_03', 'file_21', 'copy', 'deepcopy', 'pickle'])
    if near_grey:
        av = [0., 60.]
    return dict(near_grey=bool(near_grey), law_route=law_route, req_wavs=req, kind=kind, wavs=wavs, tab_w=tw, tab_chi=chi, wav_unit=wav_unit, models=models, av=av, sources=sources,
                pkg=pkg, filt_units=filt_units, rebuild=rebuild)


def source_as(src, name):
    """the Source with its arrays held the way the case says (`rep`); the numbers are the same in every
    representation, so the model side is unaffected"""
    from sedfitter.source import Source
    rep = src.get('rep', 'f8')
    if rep == 'f8':
        return pk.make_source(name, src['flags'], src['flux'], src['err'])
    s = Source()
    s.name = name
    s.x, s.y = 0., 0.
    if rep == 'list':
        s.valid, s.flux, s.error = [int(f) for f in src['flags']], [float(x) for x in src['flux']], [float(x) for x in src['err']]
    elif rep == 'int':
        s.valid = np.array(src['flags'], dtype=np.int32)
        s.flux = np.array([int(x) for x in src['flux']], dtype=np.int64)
        s.error = np.array(src['err'], dtype=float)
    elif rep == 'be':
        s.valid = np.array(src['flags'], dtype='>i2')
        s.flux = np.array(src['flux'], dtype='>f8')
        s.error = np.array(src['err'], dtype='>f8')
    else:
        a, b, c = np.array(src['flags'], dtype=int), np.array(src['flux'], dtype=float), np.array(src['err'], dtype=float)
        for arr in (a, b, c):
            arr.flags.writeable = False
        s.valid, s.flux, s.error = a, b, c
    return s


def law_as(case, tab, unit, d):
    """the extinction law reaching the Fitter through one of the public routes: attributes assigned on an empty object,
    `Extinction.from_file` (text file with extra columns, wavelength / opacity picked with `columns=`, units given as
    options), the same object after a copy / pickle round trip.  `repr()` of a float round-trips, so every route holds
    the same numbers."""
    import copy, pickle
    from astropy import units as u
    from sedfitter.extinction import Extinction
    route = case.get('law_route', 'attrs')
    if route.startswith('file'):
        # columns: (wavelength column, opacity column) among 2..4 columns; the others hold decoys
        ncol, cw, cc = {'file': (2, 0, 1), 'file_swapped': (2, 1, 0), 'file_03': (4, 0, 3), 'file_21': (3, 2, 1)}[route]
        path = os.path.join(d, 'law.txt')
        with open(path, 'w') as f:
            for i, (w, c) in enumerate(zip(tab, case['tab_chi'])):
                row = [repr(float(7 + i * 3 + j)) for j in range(ncol)]
                row[cw], row[cc] = repr(float(w)), repr(float(c))
                f.write(' '.join(row) + '\n')
        ext = Extinction.from_file(path, columns=(cw, cc), wav_unit=unit) if (cw, cc) != (0, 1) or unit != u.micron \
            else Extinction.from_file(path)
        os.remove(path)
        return ext
    ext = pk.make_extinction(tab, case['tab_chi'], wav_unit=unit)
    if route == 'copy':
        return copy.copy(ext)
    if route == 'deepcopy':
        return copy.deepcopy(ext)
    if route == 'pickle':
        return pickle.loads(pickle.dumps(ext))
    return ext


def fitter_wavs(case):
    """the filter wavelengths in micron as the fitter derives them (a wavelength filter given in another unit is
    converted to micron when stored in Models.wavelengths)"""
    from astropy import units as u
    if case.get('pkg', '').startswith('cube') and case.get('filt_units'):
        req = case.get('req_wavs') or case['wavs']
        return [float((w * u.micron).to(u.Unit(un)).to(u.micron).value) for w, un in zip(req, case['filt_units'])]
    return [float(w) for w in case['wavs']]


def fluxes_mJy(case):
    """the float64 model fluxes in mJy as the code derives them from what the package stores"""
    from astropy import units as u
    if case.get('pkg') == 'v1_Jy':
        return [[float((float('%.4g' % (x / 1000.)) * u.Jy).to(u.mJy).value) for x in mf] for mf in case['models']]
    return [[float(x) for x in mf] for mf in case['models']]


def table_in_unit(case):
    """the law's wavelength column, V = 0.55 micron and the filter wavelengths, each expressed in the unit the
    table is tabulated in, converted by astropy exactly as Extinction.get_av does (floats)"""
    from astropy import units as u
    unit = u.Unit(case.get('wav_unit', 'micron'))
    tab = (np.array(case['tab_w'], dtype=float) * u.micron).to(unit).value
    v = float(([0.55] * u.micron).to(unit).value[0])
    w = (np.array(fitter_wavs(case), dtype=float) * u.micron).to(unit).value
    return unit, [float(x) for x in tab], v, [float(x) for x in w]


def gen_cases(seed, tier):
    n = N[tier]
    directed = ['interior', 'clamp_low', 'clamp_high', 'lo_eq_hi', 'zero_end', 'zero_end', 'zero_end', 'zero_end',
                'near_grey', 'near_grey', 'near_grey']
    for i in range(n):
        rng = case_rng(seed, PID, i)
        yield gen_case(rng, directed[i] if i < len(directed) else None)


def build(case, scratch_dir):
    from astropy import units as u
    nm = len(case['models'])
    names = ['m%03d' % i for i in range(nm)]
    d = scratch_dir
    pkg = case.get('pkg', 'v1_mJy')
    unit, tab, _, _ = table_in_unit(case)
    ext = law_as(case, tab, unit, d)
    if pkg.startswith('cube'):
        # cube package whose tabulated wavelengths are the filters' (plus two more), one aperture, stored in
        # increasing or decreasing wavelength; fitted at wavelengths given instead of filter names
        extra = [min(case['wavs']) / 3., max(case['wavs']) * 3.]
        allw = sorted(case['wavs'] + extra, reverse=(len(case['wavs']) % 2 == 0))
        val = np.zeros((nm, 1, len(allw)))
        for i in range(nm):
            for jj, w in enumerate(allw):
                val[i, 0, jj] = case['models'][i][case['wavs'].index(w)] if w in case['wavs'] else 1. + i + jj
        pk.write_cube_package(d, names, allw, val, val * 0.1, apertures_au=[100.], aperture_dependent=False)
        units = case.get('filt_units') or ['micron'] * len(case['wavs'])
        fnames = [(w * u.micron).to(u.Unit(un)) for w, un in zip(case.get('req_wavs') or case['wavs'], units)]
        fitter = pk.make_fitter(d, fnames, [1.] * len(fnames), ext, case['av'], use_memmap=(pkg == 'cube_memmap'))
        return fitter, names
    pk.write_conf(d, aperture_dependent=False)
    fnames = []
    for j, w in enumerate(case['wavs']):
        fn = 'F%d' % j
        fnames.append(fn)
        if pkg == 'v1_Jy':
            pk.write_convolved(d, fn, w, names, [[float('%.4g' % (case['models'][i][j] / 1000.))] for i in range(nm)],
                               [[0.] for _ in range(nm)], apertures_au=None, unit=u.Jy)
        else:
            pk.write_convolved(d, fn, w, names, [[case['models'][i][j]] for i in range(nm)],
                               [[0.] for _ in range(nm)], apertures_au=None)
    fitter = pk.make_fitter(d, fnames, [1.] * len(fnames), ext, case['av'])
    return fitter, names


def f32_budget(case, src, e):
    """bounds on the change of (av, sc, chi2) of one model when its fluxes are held as float32 (`use_memmap=True`):
    the flux is rounded to float32 and np.log10 of a float32 array is evaluated in float32, so each model log flux moves
    by at most d32; av and sc are linear in the residuals with the sensitivities of the normal equations"""
    _, _, v, wq = table_in_unit(case)
    _, tab, _, _ = table_in_unit(case)
    k = -0.4 * np.interp(wq, tab, case['tab_chi'], left=0., right=0.) / np.interp(v, tab, case['tab_chi'])
    fl = np.array(src['flags']); F = np.array(src['flux'], float); E = np.array(src['err'], float)
    w = np.zeros(len(fl))
    r1 = fl == 1
    w[r1] = (np.log(10.) / np.abs(E[r1] / F[r1])) ** 2
    r4 = fl == 4
    w[r4] = 1. / E[r4] ** 2
    lmax = max(abs(math.log10(x)) for mf in fluxes_mJy(case) for x in mf)
    d32 = 2. ** -24 * (1. / np.log(10.) + 3. * lmax)
    m11, m12, m22 = np.sum(k * k * w), np.sum(k * -2. * w), np.sum(4. * w)
    det = m11 * m22 - m12 * m12
    tav = float(np.sum(np.abs(m22 * k + m12 * 2.) * w) / det)
    tsc = float(np.sum(np.abs(m11 * -2. - m12 * k) * w) / det)
    dav, dsc = 2. * d32 * tav, 2. * d32 * tsc
    dres = d32 + dav * float(np.max(np.abs(k))) + 2. * dsc       # shift of any residual-minus-model term
    sw = float(np.sum(w))
    c = abs(float(e['chi2']))
    dchi = 2. * (2. * math.sqrt(c * sw) * dres + sw * dres ** 2)
    return dav, dsc, dchi, dres


def weights_and_kmax(case, src):
    """(sum of the fitting weights, largest |k| over the bands) of one source, for the chi^2 form of the rounding budget"""
    _, tab, v, wq = table_in_unit(case)
    k = -0.4 * np.interp(wq, tab, case['tab_chi'], left=0., right=0.) / np.interp(v, tab, case['tab_chi'])
    fl = np.array(src['flags']); F = np.array(src['flux'], float); E = np.array(src['err'], float)
    w = np.zeros(len(fl))
    r1 = fl == 1
    w[r1] = (np.log(10.) / np.abs(E[r1] / F[r1])) ** 2
    r4 = fl == 4
    w[r4] = 1. / E[r4] ** 2
    return float(np.sum(w)), float(np.max(np.abs(k)))


def model_side(case, src):
    drv = common.driver()
    nb = len(case['wavs'])
    _, tab, v, wq = table_in_unit(case)
    line = ['fit2', rat(case['av'][0]), rat(case['av'][1]), rat(v), str(len(tab))]
    for w, c in zip(tab, case['tab_chi']):
        line += [rat(w), rat(c)]
    line.append(rats(wq))
    line.append(str(nb))
    for f, x, e in zip(src['flags'], src['flux'], src['err']):
        if f in (0, 9) and not (math.isfinite(x) and math.isfinite(e)):
            # inf / NaN have no rational form; an ignored band's values do not reach the model's fit at all
            # (theorem C03_ignored), so zeros are sent in their place
            x, e = 0., 0.
        line += [str(f), rat(x), rat(e)]
    mfs = fluxes_mJy(case)
    line.append(str(len(mfs)))
    for mf in mfs:
        line.append(rats(mf))
    t = drv.ask(' '.join(line))
    n = t.nat()
    out = []
    for _ in range(n):
        av = t.rat(); sc = t.rat(); c2 = t.rat(); marg = t.rat(); cond = t.rat(); pred = t.rats()
        out.append(dict(av=av, sc=sc, chi2=c2, margin=float(marg), cond=float(cond), pred=pred))
    return out


def singular(case, src):
    """True when the case falls outside C01's quantifier (fewer than 2 fitted bands with distinct k)"""
    import numpy as np
    ext_w = np.array(case['tab_w']); ext_c = np.array(case['tab_chi'])
    ks = set()
    for f, w in zip(src['flags'], fitter_wavs(case)):
        if f in (1, 4):
            k = np.interp(w, ext_w, ext_c, left=0., right=0.)
            ks.add(round(float(k), 12))
    if len(ks) < 2:
        return True
    # non-singular in exact arithmetic, but is it in double precision?  relative determinant of the normal matrix of
    # the fitted bands (weights as the code forms them); below 1e-10 the determinant is lost to cancellation
    _, tab, v, wq = table_in_unit(case)
    k = -0.4 * np.interp(wq, tab, case['tab_chi'], left=0., right=0.) / np.interp(v, tab, case['tab_chi'])
    fl = np.array(src['flags']); F = np.array(src['flux'], float); E = np.array(src['err'], float)
    w = np.zeros(len(fl))
    r1 = fl == 1
    with np.errstate(all='ignore'):
        w[r1] = (np.log(10.) / np.abs(E[r1] / F[r1])) ** 2
        r4 = fl == 4
        w[r4] = 1. / E[r4] ** 2
        m11, m12, m22 = np.sum(k * k * w), np.sum(k * -2. * w), np.sum(4. * w)
        rel = (m11 * m22 - m12 * m12) / (m11 * m22) if m11 * m22 > 0 else 0.
    return not (rel > 1e-10)


def run_case(case):
    import tempfile
    d = tempfile.mkdtemp(prefix='c01_')
    branches = set()
    relaxed = 0
    try:
        if case.get('rebuild'):
            decoy = dict(case)
            decoy['models'] = [[float('%.4g' % (x * (1.7 + 0.3 * ((i + j) % 5)))) for j, x in enumerate(mf)][::-1]
                               for i, mf in enumerate(case['models'])][::-1]
            f0, _ = build(decoy, d)
            s0 = case['sources'][0]
            with common.quiet():
                f0.fit(pk.make_source('decoy', s0['flags'], s0['flux'], s0['err']))
            del f0
            branches.add('rebuilt_in_place')
        fitter, names = build(case, d)
        lo, hi = case['av']
        if lo == hi:
            branches.add('lo_eq_hi')
        if case.get('pkg', '').startswith('cube') and any(un != 'micron' for un in case.get('filt_units', [])):
            branches.add('wav_filter_other_unit')
        if case.get('pkg', '').startswith('cube') and case.get('req_wavs') and case['req_wavs'] != case['wavs']:
            branches.add('wav_filter_off_grid')
        if lo == 0 or hi == 0:
            branches.add('range_end_zero')
        if case.get('wav_unit', 'micron') != 'micron':
            branches.add('law_other_unit')
        if any(x < 1e-8 for mf in case['models'] for x in mf):
            branches.add('tiny_model_flux')
        branches.add('law_route_' + case.get('law_route', 'attrs'))
        if case.get('near_grey'):
            branches.add('near_grey_law')
        if case.get('wav_unit', 'micron') == 'micron' and (case['tab_w'][0] in fitter_wavs(case) or case['tab_w'][-1] in fitter_wavs(case)):
            branches.add('filter_on_law_end_node')
        if any(f == 1 and e > 20. * abs(x) for sr in case['sources'] for f, x, e in zip(sr['flags'], sr['flux'], sr['err'])):
            branches.add('signal_to_noise_below_0.05')
        nontrivial = False
        for si, src in enumerate(case['sources']):
            if singular(case, src):
                continue
            nontrivial = True
            s = source_as(src, 's%d' % si)
            branches.add('source_arrays_' + src.get('rep', 'f8'))
            with common.quiet():
                info = fitter.fit(s)
                # the same Source OBJECT fitted again must give the same result (the first fit must not have
                # touched the object it was given); compared below through `got` being taken from the SECOND fit
                # for every other source
                if si % 2 == 1:
                    info = fitter.fit(s)
                    branches.add('same_source_object_refitted')
            got = pk.fit_arrays(info)
            exp = model_side(case, src)
            wsum_kmax = weights_and_kmax(case, src)
            if sorted(got['name']) != sorted(names):
                return CaseResult(False, detail='model names differ: %r' % (got['name'],), violates=True)
            if any(f in (0, 9) for f in src['flags']):
                branches.add('flag0or9')
            if 4 in src['flags']:
                branches.add('flag4')
            for row, nme in enumerate(got['name']):
                e = exp[names.index(nme)]
                tol = 1e-9 * max(1., e['cond'])
                scale = 1. + abs(float(e['av'])) + abs(float(e['sc']))
                dav = dsc = dchi = 0.
                guard = 1e-7 * scale
                if case.get('pkg') == 'cube_memmap':
                    # float32 storage of the model fluxes: a larger rounding budget, and decisions are only
                    # compared when their margin is well above it
                    dav, dsc, dchi, dres = f32_budget(case, src, e)
                    guard = max(guard, 20. * max(dav, dres))
                # a decision (clamp, side of a limit) is only as firm as the residuals it rests on: inside its rounding
                # budget (A_V, scale) may move every residual by kmax*tav + 2*tsc (C01_excess_bound's quantity) - a
                # decision closer than that to its threshold is a margin case.  1e-8-ish unless ill conditioned.
                guard = max(guard, wsum_kmax[1] * tol * (1. + abs(float(e['av']))) + 2. * tol * (1. + abs(float(e['sc']))))
                if e['margin'] < guard:
                    relaxed += 1
                    continue
                if e['cond'] > COND_MAX:
                    # non-singular in exact arithmetic but beyond what double precision resolves (the normal equations
                    # lose cond * 2^-53 > 1e-6 of relative accuracy; the determinant may cancel to 0 -> NaN): counted,
                    # not compared.  Only the nearly grey laws get here.
                    relaxed += 1
                    branches.add('conditioning_beyond_double_precision')
                    continue
                av_m = float(e['av'])
                if lo < hi:
                    if av_m == lo:
                        branches.add('clamp_low')
                    elif av_m == hi:
                        branches.add('clamp_high')
                    else:
                        branches.add('interior')
                okav = abs(got['av'][row] - float(e['av'])) <= tol * (1. + abs(float(e['av']))) + dav
                oksc = abs(got['sc'][row] - float(e['sc'])) <= tol * (1. + abs(float(e['sc']))) + dsc
                # a deviation of (av, sc) inside its budget moves every residual by at most kmax*tav + 2*tsc, hence
                # chi^2 by at most sum(w) * (...)^2 beyond the optimum (the first-order term vanishes there) - the same
                # budget expressed in chi^2 (theorem SF.C01_excess_bound, Properties/C01Budget.lean, with qmax = 2);
                # negligible unless the regression is ill conditioned (near-grey laws)
                tav, tsc = tol * (1. + abs(float(e['av']))), tol * (1. + abs(float(e['sc'])))
                dchi_cond = wsum_kmax[0] * (wsum_kmax[1] * tav + 2. * tsc) ** 2
                okc2 = abs(got['chi2'][row] - float(e['chi2'])) <= max(tol, 1e-9) * 10 * (1. + abs(float(e['chi2']))) + dchi + dchi_cond
                if not (okav and oksc and okc2):
                    det = ('source %d model %s: impl (av, sc, chi2) = (%r, %r, %r); exact constrained optimum '
                           '(av, sc, chi2) = (%r, %r, %r); cond=%.3g margin=%.3g range=%r'
                           % (si, nme, got['av'][row], got['sc'][row], got['chi2'][row],
                              float(e['av']), float(e['sc']), float(e['chi2']), e['cond'], e['margin'], case['av']))
                    return CaseResult(False, detail=det, violates=True, branches=branches)
            # limit violated / ok histogram from the model side
            branches |= limit_branches(case, src, exp)
            branches.add('pkg_' + case.get('pkg', 'v1_mJy'))
        key = common.canon_hash(case)
        sample = dict(kind=case['kind'], n_models=len(case['models']), n_bands=len(case['wavs']),
                      av_range=case['av'], source0=case['sources'][0])
        return CaseResult(True, branches=branches, key=key, nontrivial=nontrivial, sample=sample, relaxed=relaxed)
    finally:
        import shutil
        shutil.rmtree(d, ignore_errors=True)


def limit_branches(case, src, exp):
    """which limit branches the model took (from the predicted fluxes it reports)"""
    out = set()
    for mi, e in enumerate(exp):
        for j, f in enumerate(src['flags']):
            if f in (2, 3):
                pred = float(e['pred'][j])
                lf = math.log10(src['flux'][j])
                viol = (pred < lf) if f == 2 else (pred > lf)
                out.add('limit_violated' if viol else 'limit_ok')
    return out


def shrink(case):
    """structural shrink: fewer sources, fewer models, while the case still fails"""
    cur = case
    def fails(c):
        try:
            return not run_case(c).ok
        except Exception:
            return True
    changed = True
    while changed:
        changed = False
        for i in range(len(cur['sources'])):
            if len(cur['sources']) > 1:
                c = dict(cur); c['sources'] = cur['sources'][:i] + cur['sources'][i + 1:]
                if fails(c):
                    cur = c; changed = True; break
        if changed:
            continue
        for i in range(len(cur['models'])):
            if len(cur['models']) > 1:
                c = dict(cur); c['models'] = cur['models'][:i] + cur['models'][i + 1:]
                if fails(c):
                    cur = c; changed = True; break
    return cur


# ----------------------------------------------------------------------------- falsifier (independent of the Lean model)

def property_holds(case):
    """Evaluate C01's statement directly on Fitter.fit's output with plain numpy/scipy:
    reported (av, sc) inside the range and not beaten by a bounded 1-D minimisation of the profile
    objective; reported chi2 = ssq + limit penalties at the reported point.  Returns (ok, detail)."""
    import tempfile, shutil
    from scipy.optimize import minimize_scalar
    d = tempfile.mkdtemp(prefix='c01f_')
    try:
        fitter, names = build(case, d)
        lo, hi = case['av']
        k = -0.4 * np.interp(fitter_wavs(case), case['tab_w'], case['tab_chi'], left=0., right=0.) \
            / np.interp(0.55, case['tab_w'], case['tab_chi'])
        for si, src in enumerate(case['sources']):
            if singular(case, src):
                continue
            s = source_as(src, 's%d' % si)
            with common.quiet():
                info = fitter.fit(s)
            got = pk.fit_arrays(info)
            fl = np.array(src['flags']); F = np.array(src['flux'], float); E = np.array(src['err'], float)
            lf = np.zeros(len(fl)); w = np.zeros(len(fl))
            r1 = fl == 1
            lf[r1] = np.log10(F[r1]) - 0.5 * (E[r1] / F[r1]) ** 2 / np.log(10.)
            w[r1] = 1. / (np.abs(E[r1] / F[r1]) / np.log(10.)) ** 2
            r4 = fl == 4
            lf[r4] = F[r4]; w[r4] = 1. / E[r4] ** 2
            r23 = (fl == 2) | (fl == 3)
            lf[r23] = np.log10(F[r23])
            for row, nme in enumerate(got['name']):
                mf = np.log10(np.array(fluxes_mJy(case)[names.index(nme)], float))
                res = lf - mf

                def ssq(a, sc):
                    return float(np.sum(w * (res - a * k + 2. * sc) ** 2))

                def prof(a):
                    sc = -np.sum(w * (res - a * k)) / (2. * np.sum(w))
                    return ssq(a, sc)
                av, sc, c2 = got['av'][row], got['sc'][row], got['chi2'][row]
                if not (lo - 1e-9 <= av <= hi + 1e-9):
                    return False, 'source %d model %s: reported A_V %r outside range %r' % (si, nme, av, case['av'])
                if lo < hi:
                    best = min(minimize_scalar(prof, bounds=(lo, hi), method='bounded',
                                               options=dict(xatol=1e-10)).fun, prof(lo), prof(hi))
                else:
                    best = prof(lo)
                mine = ssq(av, sc)
                tol = 1e-6 * (1. + abs(best))
                if mine > best + tol:
                    return False, ('source %d model %s: reported (av, sc) = (%r, %r) has weighted sum of squares %r, '
                                   'but %r is attainable inside the A_V range %r' % (si, nme, av, sc, mine, best, case['av']))
                pen = 0.
                m = av * k - 2. * sc
                for j in range(len(fl)):
                    if (fl[j] == 2 and m[j] < res[j]) or (fl[j] == 3 and m[j] > res[j]):
                        pen += 1e30 if E[j] == 1. else -2. * np.log(1. - E[j])
                if abs(c2 - (mine + pen)) > 1e-6 * (1. + abs(mine + pen)):
                    near = min(abs(m[j] - res[j]) for j in range(len(fl)) if fl[j] in (2, 3)) if r23.any() else 1.
                    if near > 1e-7:
                        return False, ('source %d model %s: reported chi2 %r != sum of squares %r + limit penalties %r at the '
                                       'reported (av, sc)' % (si, nme, c2, mine, pen))
        return True, ''
    finally:
        shutil.rmtree(d, ignore_errors=True)


def search(seed, tier, disagreeing):
    found = []
    tried = 0
    pool = list(disagreeing) + [gen_case(case_rng(seed + 7919, PID, i), None) for i in range(40 if tier == 'quick' else 300)]
    for c in pool:
        tried += 1
        try:
            ok, det = property_holds(c)
        except Exception as e:
            ok, det = False, 'implementation raised on in-domain input: %r' % (e,)
        if not ok:
            found.append((c, det))
            break
    return found, tried
