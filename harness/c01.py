"""C01 — best-fit (A_V, scale) is the constrained least-squares optimum (distance-independent mode).

Correspondence: random distance-independent packages (convolved-flux files written by the harness),
sources over all flag vectors, A_V ranges chosen to clamp low / high / not at all / lo==hi.
Real side: Fitter.fit(source) -> FitInfo.av/.sc/.chi2/.model_name.
Model side: driver op `fit2` = getAv ∘ logTransform ∘ mkPts ∘ fit2Full in exact rationals.
"""
import math
import os

import numpy as np

from . import common
from .common import CaseResult, rat, rats, case_rng, nice
from . import packages as pk

PID = 'C01'
RULE = ('cases = (package, extinction law, A_V range, sources) drawn from the quantifier of C01; a case is '
        'non-trivial when at least one model is fitted with >=2 fitted bands of distinct extinction coefficient; '
        'distinct = distinct canonical hash of the generated inputs')
REQUIRED_BRANCHES = ['clamp_low', 'clamp_high', 'interior', 'lo_eq_hi', 'limit_violated', 'limit_ok', 'flag4', 'flag0or9']
ASSUMPTIONS = ['IEEE rounding is not modelled: comparison tolerance 1e-9 x condition number',
               'decisions closer than 1e-7 to their threshold are compared in relaxed mode']
N = {'quick': 60, 'thorough': 1500}
FLAGS = [0, 1, 2, 3, 4, 9]


def gen_case(rng, directed=None):
    nb = rng.randint(2, 7)
    nm = rng.randint(1, 8)
    # filter wavelengths (micron), distinct
    wavs = sorted({nice(rng, 0.3, 100., 3) for _ in range(nb)})
    while len(wavs) < nb:
        wavs = sorted(set(wavs) | {nice(rng, 0.3, 100., 3)})
    rng.shuffle(wavs)
    # extinction table in increasing wavelength, covering V; sometimes not covering every filter
    nt = rng.randint(2, 12)
    lo_w = nice(rng, 0.05, 0.5, 2)
    hi_w = nice(rng, 1.0, 300., 2) if rng.random() < 0.8 else nice(rng, 0.6, 3., 2)
    tw = sorted({lo_w, hi_w} | {nice(rng, lo_w, hi_w, 3) for _ in range(nt)})
    chi = [nice(rng, 1., 1e4, 3) for _ in tw]
    models = [[nice(rng, 1e-3, 1e3, 4) for _ in range(nb)] for _ in range(nm)]
    kind = directed or rng.choice(['interior', 'clamp_low', 'clamp_high', 'lo_eq_hi', 'wide', 'wide'])
    a0 = round(rng.uniform(0.5, 12.), 2)
    if kind == 'interior' or kind == 'wide':
        av = [round(-rng.uniform(0, 40), 1), round(rng.uniform(20, 80), 1)]
    elif kind == 'clamp_low':
        av = [round(a0 * 3 + 10, 1), round(a0 * 3 + 10 + rng.uniform(0, 5), 1)]
    elif kind == 'clamp_high':
        av = [round(-30 - rng.uniform(0, 5), 1), round(-25., 1)]
    else:
        v = round(rng.uniform(0, 10), 1)
        av = [v, v]
    sources = []
    for si in range(rng.randint(3, 6)):
        flags = [rng.choice(FLAGS) for _ in range(nb)]
        # make sure >= 2 fitted points
        idx = list(range(nb))
        rng.shuffle(idx)
        for j in idx[:2]:
            if flags[j] not in (1, 4):
                flags[j] = rng.choice([1, 1, 4])
        m = rng.randrange(nm)
        sc0 = rng.uniform(-1, 1)
        flux, err = [], []
        for j in range(nb):
            base = models[m][j] * 10 ** (-2 * sc0) * 10 ** rng.uniform(-0.3, 0.3)
            f = float('%.4g' % base)
            if flags[j] == 4:
                flux.append(float('%.4f' % math.log10(f)))
                err.append(nice(rng, 1e-3, 0.3, 2))
            elif flags[j] in (2, 3):
                flux.append(f)
                err.append(rng.choice([0., 0.5, 0.9, 0.99, 1., round(rng.random(), 2)]))
            else:
                flux.append(f)
                err.append(float('%.3g' % (f * nice(rng, 1e-3, 0.5, 2))))
        sources.append(dict(flags=flags, flux=flux, err=err))
    return dict(kind=kind, wavs=wavs, tab_w=tw, tab_chi=chi, models=models, av=av, sources=sources)


def gen_cases(seed, tier):
    n = N[tier]
    directed = ['interior', 'clamp_low', 'clamp_high', 'lo_eq_hi']
    for i in range(n):
        rng = case_rng(seed, PID, i)
        yield gen_case(rng, directed[i] if i < len(directed) else None)


def build(case, scratch_dir):
    nm = len(case['models'])
    names = ['m%03d' % i for i in range(nm)]
    d = scratch_dir
    pk.write_conf(d, aperture_dependent=False)
    fnames = []
    for j, w in enumerate(case['wavs']):
        fn = 'F%d' % j
        fnames.append(fn)
        pk.write_convolved(d, fn, w, names, [[case['models'][i][j]] for i in range(nm)],
                           [[0.] for _ in range(nm)], apertures_au=None)
    ext = pk.make_extinction(case['tab_w'], case['tab_chi'])
    fitter = pk.make_fitter(d, fnames, [1.] * len(fnames), ext, case['av'])
    return fitter, names


def model_side(case, src):
    drv = common.driver()
    nb = len(case['wavs'])
    line = ['fit2', rat(case['av'][0]), rat(case['av'][1]), rat(0.55), str(len(case['tab_w']))]
    for w, c in zip(case['tab_w'], case['tab_chi']):
        line += [rat(w), rat(c)]
    line.append(rats(case['wavs']))
    line.append(str(nb))
    for f, x, e in zip(src['flags'], src['flux'], src['err']):
        line += [str(f), rat(x), rat(e)]
    line.append(str(len(case['models'])))
    for mf in case['models']:
        line.append(rats(mf))
    t = drv.ask(' '.join(line))
    n = t.nat()
    out = []
    for _ in range(n):
        av = t.rat(); sc = t.rat(); c2 = t.rat(); marg = t.rat(); cond = t.rat(); pred = t.rats()
        out.append(dict(av=av, sc=sc, chi2=c2, margin=float(marg), cond=float(cond), pred=pred))
    return out


def singular(case, src):
    """True when the case falls outside C01's quantifier (fewer than 2 fitted bands with distinct k)"""
    import numpy as np
    ext_w = np.array(case['tab_w']); ext_c = np.array(case['tab_chi'])
    ks = set()
    for f, w in zip(src['flags'], case['wavs']):
        if f in (1, 4):
            k = np.interp(w, ext_w, ext_c, left=0., right=0.)
            ks.add(round(float(k), 12))
    return len(ks) < 2


def run_case(case):
    import tempfile
    d = tempfile.mkdtemp(prefix='c01_')
    branches = set()
    relaxed = 0
    try:
        fitter, names = build(case, d)
        lo, hi = case['av']
        if lo == hi:
            branches.add('lo_eq_hi')
        nontrivial = False
        for si, src in enumerate(case['sources']):
            if singular(case, src):
                continue
            nontrivial = True
            s = pk.make_source('s%d' % si, src['flags'], src['flux'], src['err'])
            with common.quiet():
                info = fitter.fit(s)
            got = pk.fit_arrays(info)
            exp = model_side(case, src)
            if sorted(got['name']) != sorted(names):
                return CaseResult(False, detail='model names differ: %r' % (got['name'],), violates=True)
            if any(f in (0, 9) for f in src['flags']):
                branches.add('flag0or9')
            if 4 in src['flags']:
                branches.add('flag4')
            for row, nme in enumerate(got['name']):
                e = exp[names.index(nme)]
                tol = 1e-9 * max(1., e['cond'])
                scale = 1. + abs(float(e['av'])) + abs(float(e['sc']))
                if e['margin'] < 1e-7 * scale:
                    relaxed += 1
                    continue
                av_m = float(e['av'])
                if lo < hi:
                    if av_m == lo:
                        branches.add('clamp_low')
                    elif av_m == hi:
                        branches.add('clamp_high')
                    else:
                        branches.add('interior')
                # limit branches
                c2m = float(e['chi2'])
                for f in src['flags']:
                    if f in (2, 3):
                        branches.add('limit_ok')  # refined below through chi2 comparison
                if c2m >= 1e29 or any(f in (2, 3) for f in src['flags']):
                    pass
                okav = common.close(got['av'][row], e['av'], tol)
                oksc = common.close(got['sc'][row], e['sc'], tol)
                okc2 = common.close(got['chi2'][row], e['chi2'], max(tol, 1e-9) * 10, scale=1.)
                if not (okav and oksc and okc2):
                    det = ('source %d model %s: impl (av, sc, chi2) = (%r, %r, %r); exact constrained optimum '
                           '(av, sc, chi2) = (%r, %r, %r); cond=%.3g margin=%.3g range=%r'
                           % (si, nme, got['av'][row], got['sc'][row], got['chi2'][row],
                              float(e['av']), float(e['sc']), float(e['chi2']), e['cond'], e['margin'], case['av']))
                    return CaseResult(False, detail=det, violates=True, branches=branches)
            # limit violated / ok histogram from the model side
            for e in exp:
                pen = float(e['chi2'])
            branches |= limit_branches(case, src, exp)
        key = common.canon_hash(case)
        sample = dict(kind=case['kind'], n_models=len(case['models']), n_bands=len(case['wavs']),
                      av_range=case['av'], source0=case['sources'][0])
        return CaseResult(True, branches=branches, key=key, nontrivial=nontrivial, sample=sample, relaxed=relaxed)
    finally:
        import shutil
        shutil.rmtree(d, ignore_errors=True)


def limit_branches(case, src, exp):
    """which limit branches the model took (from the predicted fluxes it reports)"""
    out = set()
    for mi, e in enumerate(exp):
        for j, f in enumerate(src['flags']):
            if f in (2, 3):
                pred = float(e['pred'][j])
                lf = math.log10(src['flux'][j])
                viol = (pred < lf) if f == 2 else (pred > lf)
                out.add('limit_violated' if viol else 'limit_ok')
    return out


def shrink(case):
    """structural shrink: fewer sources, fewer models, while the case still fails"""
    cur = case
    def fails(c):
        try:
            return not run_case(c).ok
        except Exception:
            return True
    changed = True
    while changed:
        changed = False
        for i in range(len(cur['sources'])):
            if len(cur['sources']) > 1:
                c = dict(cur); c['sources'] = cur['sources'][:i] + cur['sources'][i + 1:]
                if fails(c):
                    cur = c; changed = True; break
        if changed:
            continue
        for i in range(len(cur['models'])):
            if len(cur['models']) > 1:
                c = dict(cur); c['models'] = cur['models'][:i] + cur['models'][i + 1:]
                if fails(c):
                    cur = c; changed = True; break
    return cur
