"""RES — the resolved-source rule (`remove_resolved=True`: "models larger than the aperture are removed") against the
Lean model (`Model/Resolved.lean`, op `resolved.fit`), and the three ways of holding the models against each other.

Real side: ONE set of model fluxes written twice — as a per-file package (version 1: `convolved/<filter>.fits` with an
aperture table) and as a cube package (version 2: `flux.fits`, fitted at tabulated wavelengths given as Quantities) —
and fitted through `Fitter(..., remove_resolved=True)` three times: per-file package, cube with `use_memmap=False`,
cube with `use_memmap=True` (the default of `Fitter` / `fit`).  Observables: `fitter.models.extended` (the mask
`[model, trial distance, filter]`) and `FitInfo.av / .sc / .chi2` per model name for every source.

Model side: one driver request (`resolved.fit`) with the arrays the harness wrote: the distance grid, per model and
band the radius `find_radius_sigma(0.5)` computes on the per-distance fluxes `F(theta d) (kpc/d)^2` over the grid
`theta d` reset to the largest tabulated aperture, the mask `theta d < radius`, per source the removed distances
(`any` over the bands with `valid > 0`), the masked first minimum (`fit3Ext`) and — to measure whether the option
matters — the unmasked C02 result (`fit3`), each with its decision margins.

Verdicts (`RESOLVED_VERDICT`): a disagreement between the real code and the model only is a broken correspondence
(`violates=None`).  A disagreement *between two real fits of the same fluxes* — memory-mapped vs in memory, per-file vs
cube — beyond the rounding budget, with all decision margins clear, is C07's own statement ("fits made from either,
memory-mapped or not, agree") failing on this input: `violates=True`.  So is a band with `valid = 0` changing the result
(`RES_unused_band`, checked metamorphically against a fitter built without that band).

Histories: the fitters of a case are built in the case's order and all stay alive; after every construction every fitter
alive is used again on every source and its mask is read again.  A share of the cases adds 1-3 further fitters of the same
fluxes and array shape (cube / per-file, memory-mapped or not, remove_resolved on or off, filters permuted), each compared
with the model for ITS option (option off = the plain C02 result, mask all False).  A fitter whose result or mask differs
from what it gave right after its own construction -> `violates=True` (C11 / C07: a result does not depend on history).
"""
import gc
import math
import os
import shutil
import tempfile

import numpy as np

from . import common
from .common import CaseResult, rat, rats, case_rng, nice
from . import packages as pk

from astropy import units as u   # noqa: E402

PID = 'RES'
# model-vs-implementation disagreements are reported as a broken correspondence of this stage, not as an input violating
# the host property; cross-implementation disagreements are reported with violates=True (see module docstring)
RESOLVED_VERDICT = None
RULE = ('cases = (one set of aperture-dependent model fluxes: 1-5 models, 2-4 bands, one table of 2-6 increasing apertures, '
        'fluxes growing with aperture with a per-segment power-law index drawn from compact (0.3-1.5) / mid (2.2-3.9) / '
        'steep (4.2-7); written as a per-file package AND as a cube package; aperture radii theta per band with theta*dmin '
        '>= 1.001 x the smallest aperture; theta*dmax inside / beyond / entirely beyond the table; distance range with 1-12 '
        'trial distances; extinction law; A_V range; 3 sources over the flags {0,1,2,3,4,9} planted from one model at a '
        'distance drawn from the NEAR half of the range, so that the unconstrained optimum often lies among the removed '
        'distances); every case is fitted with remove_resolved=True three times (per-file, cube in memory, cube '
        'memory-mapped). A case is non-trivial when at least one distance is removed for some source and model; '
        'distinct = distinct canonical hash of the generated inputs')
REQUIRED_BRANCHES = ['fmt_files', 'fmt_cube', 'memmap_on', 'memmap_off', 'mask_compared', 'mask_changes_result',
                     'mask_keeps_result', 'some_removed', 'none_removed', 'all_but_last_removed', 'first_distance_removed',
                     'unused_band_resolved', 'unused_band_dropped_same_fit', 'flag9_band_removes', 'radius_inside_loop',
                     'radius_last_aperture', 'beyond_table', 'entirely_beyond_table', 'single_distance', 'multi_distance',
                     'grid_dependence', 'best_first_kept', 'best_later_kept', 'cross_files_cube', 'cross_memmap',
                     'limit_band', 'clamped', 'unclamped',
                     # histories: several fitters of the same fluxes alive together, each used again after every construction
                     'refit_after_build_same', 'history', 'hist_option_mixed', 'hist_two_memmap_alive', 'hist_memmap_off_then_on',
                     'hist_memmap_on_then_off', 'hist_memmap_on_then_on', 'hist_memmap_on_then_on_permuted', 'hist_permuted_filters',
                     'hist_extra_per_file', 'hist_extra_in_memory', 'hist_main_built_after_extra', 'fitter_off_matches_unmasked',
                     'fitter_on_matches_masked']
# `all_removed` (every trial distance removed for a source: chi2 = +inf, index 0 reported) is NOT listed: theorem
# RES_fit_kept proves it unreachable for the code as written (the radius never exceeds theta*dmax, so the farthest trial
# distance is always kept).  If the model ever predicts it, or the real code ever reports chi2 = +inf, the case fails.
UNREACHABLE_BRANCHES = ['all_removed']
ASSUMPTIONS = ['IEEE rounding is not modelled: av / chi2 are compared with the budget of C02 (1e-9 x condition scale), sc with '
               '1e-9; the memory-mapped fit holds float32 model fluxes and is compared with the first-order float32 budget of '
               'C07 (f32_budget)',
               'the mask is computed in float64 in all three fits; it is compared cell by cell with the model where the '
               'decision margins are clear: |sigma_i - 0.5 max| >= 1e-7 x (magnitudes entering sigma_i and the maximum), '
               '|theta d - radius| >= 1e-7 x (radius + its rounding amplification), unclamped theta d not within 1e-9 of the '
               'largest aperture; otherwise the (model, band) is counted in margin_relaxed and skipped',
               'argmin over the kept distances, A_V clamp and limit side are compared only when their margin exceeds 1e-7 '
               '(float32 path: the float32 budget); ceil() of the grid length within 1e-7 of an integer is a margin case',
               'every tabulated flux is positive, the aperture table is increasing with >= 2 entries, theta*dmin is not below '
               'the smallest aperture (quantifier of C02); division by zero in the profile (two trial distances beyond the '
               'table) is modelled as IEEE does it (-inf), signed zeros are not',
               'fitter.models.extended is read as an observable (like fitter.models.distances / .fluxes in C02 / E2E3)']
TRUSTED_EXTRA = ['ConvolvedFluxes / SEDCube objects are built with sedfitter constructors; the model receives the float '
                 'arrays the harness handed to them']
N = {'quick': 200, 'thorough': 2000}
MARGIN = 1e-7
FLAGS = [1, 1, 1, 4, 4, 2, 3, 0, 9]


# ----------------------------------------------------------------------------- generation

def law_k(tw, chi, w):
    return -0.4 * float(np.interp(w, tw, chi, left=0., right=0.)) / float(np.interp(0.55, tw, chi))


def interp_ap(aps, row, x):
    return float(np.interp(min(x, aps[-1]), aps, row))


STYLES = {'compact': (0.3, 1.5), 'mid': (2.2, 3.9), 'steep': (4.2, 7.)}


def gen_row(rng, aps, style):
    f = [nice(rng, 1e-2, 1e2, 3)]
    for k in range(1, len(aps)):
        st = style if style != 'mixed' else rng.choice(['compact', 'mid', 'steep'])
        p = rng.uniform(*STYLES[st])
        f.append(float('%.4g' % (f[-1] * (aps[k] / aps[k - 1]) ** p)))
        if not f[-1] > f[-2]:
            f[-1] = float('%.4g' % (f[-2] * 1.05))
    return f


def gen_case(rng, directed=None):
    directed = dict(directed or {})
    if 'grid' in directed:
        return grid_case(directed['grid'])
    nb = directed.get('nb', rng.randint(2, 4))
    nm = directed.get('nm', rng.randint(1, 5))
    nap = directed.get('nap', rng.randint(2, 6))
    wavs = set()
    while len(wavs) < nb:
        wavs.add(nice(rng, 0.5, 100., 3))
    wavs = sorted(wavs)
    rng.shuffle(wavs)
    # extinction law: strictly decreasing opacity over a range covering every band (every k != 0, all distinct)
    tw = chi = None
    for attempt in range(100):
        tw_c = sorted({0.02, 9000.} | {nice(rng, 0.05, 5000., 3) for _ in range(rng.randint(3, 8))})
        top_c = nice(rng, 1e3, 1e5, 3)
        chi_c = sorted({float('%.3g' % (top_c * (w / 0.02) ** (-0.6) * 10 ** rng.uniform(-0.05, 0.05))) for w in tw_c}, reverse=True)
        if len(chi_c) != len(tw_c):
            continue
        tw, chi = tw_c, chi_c
        kk = [law_k(tw, chi, w) for w in wavs]
        if min([abs(a - b) for i, a in enumerate(kk) for b in kk[i + 1:]] or [1.]) >= 0.02:
            break
    if tw is None:
        tw = [0.02, 0.1, 0.55, 3., 30., 300., 9000.]
        chi = [float('%.3g' % (3e4 * (w / 0.02) ** -0.6)) for w in tw]
    ks = [law_k(tw, chi, w) for w in wavs]
    step = directed.get('step', rng.choice([0.05, 0.1, 0.15, 0.2, 0.3, nice(rng, 0.03, 0.3, 2)]))
    npts = directed.get('npts', rng.choice([1, 2, 3, 3, 4, 5, 6, 8, 10, 12]))
    dmin = nice(rng, 0.1, 10., 2)
    if npts == 1:
        dmax = dmin
    else:
        span = step * (npts - 1) * rng.uniform(0.55, 0.98)
        dmax = float('%.4g' % (dmin * 10 ** span))
        if dmax <= dmin:
            dmax = float('%.4g' % (dmin * 1.5))
    thetas = [nice(rng, 0.5, 30., 2) for _ in range(nb)]
    if directed.get('same_theta') or (not directed and rng.random() < 0.3):
        thetas = [thetas[0]] * nb
    akind = directed.get('akind', rng.choice(['inside', 'inside', 'beyond', 'beyond', 'mixed', 'all_beyond']))
    rmin = min(thetas) * dmin * 1000.
    rmax = max(thetas) * dmax * 1000.
    a0 = float('%.3g' % (rmin * rng.uniform(0.3, 0.95)))
    if not a0 * 1.001 <= rmin:
        a0 = rmin * 0.5
    if akind == 'all_beyond':
        # the whole table lies below theta*dmin: every trial distance is reset to the largest aperture
        a0 = float('%.3g' % (rmin * rng.uniform(0.05, 0.3)))
        top = rmin * rng.uniform(0.5, 0.9)
    elif akind == 'inside':
        top = rmax * rng.uniform(1.1, 2.5)
    elif akind == 'mixed':
        top = rmax * rng.uniform(0.5, 2.)
    else:
        top = rmin + (rmax - rmin) * rng.uniform(0.2, 0.8) if rmax > rmin * 1.2 else a0 * rng.uniform(1.5, 4.)
    top = max(top, a0 * 1.3)
    aps = [a0]
    for i in range(1, nap):
        aps.append(float('%.5g' % (a0 * (top / a0) ** (i / (nap - 1.)))))
    for i in range(1, nap):
        if aps[i] <= aps[i - 1]:
            aps[i] = float('%.6g' % (aps[i - 1] * 1.01))
    # which band plays the directed role (unused by the source / plot-only) and is steep while the others are compact
    special = rng.randrange(nb) if (directed.get('unused') or directed.get('flag9')) else None
    flux = []      # [band][model][aperture]
    for j in range(nb):
        rows = []
        for i in range(nm):
            if special is not None:
                style = 'steep' if j == special else 'compact'
            else:
                style = directed.get('style') or rng.choice(['compact', 'compact', 'mid', 'steep', 'mixed', 'mixed'])
            rows.append(gen_row(rng, aps, style))
        flux.append(rows)
    av_kind = directed.get('av', rng.choice(['wide', 'wide', 'wide', 'pos', 'narrow']))
    if av_kind == 'wide':
        av = [-round(rng.uniform(20, 60), 1), round(rng.uniform(20, 80), 1)]
    elif av_kind == 'pos':
        av = [0., float(rng.choice([5, 10, 20, 40]))]
    else:
        a = round(rng.uniform(0, 8), 1)
        av = [a, round(a + rng.uniform(0.1, 2.), 1)]
    sources = []
    for si in range(directed.get('nsrc', 3)):
        flags = [rng.choice(FLAGS) for _ in range(nb)]
        idx = list(range(nb))
        rng.shuffle(idx)
        for j in idx[:2]:
            if flags[j] not in (1, 4):
                flags[j] = rng.choice([1, 1, 4])
        if special is not None:
            flags = [rng.choice([1, 1, 4]) for _ in range(nb)]
            flags[special] = 0 if directed.get('unused') else 9
        m = rng.randrange(nm)
        # planted in the near half of the range (the removed distances are a prefix of the grid)
        frac = rng.choice([0., 0., rng.uniform(0., 0.5), rng.uniform(0., 0.5), rng.random()])
        d = dmin * (dmax / dmin) ** frac
        av0 = rng.uniform(max(av[0], -5.), min(av[1], 15.))
        noise = rng.choice([0.02, 0.1, 0.3])
        fl, er = [], []
        for j in range(nb):
            logf = math.log10(interp_ap(aps, flux[j][m], thetas[j] * d * 1000.) / d ** 2) + av0 * ks[j] + rng.gauss(0., noise)
            f = float('%.4g' % (10. ** logf))
            if flags[j] == 4:
                fl.append(float('%.4f' % logf))
                er.append(nice(rng, 1e-2, 0.3, 2))
            elif flags[j] in (2, 3):
                fl.append(float('%.4g' % (f * 10 ** rng.choice([-0.5, 0.5, -0.05, 0.05]))))
                er.append(rng.choice([0., 0.5, 0.9, 0.99, round(rng.random(), 2)]))
            elif flags[j] == 0:
                fl.append(rng.choice([f, 0., -999.]))
                er.append(rng.choice([0., -999., 1.]))
            elif flags[j] == 9:
                fl.append(f)
                er.append(float('%.3g' % (f * 0.1)))
            else:
                fl.append(f)
                er.append(float('%.3g' % (f * nice(rng, 1e-2, 0.5, 2))))
        sources.append(dict(flags=flags, flux=fl, err=er))
    # histories: further fitters of the same fluxes (same array shapes) alive together with the three main ones
    history, order = directed.get('history'), directed.get('order')
    if history is None and (directed.get('hist') or (not directed and rng.random() < 0.35)):
        history = []
        for _ in range(rng.choice([1, 1, 2, 2, 3])):
            perm = None
            if nb >= 2 and rng.random() < 0.4:
                perm = list(range(nb))
                while perm == list(range(nb)):
                    rng.shuffle(perm)
            history.append(dict(pkg=rng.choice(['cube', 'cube', 'cube', 'files']), memmap=rng.random() < 0.65,
                                rr=rng.random() < 0.5, perm=perm))
        order = list(range(3 + len(history)))
        rng.shuffle(order)
    if history:
        history = [dict(h, perm=(h.get('perm') if h.get('perm') != 'reverse' else list(range(nb))[::-1])) for h in history]
        for h in history:
            if h['pkg'] == 'files':
                h['memmap'] = False       # the per-file reader has no memory-mapped mode
    return dict(kind=directed.get('kind', 'random'), wavs=wavs, tab_w=tw, tab_chi=chi, thetas=thetas, aps=aps, flux=flux,
                dmin=dmin, dmax=dmax, step=step, av=av, sources=sources, akind=akind, special=special,
                unused=bool(directed.get('unused')), flag9=bool(directed.get('flag9')), history=history or None,
                order=order if history else None)


def grid_case(k):
    """the Lean `example` of Properties/Resolved.lean on the real code: theta = 1", table (200, 400, 800) AU with fluxes
    (1, 100, 10000) mJy, distance ranges 0.2-0.2, 0.2-0.4, 0.2-0.8 kpc (1, 2, 3 trial distances)"""
    dmax = [0.2, 0.4, 0.8, 0.8][k]
    src = dict(flags=[1, 1], flux=[25., 30.], err=[2.5, 3.])
    if k == 3:
        # "as coded vs as documented": a uniformly bright model (flux ~ aperture^2) whose own half-peak-brightness radius
        # is 800 AU; the code marks only the first of the apertures 200, 400, 800 AU
        return dict(kind='grid_dependence', wavs=[1., 10.], tab_w=[0.02, 0.55, 3., 30., 9000.], tab_chi=[3e4, 4e3, 1.5e3, 4e2, 10.],
                    thetas=[1., 1.], aps=[200., 400., 800.], flux=[[[100., 400., 1600.]], [[2., 150., 9000.]]],
                    dmin=0.2, dmax=0.8, step=0.35, av=[-20., 40.], sources=[src], akind='inside', special=None,
                    unused=False, flag9=False, expect_mask_band0=[True, False, False])
    return dict(kind='grid_dependence', wavs=[1., 10.], tab_w=[0.02, 0.55, 3., 30., 9000.], tab_chi=[3e4, 4e3, 1.5e3, 4e2, 10.],
                thetas=[1., 1.], aps=[200., 400., 800.], flux=[[[1., 100., 10000.]], [[2., 150., 9000.]]],
                dmin=0.2, dmax=dmax, step=0.35, av=[-20., 40.], sources=[src], akind='inside', special=None,
                unused=False, flag9=False, expect_mask_band0=[[False], [True, False], [True, True, False]][k])


DIRECTED = [dict(grid=0), dict(grid=1), dict(grid=2), dict(grid=3),
            dict(npts=1), dict(npts=1, akind='beyond'),
            dict(akind='all_beyond', npts=4), dict(akind='all_beyond', npts=2),
            dict(unused=True, npts=6, akind='inside', nb=3), dict(unused=True, npts=8, akind='inside', nb=4),
            dict(unused=True, npts=5, akind='mixed', nb=2),
            dict(flag9=True, npts=6, akind='inside', nb=3), dict(flag9=True, npts=8, akind='inside', nb=2),
            dict(style='steep', npts=6, akind='inside'), dict(style='steep', npts=4, akind='inside', av='pos'),
            dict(style='compact', npts=6, akind='inside'), dict(style='compact', npts=8, akind='beyond'),
            dict(style='mid', npts=10, akind='inside'), dict(style='mid', npts=6, akind='mixed', av='narrow'),
            dict(style='mixed', npts=12, akind='beyond'), dict(style='mixed', npts=3, akind='inside', nap=2),
            dict(style='mid', npts=2, akind='inside'), dict(style='steep', npts=5, akind='beyond', nap=6),
            # histories.  extra fitter = index 3..; main: 0 per-file, 1 cube in memory, 2 cube memory-mapped (option on)
            # a memory-mapped fitter with the option OFF is built and used, then the memory-mapped one with the option ON
            dict(style='mixed', npts=8, akind='inside', history=[dict(pkg='cube', memmap=True, rr=False, perm=None)], order=[3, 0, 1, 2]),
            dict(style='mid', npts=6, akind='inside', history=[dict(pkg='cube', memmap=True, rr=False, perm=None)], order=[3, 2, 1, 0]),
            # option ON, memory-mapped, then another memory-mapped one with the filters reversed; a source with an unused band
            dict(unused=True, npts=6, akind='inside', nb=3, history=[dict(pkg='cube', memmap=True, rr=True, perm='reverse')], order=[2, 3, 0, 1]),
            dict(unused=True, npts=8, akind='inside', nb=4, history=[dict(pkg='cube', memmap=True, rr=True, perm='reverse'),
                                                                      dict(pkg='cube', memmap=True, rr=False, perm=None)], order=[2, 3, 4, 1, 0]),
            dict(style='steep', npts=5, akind='inside', history=[dict(pkg='cube', memmap=True, rr=False, perm=None),
                                                                  dict(pkg='cube', memmap=False, rr=False, perm='reverse'),
                                                                  dict(pkg='files', memmap=False, rr=False, perm=None)], order=[2, 3, 4, 5, 0, 1]),
            dict(style='mixed', npts=10, akind='beyond', history=[dict(pkg='cube', memmap=True, rr=True, perm=None),
                                                                   dict(pkg='cube', memmap=True, rr=False, perm='reverse')], order=[3, 4, 2, 0, 1]),
            dict(flag9=True, npts=6, akind='inside', nb=3, history=[dict(pkg='cube', memmap=True, rr=False, perm='reverse')], order=[0, 1, 3, 2])]


def gen_cases(seed, tier):
    for i in range(N[tier]):
        rng = case_rng(seed, PID, i)
        d = DIRECTED[i] if i < len(DIRECTED) else None
        if d is None and rng.random() < 0.12:
            d = rng.choice([dict(unused=True), dict(flag9=True), dict(npts=1), dict(akind='all_beyond')])
        yield gen_case(rng, d)


# ----------------------------------------------------------------------------- real side

def names_of(case):
    return ['m%03d' % i for i in range(len(case['flux'][0]))]


def build_files(case, d, bands=None):
    names = names_of(case)
    nm = len(names)
    pk.write_conf(d, True, logd_step=case['step'])
    fnames = []
    for j in (bands if bands is not None else range(len(case['wavs']))):
        fn = 'F%d' % j
        fnames.append(fn)
        pk.write_convolved(d, fn, case['wavs'][j], names, case['flux'][j], [[0.] * len(case['aps'])] * nm,
                           apertures_au=case['aps'])
    return fnames


def build_cube(case, d):
    names = names_of(case)
    nm = len(names)
    nb = len(case['wavs'])
    wav = list(case['wavs']) + [max(case['wavs']) * 3.]     # one tabulated wavelength that is not fitted
    val = np.ones((nm, len(case['aps']), len(wav)))
    for j in range(nb):
        val[:, :, j] = np.array(case['flux'][j], dtype=float)
    pk.write_cube_package(d, names, wav, val, np.zeros_like(val), apertures_au=case['aps'], aperture_dependent=True,
                          logd_step=case['step'])


def cube_entries(case, bands=None):
    return [case['wavs'][j] * u.micron for j in (bands if bands is not None else range(len(case['wavs'])))]


def make_fitter(case, d, entries, ext, use_memmap, bands=None, remove_resolved=True):
    th = [case['thetas'][j] for j in (bands if bands is not None else range(len(case['wavs'])))]
    return pk.make_fitter(d, entries, th, ext, case['av'], (case['dmin'], case['dmax']),
                          use_memmap=use_memmap, remove_resolved=remove_resolved)


# the three fits every case compares; a history adds further fitters of the same fluxes (same array shapes), with the
# option on or off, memory-mapped or not, the filters in another order, all alive together
MAIN = [dict(tag='files', pkg='files', memmap=False, rr=True, perm=None),
        dict(tag='cube_mem', pkg='cube', memmap=False, rr=True, perm=None),
        dict(tag='cube_memmap', pkg='cube', memmap=True, rr=True, perm=None)]


def spec_name(sp):
    return '%s(%s package, use_memmap=%r, remove_resolved=%r%s)' % (sp['tag'], sp['pkg'], sp['memmap'], sp['rr'],
                                                                     ', filters in order %r' % sp['perm'] if sp['perm'] else '')


def fit_all(fitter, case, perm, names):
    """every source of the case through one fitter: [source] -> {model name: (av, sc, chi2)}"""
    out = []
    for si, src in enumerate(case['sources']):
        order = perm if perm else list(range(len(src['flags'])))
        s = pk.make_source('s%d' % si, [src['flags'][j] for j in order], [src['flux'][j] for j in order],
                           [src['err'][j] for j in order])
        with common.quiet():
            g = pk.fit_arrays(fitter.fit(s))
        if sorted(g['name']) != sorted(names):
            raise ValueError('model names %r; the package has %r' % (g['name'], names))
        out.append({n: (float(g['av'][r]), float(g['sc'][r]), float(g['chi2'][r])) for r, n in enumerate(g['name'])})
    return out


# ----------------------------------------------------------------------------- model side

def ef(tok):
    return float(tok) if tok in ('inf', '-inf', 'nan') else common.Fraction(tok)


def model_side(case):
    line = ['resolved.fit', rat(case['av'][0]), rat(case['av'][1]), rat(0.55), str(len(case['tab_w']))]
    for w, c in zip(case['tab_w'], case['tab_chi']):
        line += [rat(w), rat(c)]
    line.append(rats(case['wavs']))
    line.append(rats(case['thetas']))
    line.append(str(len(case['wavs'])))
    for j in range(len(case['wavs'])):
        line.append(rats(case['aps']))
        line.append(str(len(case['flux'][j])))
        for row in case['flux'][j]:
            line.append(rats(row))
    line += [rat(case['dmin']), rat(case['dmax']), rat(case['step'])]
    line.append(str(len(case['sources'])))
    for src in case['sources']:
        line.append(str(len(src['flags'])))
        for f, x, e in zip(src['flags'], src['flux'], src['err']):
            if f in (0, 9):
                x, e = 0., 0.          # never reach the fit (theorem C03_ignored); may be non-positive
            line += [str(f), rat(x), rat(e)]
    t = common.driver().ask(' '.join(line))
    if t.tok() == 'E':
        return dict(error=t.tok())
    nd = t.nat()
    out = dict(error=None, nd=nd, ceil_m=float(t.rat()), below_m=float(t.rat()), top_m=float(t.rat()),
               logd=[float(x) for x in t.rats()], models=[], srcs=[])
    for _ in range(t.nat()):
        bands = []
        for _ in range(t.nat()):
            b = dict(radius=ef(t.tok()), kind=t.nat(), sig_m=float(t.rat()), rad_m=float(t.rat()))
            b['mask'] = [t.tok() == '1' for _ in range(t.nat())]
            bands.append(b)
        out['models'].append(bands)
    for _ in range(t.nat()):
        rows = []
        for _ in range(t.nat()):
            r = dict(av=t.rat(), sc=t.rat(), chi2=ef(t.tok()), bi=t.nat(), gap=float(t.rat()),
                     av0=t.rat(), sc0=t.rat(), chi0=t.rat(), bi0=t.nat(), gap0=float(t.rat()), nrem=t.nat())
            r['reset'] = [t.tok() == '1' for _ in range(t.nat())]
            r.update(clamp_m=float(t.rat()), lim_m=float(t.rat()), av_scale=float(t.rat()), chi_scale=float(t.rat()),
                     fcond=float(t.rat()), dchi=float(t.rat()), dav=float(t.rat()))
            rows.append(r)
        out['srcs'].append(rows)
    if not t.done():
        raise common.DriverError('trailing tokens in resolved.fit answer')
    return out


# ----------------------------------------------------------------------------- comparison

def budgets(case, e, src, av_law, lmax, f32):
    """(tolerance on av, on chi2, relaxed?) for one model of one source: the budget of harness/c02.py; with float32 model
    fluxes the first-order budget of harness/c07.py `f32_budget` is added (as in harness/e2e3.py)"""
    lo, hi = case['av']
    c2 = float(e['chi2'])
    dr = 1e-13 * e['fcond']
    ctol = 1e-9 * (1. + abs(c2)) + 1e-13 * e['chi_scale'] + dr * e['dchi']
    ascale = 1. + abs(float(e['av'])) + e['av_scale'] + 1e9 * dr * e['dav']
    atol = 1e-9 * ascale
    if f32:
        d32 = 2. ** -24 * (1. / np.log(10.) + 3. * lmax)
        w = []
        for fl, x, er in zip(src['flags'], src['flux'], src['err']):
            if fl == 1:
                w.append((np.log(10.) * x / er) ** 2 if er != 0 else 0.)
            elif fl == 4:
                w.append(1. / er ** 2 if er != 0 else 0.)
            else:
                w.append(0.)
        w = np.array(w)
        k = np.abs(av_law)
        sw, skw, skkw = float(np.sum(w)), float(np.sum(k * w)), float(np.sum(k * k * w))
        atol += 2. * d32 * (skw / skkw if skkw > 0 else 0.)
        ctol += 2. * (2. * np.sqrt(abs(c2) * sw) * d32 + sw * d32 ** 2) + 1e-12
    relaxed = (e['gap'] < MARGIN * (1. + abs(c2)) + 100. * ctol or e['lim_m'] < MARGIN or
               (lo < hi and e['clamp_m'] < MARGIN * ascale + (100. * atol if f32 else 0.)))
    return atol, ctol, relaxed


def describe(case):
    return ('bands %r um, theta %r arcsec, aperture table %r AU, distance range [%r, %r] kpc, logd_step %r, A_V range %r, '
            'fluxes [band][model][aperture] %r' % (case['wavs'], case['thetas'], case['aps'], case['dmin'], case['dmax'],
                                                    case['step'], case['av'], case['flux']))


PATHS = [('files', 'fmt_files', False), ('cube_mem', 'fmt_cube', False), ('cube_memmap', 'fmt_cube', True)]


def run_case(case):
    d = tempfile.mkdtemp(prefix='res_')
    key = common.canon_hash(case)
    branches = set()
    relaxed = 0
    fitters = {}
    try:
        d1 = os.path.join(d, 'files')
        d2 = os.path.join(d, 'cube')
        os.makedirs(d1)
        os.makedirs(d2)
        names = names_of(case)
        nm, nb = len(names), len(case['wavs'])
        ext = pk.make_extinction(case['tab_w'], case['tab_chi'])
        with common.quiet():
            fnames = build_files(case, d1)
            build_cube(case, d2)
        exp = model_side(case)
        if exp['error'] is not None:
            return CaseResult(False, key=key, violates=RESOLVED_VERDICT,
                              detail='model refuses the package (%s) although theta*dmin >= 1.001 x the smallest aperture: %s'
                              % (exp['error'], describe(case)))
        # ---- the fitters: the three every case compares, plus the history's; built in the case's order, all kept alive;
        # after every construction every fitter alive is used on every source and its mask is read again
        specs = [dict(sp) for sp in MAIN] + [dict(sp, tag='extra%d' % k) for k, sp in enumerate(case.get('history') or [])]
        order = case.get('order') or list(range(len(specs)))
        built = {}          # tag -> fitter
        records = {}        # tag -> [after each later construction][source]{name: (av, sc, chi2)}
        snaps = {}          # tag -> fitter.models.extended as read right after construction
        seen_by = {}        # tag -> the fitters built after it
        errors = {}
        for pos in order:
            sp = specs[pos]
            bands = sp['perm'] if sp['perm'] else None
            try:
                if sp['pkg'] == 'files':
                    ent = [fnames[j] for j in (bands or range(nb))]
                    f = make_fitter(case, d1, ent, ext, sp['memmap'], bands=bands, remove_resolved=sp['rr'])
                else:
                    f = make_fitter(case, d2, cube_entries(case, bands), ext, sp['memmap'], bands=bands, remove_resolved=sp['rr'])
            except Exception as e:      # noqa: BLE001
                errors[sp['tag']] = '%s: %s' % (type(e).__name__, e)
                continue
            built[sp['tag']] = f
            records[sp['tag']] = []
            seen_by[sp['tag']] = []
            ex = getattr(f.models, 'extended', None)
            snaps[sp['tag']] = np.array(ex, dtype=bool) if isinstance(ex, np.ndarray) else ex
            for sq in specs:
                tag = sq['tag']
                if tag not in built:
                    continue
                if tag != sp['tag']:
                    seen_by[tag].append(spec_name(sp))
                try:
                    records[tag].append(fit_all(built[tag], case, sq['perm'], names))
                except Exception as e:      # noqa: BLE001
                    return CaseResult(False, key=key, violates=RESOLVED_VERDICT, branches=branches,
                                      detail='%s: fit raised %s: %s (%s)' % (spec_name(sq), type(e).__name__, e, describe(case)))
                # a fitter's answer does not depend on what else was built meanwhile (C11 / C07)
                first, last = records[tag][0], records[tag][-1]
                exn = getattr(built[tag].models, 'extended', None)
                exn = np.array(exn, dtype=bool) if isinstance(exn, np.ndarray) else exn
                mask_same = (isinstance(exn, np.ndarray) and isinstance(snaps[tag], np.ndarray) and exn.shape == snaps[tag].shape
                             and bool(np.all(exn == snaps[tag]))) or (not isinstance(exn, np.ndarray) and not isinstance(snaps[tag], np.ndarray))
                if last != first or not mask_same:
                    diff = [(si, n, first[si][n], last[si][n]) for si in range(len(first)) for n in names if first[si][n] != last[si][n]][:3]
                    return CaseResult(False, key=key, violates=True, branches=branches,
                                      detail=('the fitter %s gave, right after its construction, (source, model, (av, sc, chi2)) = %r; after the '
                                              'construction of %s the SAME fitter gives %r for the same sources%s; fitters built meanwhile: %r (%s)'
                                              % (spec_name(sq), [(a, b, c) for a, b, c, _ in diff], spec_name(sp), [(a, b, e_) for a, b, _, e_ in diff],
                                                 '' if mask_same else '; its fitter.models.extended changed as well (%d cells)' % (
                                                     int(np.sum(exn != snaps[tag])) if isinstance(exn, np.ndarray) and isinstance(snaps[tag], np.ndarray)
                                                     and exn.shape == snaps[tag].shape else -1),
                                                 seen_by[tag], describe(case))))
        fitters.update({tag: built[tag] for tag in ('files', 'cube_mem', 'cube_memmap') if tag in built})
        extras_alive = {tag: f for tag, f in built.items() if tag not in fitters}
        fitters_all = built
        if errors:
            some_ok = len(errors) < len(specs)
            return CaseResult(False, key=key, violates=True if some_ok else RESOLVED_VERDICT, branches=branches,
                              detail='Fitter(...) raised on an in-domain package for %r%s (%s)'
                              % (errors, ' while the same fluxes held otherwise are accepted' if some_ok else '', describe(case)))
        branches.add('refit_after_build_same')
        branches |= {'fmt_files', 'fmt_cube', 'memmap_on', 'memmap_off'}
        if exp['ceil_m'] < MARGIN:
            x_float = 1 + (np.log10(case['dmax']) - np.log10(case['dmin'])) / case['step']
            if not (exp['ceil_m'] < 1e-30 and x_float == round(x_float)):
                return CaseResult(True, branches=branches, key=key, nontrivial=True, relaxed=1)
        nd = exp['nd']
        branches.add('single_distance' if nd == 1 else 'multi_distance')
        grids = {tag: [float(x) for x in f.models.distances.to(u.kpc).value] for tag, f in fitters.items()}
        for tag, g in grids.items():
            if len(g) != nd:
                return CaseResult(False, key=key, violates=RESOLVED_VERDICT, branches=branches,
                                  detail='%s: %d trial distances, the minimal grid has %d (%s)' % (tag, len(g), nd, describe(case)))
        radii = [[t * dk * 1000. for dk in grids['cube_mem']] for t in case['thetas']]
        if any(r > case['aps'][-1] for rr in radii for r in rr):
            branches.add('beyond_table')
        if all(r > case['aps'][-1] for rr in radii for r in rr):
            branches.add('entirely_beyond_table')
        # ---- the mask
        masks = {}
        for tag, f in fitters.items():
            ex = snaps[tag]          # as read right after construction (and verified unchanged since)
            if not isinstance(ex, np.ndarray) or ex.shape != (nm, nd, nb):
                return CaseResult(False, key=key, violates=RESOLVED_VERDICT, branches=branches,
                                  detail='%s: fitter.models.extended is %r, expected a boolean array of shape %r'
                                  % (tag, getattr(ex, 'shape', type(ex)), (nm, nd, nb)))
            masks[tag] = np.array(ex, dtype=bool)
        top_ok = exp['top_m'] >= 1e-9
        clear = np.zeros((nm, nb), dtype=bool)
        for i in range(nm):
            for j in range(nb):
                b = exp['models'][i][j]
                clear[i, j] = top_ok and b['kind'] in (1, 2) and b['sig_m'] >= MARGIN and b['rad_m'] >= MARGIN
                if not clear[i, j]:
                    relaxed += 1
                    continue
                branches.add('radius_inside_loop' if b['kind'] == 1 else 'radius_last_aperture')
                if nd > 1 and b['mask'][0] and radii[j][0] < min(radii[j][1], case['aps'][-1]):
                    branches.add('first_distance_removed')
        for tag in masks:
            for i in range(nm):
                for j in range(nb):
                    if clear[i, j] and [bool(x) for x in masks[tag][i, :, j]] != exp['models'][i][j]['mask']:
                        b = exp['models'][i][j]
                        others = {t2: [bool(x) for x in masks[t2][i, :, j]] for t2 in masks if t2 != tag}
                        cross = any(v == b['mask'] for v in others.values())
                        return CaseResult(False, key=key, violates=True if cross else RESOLVED_VERDICT, branches=branches,
                                          detail=('%s: extended[model %d, :, band %d] = %r; find_radius_sigma(0.5) on the per-distance '
                                                  'fluxes gives radius %r AU (kind %d), apertures theta*d = %r AU reset to %r, so '
                                                  '(theta d < radius) = %r; other fits of the same fluxes: %r (%s)'
                                                  % (tag, i, j, [bool(x) for x in masks[tag][i, :, j]], float(b['radius']), b['kind'],
                                                     radii[j], case['aps'][-1], b['mask'], others, describe(case))))
        # the history's fitters: the mask for THEIR option and filter order (all False with the option off)
        for sp in specs[3:]:
            ex = snaps[sp['tag']]
            if not isinstance(ex, np.ndarray) or ex.shape != (nm, nd, nb):
                return CaseResult(False, key=key, violates=RESOLVED_VERDICT, branches=branches,
                                  detail='%s: fitter.models.extended is %r, expected a boolean array of shape %r'
                                  % (spec_name(sp), getattr(ex, 'shape', type(ex)), (nm, nd, nb)))
            cols = sp['perm'] if sp['perm'] else list(range(nb))
            for i in range(nm):
                for pos, j in enumerate(cols):
                    wantm = exp['models'][i][j]['mask'] if sp['rr'] else [False] * nd
                    if (clear[i, j] or not sp['rr']) and [bool(x) for x in ex[i, :, pos]] != wantm:
                        return CaseResult(False, key=key, violates=RESOLVED_VERDICT, branches=branches,
                                          detail='%s: extended[model %d, :, filter %d (band %d)] = %r right after construction; expected %r (%s)'
                                          % (spec_name(sp), i, pos, j, [bool(x) for x in ex[i, :, pos]], wantm, describe(case)))
        if len(specs) > 3:
            branches.add('history')
            pos_of = {specs[k]['tag']: n for n, k in enumerate(order)}
            if len({sp['rr'] for sp in specs}) == 2:
                branches.add('hist_option_mixed')
            if any(sp['perm'] for sp in specs[3:]):
                branches.add('hist_permuted_filters')
            if any(sp['pkg'] == 'files' for sp in specs[3:]):
                branches.add('hist_extra_per_file')
            mm = [sp for sp in specs if sp['memmap']]
            if len(mm) >= 2:
                branches.add('hist_two_memmap_alive')
            for a in mm:
                for b in mm:
                    if pos_of[a['tag']] < pos_of[b['tag']]:
                        # a is used again after b (also memory-mapped, same array shape) was built
                        if not a['rr'] and b['rr']:
                            branches.add('hist_memmap_off_then_on')
                        if a['rr'] and not b['rr']:
                            branches.add('hist_memmap_on_then_off')
                        if a['rr'] and b['rr']:
                            branches.add('hist_memmap_on_then_on_permuted' if (b['perm'] or a['perm']) else 'hist_memmap_on_then_on')
            if pos_of['cube_memmap'] > min(pos_of[sp['tag']] for sp in specs[3:]):
                branches.add('hist_main_built_after_extra')
            if any(not sp['memmap'] for sp in specs[3:]):
                branches.add('hist_extra_in_memory')
        branches.add('mask_compared')
        if case.get('expect_mask_band0') is not None:
            got = [bool(x) for x in masks['cube_mem'][0, :, 0]]
            if got != case['expect_mask_band0'] or exp['models'][0][0]['mask'] != case['expect_mask_band0']:
                return CaseResult(False, key=key, violates=RESOLVED_VERDICT, branches=branches,
                                  detail='grid dependence example: mask of model 0, band 0 over the range [%r, %r] kpc is %r (model %r); '
                                         'the Lean example states %r' % (case['dmin'], case['dmax'], got, exp['models'][0][0]['mask'],
                                                                         case['expect_mask_band0']))
            branches.add('grid_dependence')
        # ---- the fits
        lf = np.log10(np.asarray(fitters['cube_mem'].models.fluxes.to(u.mJy).value, dtype=float))
        lmax = float(np.max(np.abs(lf)))
        av_law = np.asarray(fitters['cube_mem'].av_law, dtype=float)
        lo, hi = case['av']
        n_changed = n_total = 0
        removed_any = False
        for si, src in enumerate(case['sources']):
            if any(f in (2, 3) for f in src['flags']):
                branches.add('limit_band')
            used = [j for j in range(nb) if src['flags'][j] > 0]
            for i, nme in enumerate(names):
                e = exp['srcs'][si][i]
                if not all(clear[i, j] for j in used):
                    relaxed += 1
                    continue
                if e['nrem'] >= nd or not isinstance(e['chi2'], common.Fraction):
                    return CaseResult(False, key=key, violates=RESOLVED_VERDICT, branches=branches,
                                      detail='the model removes every trial distance for source %d, model %s — unreachable by theorem '
                                             'RES_fit_kept (%s)' % (si, nme, describe(case)))
                tol = {tag: budgets(case, e, src, av_law, lmax, mm) for tag, _, mm in PATHS}
                tol0 = {tag: budgets(case, dict(e, chi2=e['chi0'], av=e['av0'], gap=e['gap0']), src, av_law, lmax, mm) for tag, _, mm in PATHS}
                val = {tag: records[tag][0][si][nme] for tag in fitters}
                want = (float(e['av']), float(e['sc']), float(e['chi2']))
                # model vs each real fit
                for tag, _, mm in PATHS:
                    atol, ctol, rx = tol[tag]
                    if rx:
                        relaxed += 1
                        continue
                    a, s, c = val[tag]
                    ok = abs(a - want[0]) <= atol and abs(s - want[1]) <= 1e-9 and abs(c - want[2]) <= ctol and np.isfinite(c)
                    if not ok:
                        # is it the real fits disagreeing with each other? (same fluxes: per-file / cube / memory-mapped)
                        agree = [t2 for t2, _, m2 in PATHS if t2 != tag and not tol[t2][2] and
                                 abs(val[t2][0] - want[0]) <= tol[t2][0] and abs(val[t2][1] - want[1]) <= 1e-9 and
                                 abs(val[t2][2] - want[2]) <= tol[t2][1]]
                        # the result without the mask, for the diagnosis
                        unmasked = (abs(a - float(e['av0'])) <= tol0[tag][0] and abs(s - float(e['sc0'])) <= 1e-9 and
                                    abs(c - float(e['chi0'])) <= tol0[tag][1])
                        clear0 = not tol0[tag][2]
                        cross = bool(agree) and clear0
                        det = ('source %d (flags %r flux %r err %r) model %s, fit through the %s package%s with remove_resolved=True: '
                               '(av, sc, chi2) = %r; masked first minimum over the kept distances (removed: %r) = %r at grid index %d '
                               '(gap to the next kept distance %.3g)%s; the fits through %r of the SAME fluxes give %r; %s'
                               % (si, src['flags'], src['flux'], src['err'], nme, tag, ' (memory-mapped)' if mm else '', val[tag],
                                  e['reset'], want, e['bi'], e['gap'],
                                  '; this IS the unmasked result %r at index %d: the option was ignored' % ((float(e['av0']), float(e['sc0']), float(e['chi0'])), e['bi0']) if unmasked and e['bi'] != e['bi0'] else '',
                                  agree, {t2: val[t2] for t2 in agree}, describe(case)))
                        return CaseResult(False, key=key, violates=True if cross else RESOLVED_VERDICT, branches=branches, detail=det)
                # the real fits with each other (C07: "fits made from either, memory-mapped or not, agree"), whatever the model says
                if not any(tol[tag][2] for tag in tol) and not any(tol0[tag][2] for tag in tol0):
                    for ta, tb, br in (('files', 'cube_mem', 'cross_files_cube'), ('cube_mem', 'cube_memmap', 'cross_memmap')):
                        at = tol[ta][0] + tol[tb][0]
                        ct = tol[ta][1] + tol[tb][1]
                        va, vb = val[ta], val[tb]
                        branches.add(br)
                        if not (abs(va[0] - vb[0]) <= at and abs(va[1] - vb[1]) <= 2e-9 and abs(va[2] - vb[2]) <= ct):
                            return CaseResult(False, key=key, violates=True, branches=branches,
                                              detail=('source %d (flags %r flux %r err %r) model %s, remove_resolved=True: the fit through %s gives '
                                                      '(av, sc, chi2) = %r, the fit of the same fluxes through %s gives %r (budget %.3g / 2e-9 / %.3g); '
                                                      'removed distances %r, masked optimum %r at index %d, unmasked optimum %r at index %d; %s'
                                                      % (si, src['flags'], src['flux'], src['err'], nme, ta, va, tb, vb, at, ct, e['reset'], want,
                                                         e['bi'], (float(e['av0']), float(e['sc0']), float(e['chi0'])), e['bi0'], describe(case))))
                # the history's fitters against the model for THEIR option: with remove_resolved off the plain C02 result
                for sp in specs[3:]:
                    tag = sp['tag']
                    tt = budgets(case, e if sp['rr'] else dict(e, chi2=e['chi0'], av=e['av0'], gap=e['gap0']), src, av_law, lmax, sp['memmap'])
                    if tt[2]:
                        relaxed += 1
                        continue
                    w_ = want if sp['rr'] else (float(e['av0']), float(e['sc0']), float(e['chi0']))
                    a, s_, c = records[tag][0][si][nme]
                    if not (abs(a - w_[0]) <= tt[0] and abs(s_ - w_[1]) <= 1e-9 and abs(c - w_[2]) <= tt[1] and np.isfinite(c)):
                        return CaseResult(False, key=key, violates=RESOLVED_VERDICT, branches=branches,
                                          detail=('source %d (flags %r) model %s through %s, first use: (av, sc, chi2) = %r; the model for this option '
                                                  '(%s) gives %r (removed distances with the option on: %r); %s'
                                                  % (si, src['flags'], nme, spec_name(sp), (a, s_, c),
                                                     'masked first minimum' if sp['rr'] else 'plain C02 grid minimum, no mask', w_, e['reset'], describe(case))))
                    branches.add('fitter_on_matches_masked' if sp['rr'] else 'fitter_off_matches_unmasked')
                if any(tol[tag][2] for tag in ('files', 'cube_mem')):
                    continue
                # ---- what the option did (measured on cases with clear margins)
                n_total += 1
                if e['nrem'] > 0:
                    removed_any = True
                    branches.add('some_removed')
                    if e['nrem'] == nd - 1:
                        branches.add('all_but_last_removed')
                else:
                    branches.add('none_removed')
                if e['bi'] != e['bi0']:
                    n_changed += 1
                    branches.add('mask_changes_result')
                else:
                    branches.add('mask_keeps_result')
                first_kept = e['nrem']       # the removed distances are a prefix (RES_fit_kept)
                if e['reset'] != [True] * e['nrem'] + [False] * (nd - e['nrem']):
                    return CaseResult(False, key=key, violates=RESOLVED_VERDICT, branches=branches,
                                      detail='the removed distances %r are not a prefix of the grid (theorem RES_fit_kept) (%s)' % (e['reset'], describe(case)))
                branches.add('best_first_kept' if e['bi'] == first_kept else 'best_later_kept')
                if lo < hi:
                    branches.add('clamped' if float(e['av']) in (lo, hi) else 'unclamped')
                for j in range(nb):
                    col = exp['models'][i][j]['mask']
                    if src['flags'][j] == 0 and any(col[k] and not e['reset'][k] for k in range(nd)):
                        branches.add('unused_band_resolved')
                    if src['flags'][j] == 9 and any(col[k] and not any(exp['models'][i][j2]['mask'][k] for j2 in used if j2 != j)
                                                    for k in range(nd)):
                        branches.add('flag9_band_removes')
        # ---- a band with valid = 0 can be dropped from the fitter without changing anything (RES_unused_band)
        if case.get('unused') and case.get('special') is not None and nb >= 2:
            keep = [j for j in range(nb) if j != case['special']]
            f4 = make_fitter(case, d2, cube_entries(case, keep), ext, False, bands=keep)
            for si, src in enumerate(case['sources']):
                if src['flags'][case['special']] != 0:
                    continue
                sub = pk.make_source('s%d' % si, [src['flags'][j] for j in keep], [src['flux'][j] for j in keep],
                                     [src['err'][j] for j in keep])
                with common.quiet():
                    g4 = pk.fit_arrays(f4.fit(sub))
                    g0 = pk.fit_arrays(fitters['cube_mem'].fit(pk.make_source('s%d' % si, src['flags'], src['flux'], src['err'])))
                for nme in names:
                    r4, r0 = g4['name'].index(nme), g0['name'].index(nme)
                    a = (float(g4['av'][r4]), float(g4['sc'][r4]), float(g4['chi2'][r4]))
                    b = (float(g0['av'][r0]), float(g0['sc'][r0]), float(g0['chi2'][r0]))
                    if not all(abs(x - y) <= 1e-9 * (1. + abs(y)) for x, y in zip(a, b)):
                        return CaseResult(False, key=key, violates=True, branches=branches,
                                          detail=('source %d model %s: band %d has valid = 0; with it (av, sc, chi2) = %r, through a fitter '
                                                  'built without that band %r: a band the source does not use changed which distances are removed '
                                                  '(%s)' % (si, nme, case['special'], b, a, describe(case))))
                branches.add('unused_band_dropped_same_fit')
            del f4
        sample = dict(kind=case['kind'], n_models=nm, n_bands=nb, n_apertures=len(case['aps']), n_distances=nd,
                      aperture_kind=case['akind'], distance_range=[case['dmin'], case['dmax']], step=case['step'],
                      fits_compared=n_total, fits_where_mask_changes_the_answer=n_changed,
                      removed_prefix_lengths=[[e['nrem'] for e in rows] for rows in exp['srcs']],
                      radius_kinds=[[b['kind'] for b in bands] for bands in exp['models']], source0=case['sources'][0])
        return CaseResult(True, branches=sorted(branches), key=key, nontrivial=removed_any, sample=sample, relaxed=relaxed)
    finally:
        fitters.clear()
        gc.collect()
        shutil.rmtree(d, ignore_errors=True)


def shrink(case):
    """fewer sources while the case still fails"""
    def fails(c):
        try:
            return not run_case(c).ok
        except Exception:      # noqa: BLE001
            return True
    cur = dict(case)
    changed = True
    while changed and len(cur['sources']) > 1:
        changed = False
        for i in range(len(cur['sources'])):
            c = dict(cur)
            c['sources'] = cur['sources'][:i] + cur['sources'][i + 1:]
            if fails(c):
                cur = c
                changed = True
                break
    return cur
