"""C09 — parameter listings follow the fit ranking, for any parameter-file order.

Real side: a small distance-independent package (convolved/*.fits written by the harness, parameters.fits with
1–4 numeric columns in an arbitrary row order, names optionally blank-padded, optionally extra rows for models the
package's fits never name, optionally NaN / ±inf cells); fit results either from `Fitter.fit` or built directly
(`FitInfo` with meta pointing at the package; directly built ones may carry NaN / ±inf in chi2, av, sc); then
`write_parameters`, `write_parameter_ranges`, `extract_parameters`, `FitInfo.filter_table` (on the stripped +
name-sorted table) and — the clause "the table handed to the parameter plots" — `plot_params_1d` and
`plot_params_2d` themselves, with the results given as a file / a single FitInfo / a list.  What the two plot
functions draw is observed without touching sedfitter: `matplotlib.figure.Figure.savefig` is wrapped for the
duration of the call and records, per saved source, the hatched `Polygon` of `plot_params_1d` (its vertices are the
histogram of the selected fits' parameter values over the bin edges) and the scatter `PathCollection` of
`plot_params_2d` (its offsets are the two parameters of the selected fits).

A case is a call *history*: 1-3 successive rounds of the consumers on the SAME input (the same file, the same
object, the same list) with different selectors (narrow then wide, wide then narrow, repeated).  The outputs of
EVERY round are parsed back to numbers (compared at the precision they are printed with) and every row is looked up
*by model name* in the original table; the expected selection of every round is computed from a snapshot of the
ORIGINAL fit results taken before the first call.  Between rounds `parameters.fits` of the same model directory may
be rewritten in place (new values, new row order, sometimes one more column): every later output must show the
file as it is on disk at that call.  Pure print-layout differences (header tokens, placeholders,
token counts) are reported as model/implementation disagreements, not as property violations.

Compared refusals (one round): an `additional` key that is already a table column (the code raises "already
exists"), a dictionary that lacks a selected model (KeyError), a table without MODEL_NAME handed to `filter_table`
(ValueError); the model (`filterTableFull`) predicts the refusal and its kind.

Model side: driver `filtertable` / `filtertablefull` (= `prepTable` + `filterTableAdd` / `filterTableFull`) predicts,
for the selected fit names, which row of the parameter file is shown in each line and which additional values are
attached; `ranges` (= `paramRangesEF`: nanmin / [0] / nanmax on doubles incl. NaN, ±inf) predicts min / best / max;
`parcounts` (= `counts`) predicts n_data / n_fits.
"""
import math
import os
import shutil
import tempfile

os.environ.setdefault('MPLBACKEND', 'Agg')

import numpy as np

from . import common
from .common import CaseResult, case_rng, nice, rat, Fraction
from . import packages as pk
from .c07 import gen_names, enc, names_line, read_names, write_table_repr

PID = 'C09'
RULE = ('cases = (model names, row order of the convolved files, row order and blank padding of parameters.fits, 1-4 '
        'numeric columns possibly holding NaN / +-inf, optional extra table rows, optional additional dictionaries, '
        '1-3 fit results from Fitter.fit or built directly (then possibly with NaN / +-inf in chi2, av, sc), a '
        'selector of every form with a threshold placed between attained values so that 0..all fits are selected, '
        'input form file / single / list, 0-2 further rounds on the same input with other selectors, the text '
        'writers, filter_table and both parameter plots) drawn from the quantifier of C09, plus compared refusals; '
        'non-trivial = at least 2 models and at least 1 selected fit whose table row is not at the same position '
        'as its rank; distinct = distinct canonical hash of the generated inputs')
REQUIRED_BRANCHES = ['write_parameters', 'write_parameter_ranges', 'extract_parameters', 'filter_table',
                     'plot_params_1d', 'plot_params_2d', 'plot_1d_log_x', 'plot_1d_additional', 'plot_1d_log_x_nonpositive_selected',
                     'plot_2d_log_x', 'plot_2d_log_y', 'plot_2d_log_nonpositive_selected',
                     'plots_input_file', 'plots_input_single', 'plots_input_list', 'plots_selected_0',
                     'plots_selected_some', 'plots_padded_unsorted_table',
                     'input_file', 'input_single', 'input_list',
                     'sel_A', 'sel_N', 'sel_C', 'sel_D', 'sel_E', 'sel_F',
                     'selected_0', 'selected_some', 'selected_all',
                     'additional_0', 'additional_1', 'additional_2', 'padded_table_names', 'table_not_sorted',
                     'cols_1', 'cols_4', 'fits_from_fitter', 'fits_direct', 'extract_all', 'extract_subset',
                     'models_1', 'models_8',
                     'history_1', 'history_2', 'history_3', 'narrow_then_wide_single', 'narrow_then_wide_list',
                     'narrow_then_wide_file', 'wide_then_narrow', 'repeated_selector',
                     'extra_table_rows', 'param_nan', 'param_inf', 'fit_nan', 'fit_inf', 'range_all_nan',
                     'parameters_rewritten', 'rewrite_added_column', 'flag_edited_in_place', 'flag_edited_in_place_single',
                     'flag_edited_in_place_list', 'flag_edited_in_place_file',
                     'table_names_S', 'table_names_U', 'model_name_column_first', 'model_name_column_middle', 'model_name_column_last',
                     'column_dtype_f8', 'column_dtype_f4', 'column_dtype_f8_bigendian', 'column_dtype_i4', 'column_dtype_i8',
                     'additional_typed_float', 'additional_typed_int_first', 'additional_typed_np_int', 'additional_typed_float32',
                     'additional_typed_bool', 'additional_typed_mixed', 'refuse_dup_column', 'refuse_missing_key', 'missing_key_not_selected', 'refuse_no_model_name']
ASSUMPTIONS = ['text outputs are parsed back to numbers and compared at the precision they are printed with '
               '(%10.3e / %10.3f / %11.3e); layout-only differences are not property violations',
               'selector thresholds are placed between attained values (C05 owns the selection rule itself)',
               'numpy / astropy order U-strings by code point, as the model orders String',
               'the sign of a floating-point zero is not modelled (exact rationals); generated inputs contain no -0.0',
               'refusals are compared by exception class (ValueError / KeyError / IndexError / plain Exception), '
               'not by message',
               'the plots are observed through matplotlib artists at savefig time (hatched Polygon, scatter '
               'offsets); the grey "all models" layers are not examined; plotted columns are finite']
EXHAUSTIVE = {'quick': False, 'thorough': True}
N = {'quick': 600, 'thorough': 8000}
FLAGS = [0, 1, 2, 3, 4, 9]
COLNAMES = ['PAR1', 'Q2', 'LOGX', 'T4']
EXT_W = [0.05, 0.3, 0.55, 1., 3., 10., 50., 3000.]
EXT_CHI = [2000., 600., 300., 120., 40., 20., 8., 1.]
SPECIALS = ['nan', 'inf', '-inf']


def fv(x):
    """a generated value: a float, or one of the strings 'nan' / 'inf' / '-inf'"""
    return float(x)


# ----------------------------------------------------------------------------- generation

def distinct_values(rng, n, signed=True):
    vals = []
    while len(vals) < n:
        v = nice(rng, 1e-3, 1e5, 3)
        if signed and rng.random() < 0.3:
            v = -v
        if all(abs(v - w) > 0.02 * max(abs(v), abs(w)) for w in vals):
            vals.append(v)
    return vals


def gen_source(rng, nb, idx):
    flags = [rng.choice(FLAGS) for _ in range(nb)]
    pos = list(range(nb))
    rng.shuffle(pos)
    for j in pos[:2]:
        if flags[j] not in (1, 4):
            flags[j] = rng.choice([1, 1, 4])
    flux, err = [], []
    for j in range(nb):
        f = nice(rng, 0.05, 50., 3)
        if flags[j] == 4:
            flux.append(float('%.4f' % math.log10(f)))
            err.append(nice(rng, 0.02, 0.3, 2))
        elif flags[j] in (2, 3):
            flux.append(f)
            err.append(rng.choice([0., 0.5, 0.9, round(rng.random() * 0.98, 2)]))
        else:
            flux.append(f)
            err.append(float('%.3g' % (f * nice(rng, 0.05, 0.4, 2))))
    return dict(name='src%d_%s' % (idx, ''.join(rng.choice('abcXYZ09') for _ in range(rng.randint(0, 6)))),
                flags=flags, flux=flux, err=err)



def distinct_ints(rng, n, signed=True):
    vals = []
    while len(vals) < n:
        v = float(rng.randint(-999 if signed else 1, 99999))
        if v not in vals and v != 0.:
            vals.append(v)
    return vals


def sprinkle(rng, vals, p):
    """replace some entries by NaN / +-inf (as strings, so that the case stays plain JSON)"""
    return [rng.choice(SPECIALS + ['nan']) if rng.random() < p else v for v in vals]


def gen_case(rng, directed=None, table_perm=None, n=None):
    directed = directed or {}
    n = n or directed.get('n') or rng.randint(1, 8)
    names = gen_names(rng, n, rng.random() < 0.2)
    conv = names[:]
    rng.shuffle(conv)
    table = names[:]
    rng.shuffle(table)
    if table_perm is not None:
        table = [names[i] for i in table_perm]
    ncols = directed.get('ncols') or rng.randint(1, 4)
    # representation of parameters.fits: MODEL_NAME as bytes / unicode column, first / in the middle / last; numeric
    # columns float64, float32, big-endian float64 or (integral values) int32 / int64
    trepr = dict(name_dtype=rng.choice(['S', 'U']), name_pos=directed.get('name_pos', rng.choice(['first', 'first', 'middle', 'last'])),
                 col_dtype=directed.get('col_dtype', rng.choice(['f8', 'f8', 'f4', '>f8', 'i4', 'i8'])))
    intcols = trepr['col_dtype'] in ('i4', 'i8')
    colvals = distinct_ints if intcols else distinct_values
    cols = {COLNAMES[j]: colvals(rng, n) for j in range(ncols)}         # value per model index
    # rows of the parameter file for models that no fit ever names (np.isin really has to drop something)
    nextra = directed.get('nextra', rng.choice([0, 0, 0, 1, 2, 4]) if table_perm is None else 0)
    extra = []
    while len(extra) < nextra:
        x = gen_names(rng, 1, False)[0]
        if x not in names and x not in [e[0] for e in extra]:
            extra.append([x, {c: (float(rng.randint(100000, 200000)) if intcols else nice(rng, 1e-3, 1e5, 3)) for c in cols}])
    for e in extra:
        table.insert(rng.randint(0, len(table)), e[0])
    pad = directed.get('pad', rng.random() < 0.5)
    table_names = [t + (' ' * rng.randint(1, max(1, min(3, 30 - len(t)))) if pad and len(t) < 30 and rng.random() < 0.6 else '')
                   for t in table]
    special = directed.get('special', rng.random() < 0.2) and not intcols
    if special:
        for c in list(cols)[rng.randint(0, 1):]:          # sometimes the first column stays finite (for the plots)
            cols[c] = sprinkle(rng, cols[c], 1. if (n > 1 and rng.random() < 0.15) else 0.35)
    nadd = directed.get('nadd', rng.choice([0, 0, 1, 1, 2]))
    additional = {['extra', 'bonus'][j]: dict(zip(names, distinct_values(rng, n))) for j in range(nadd)}
    if special and additional and rng.random() < 0.5:
        k0 = list(additional)[0]
        additional[k0] = dict(zip(names, sprinkle(rng, list(additional[k0].values()), 0.4)))
    # how the user types the additional values: floats, a Python int first, numpy integers, float32, bools, mixtures
    add_types = {}
    for k_ in additional:
        kind_ = directed.get('add_type', rng.choice(['float', 'float', 'int_first', 'np_int', 'float32', 'bool', 'mixed']))
        if any(isinstance(v, str) for v in additional[k_].values()):
            kind_ = 'float'
        if kind_ == 'int_first':
            additional[k_][names[0]] = float(rng.randint(0, 9))
        elif kind_ == 'np_int':
            additional[k_] = dict(zip(names, distinct_ints(rng, n)))
        elif kind_ == 'bool':
            additional[k_] = {nme: float(rng.random() < 0.5) for nme in names}
        elif kind_ == 'mixed':
            additional[k_] = {nme: (float(rng.randint(-5, 50)) if rng.random() < 0.5 else v) for nme, v in additional[k_].items()}
        add_types[k_] = kind_
    nb = rng.randint(3, 5)
    mode = directed.get('mode', rng.choice(['fitter', 'direct']))
    form = directed.get('form', rng.choice(['file', 'single', 'list']))
    nsrc = 1 if form == 'single' else rng.randint(1, 3)
    sources = []
    for i in range(nsrc):
        s = gen_source(rng, nb, i)
        s['chi2'] = distinct_values(rng, n, signed=False)
        s['av'] = [round(rng.uniform(0, 20), 3) + 0. for _ in range(n)]
        s['sc'] = [round(rng.uniform(-2, 2), 3) + 0. for _ in range(n)]       # + 0.: no negative zero
        if special and mode == 'direct':
            s['chi2'] = [rng.choice(['nan', 'inf']) if rng.random() < 0.3 else v for v in s['chi2']]
            s['av'] = sprinkle(rng, s['av'], 0.25)
            s['sc'] = sprinkle(rng, s['sc'], 0.25)
        # the same Source object used again after one band's flag has been edited IN PLACE (s.valid[j] = ...)
        s['flag_edit'] = None
        if directed.get('flag_edit', rng.random() < 0.35):
            fitted = [j for j, f in enumerate(s['flags']) if f in (1, 4)]
            idle = [j for j, f in enumerate(s['flags']) if f in (0, 9)]
            if len(fitted) >= 3 and (not idle or rng.random() < 0.6):
                s['flag_edit'] = [rng.choice(fitted), 0]
            elif idle:
                s['flag_edit'] = [rng.choice(idle), 1]
        sources.append(s)
    wavs = sorted({nice(rng, 0.4, 200., 3) for _ in range(nb)})
    while len(wavs) < nb:
        wavs = sorted(set(wavs) | {nice(rng, 0.4, 200., 3)})
    models = [[nice(rng, 0.01, 100., 3) for _ in range(nb)] for _ in range(n)]   # per model index
    kind = directed.get('sel', rng.choice(['A', 'N', 'C', 'D', 'E', 'F']))
    target = directed.get('target', rng.choice([0, n, rng.randint(0, n), rng.randint(0, n)]))
    if kind == 'N' and 'target' not in directed and rng.random() < 0.2:
        target = n + rng.randint(1, 3)
    # further rounds on the same input: [kind, target] each
    if 'more' in directed:
        more = [list(m) for m in directed['more']]
    elif 'sel' in directed or rng.random() < 0.45:
        more = []
    else:
        pat = rng.choice(['nw', 'nw', 'wn', 'rep', 'rand'])
        k2 = rng.choice(['A', 'N', 'C', 'D', 'E', 'F'])
        if pat == 'nw':
            kind = rng.choice(['N', 'C', 'D', 'E', 'F'])
            target = rng.randint(0, max(0, n - 1))
            more = [[k2, n if k2 == 'A' else rng.randint(min(n, target + 1), n)]]
        elif pat == 'wn':
            k2 = rng.choice(['N', 'C', 'D', 'E', 'F'])
            target = n if kind == 'A' else rng.randint(min(1, n), n)
            more = [[k2, rng.randint(0, max(0, min(target, n) - 1))]]
        elif pat == 'rep':
            more = [[kind, target]]
        else:
            more = [[k2, rng.randint(0, n)]]
        if rng.random() < 0.35:
            k3 = rng.choice(['A', 'N', 'C', 'D', 'E', 'F'])
            more.append([k3, rng.randint(0, n)])
    if 'extract' in directed:
        ex = directed['extract']
    elif rng.random() < 0.5:
        ex = 'all'
    else:
        pool = list(cols) + ['MODEL_NAME']
        rng.shuffle(pool)
        ex = pool[:rng.randint(1, len(pool))]
    # the two parameter plots: on finite columns only
    finite_cols = [c for c in cols if all(not isinstance(v, str) for v in cols[c])]
    if trepr['col_dtype'] not in ('f8', '>f8'):
        finite_cols = []          # the plots histogram the column in its own dtype: only float64 columns are plotted
    plots = None
    if finite_cols and directed.get('plots', rng.random() < 0.25):
        def npos(c_):
            return len({v for v in [cols[c_][i] for i in range(n)] + [e[1][c_] for e in extra] if v > 0})
        p1 = rng.choice(finite_cols)
        allv = [cols[p1][i] for i in range(n)] + [e[1][p1] for e in extra]
        px, py = rng.choice(finite_cols), rng.choice(finite_cols)
        # logarithmic axes are asked for whether or not every value is positive (at least two positive ones, so that
        # the axis has a range); non-positive values of selected fits then simply cannot be shown
        plots = dict(p1=p1, bins=rng.choice([4, 10, 30]), log_x=bool(npos(p1) >= 2 and rng.random() < 0.5),
                     px=px, py=py, log2x=bool(npos(px) >= 2 and rng.random() < 0.4), log2y=bool(npos(py) >= 2 and rng.random() < 0.4),
                     explicit=bool(rng.random() < 0.3 or len(allv) < 2))
    # compared refusals: one round, no plots
    defect = directed.get('defect')
    if defect is None and 'sel' not in directed and 'more' not in directed and table_perm is None and rng.random() < 0.08:
        defect = rng.choice(['dup_key', 'missing_key', 'missing_key', 'no_model_name'])
    if defect:
        more, plots = [], None
        if defect == 'dup_key':
            additional = dict(additional)
            additional[rng.choice(list(cols))] = dict(zip(names, distinct_values(rng, n)))
            if rng.random() < 0.5:      # refused key first
                additional = dict(reversed(list(additional.items())))
        elif defect == 'missing_key':
            if not additional:
                additional = {'extra': dict(zip(names, distinct_values(rng, n)))}
            k0 = rng.choice(list(additional))
            miss = rng.choice(names)
            additional[k0] = {k: v for k, v in additional[k0].items() if k != miss}
    # parameters.fits rewritten in place between rounds: new values, new row order, sometimes one more column
    rewrites = {}
    if more and not defect and directed.get('rewrite', rng.random() < 0.5):
        cur_cols, cur_table, cur_extra = cols, table_names, extra
        for ri in range(1, len(more) + 1):
            if ri > 1 and rng.random() < 0.5:
                continue
            ncols_ = {c: colvals(rng, n) for c in cur_cols}
            if plots:
                for c_, flag in ((plots['p1'], plots['log_x']), (plots['px'], plots['log2x']), (plots['py'], plots['log2y'])):
                    if flag:
                        ncols_[c_] = [abs(v) if i < 2 else v for i, v in enumerate(ncols_[c_])]
            nextra_ = [[e[0], {c: (float(rng.randint(100000, 200000)) if intcols else nice(rng, 1e-3, 1e5, 3)) for c in cur_cols}] for e in cur_extra]
            spare = [c for c in COLNAMES if c not in ncols_]
            if spare and rng.random() < 0.35:
                ncols_[spare[0]] = colvals(rng, n)
                for e in nextra_:
                    e[1][spare[0]] = float(rng.randint(100000, 200000)) if intcols else nice(rng, 1e-3, 1e5, 3)
            ntable = cur_table[:]
            rng.shuffle(ntable)
            rewrites[str(ri)] = dict(cols=ncols_, table=ntable, extra=nextra_)
            cur_cols, cur_table, cur_extra = ncols_, ntable, nextra_
    return dict(names=names, conv=conv, table=table_names, cols=cols, extra=extra, additional=additional, wavs=wavs,
                rewrites=rewrites, table_repr=trepr, add_types=add_types,
                models=models, mode=mode, form=form, sources=sources, sel=kind, target=target, more=more, extract=ex,
                header=rng.random() < 0.7, suffix=rng.choice([None, '.txt']), as_tuple=rng.random() < 0.3,
                plots=plots, defect=defect)


DIRECTED = [
    dict(n=1, ncols=1, nadd=0, mode='direct', form='single', sel='A', pad=False, extract='all', plots=True),
    dict(n=8, ncols=4, nadd=2, mode='fitter', form='file', sel='N', target=3, pad=True, extract=['Q2', 'MODEL_NAME'],
         plots=True, nextra=2, special=False),
    dict(n=5, ncols=2, nadd=1, mode='fitter', form='list', sel='C', target=2, pad=True, plots=True, special=False),
    dict(n=4, ncols=3, nadd=1, mode='direct', form='file', sel='D', target=0, pad=False, plots=True, special=False),
    dict(n=6, ncols=4, nadd=0, mode='direct', form='list', sel='E', target=6, pad=True, special=True, nextra=3),
    dict(n=3, ncols=1, nadd=2, mode='fitter', form='single', sel='F', target=1, pad=False, plots=True, special=False),
    dict(n=4, ncols=2, nadd=1, mode='fitter', form='file', sel='N', target=0, pad=True, special=True),
    dict(n=7, ncols=3, nadd=0, mode='direct', form='single', sel='C', target=0, pad=True, plots=True, special=False),
    dict(n=6, ncols=3, nadd=1, mode='direct', form='list', sel='A', target=6, pad=True, special=True),
    dict(n=5, ncols=2, nadd=1, mode='direct', form='file', sel='N', target=4, pad=False, special=True, nextra=1),
]
for _pos in ('first', 'middle', 'last'):
    DIRECTED += [dict(n=5, ncols=3, nadd=1, mode='direct', form='list', sel='A', target=5, pad=True, special=False,
                      name_pos=_pos, col_dtype='f8', extract='all', add_type='float'),
                 dict(n=4, ncols=2, nadd=2, mode='fitter', form='file', sel='N', target=3, pad=False, special=False,
                      name_pos=_pos, col_dtype='f4', extract='all', add_type='int_first')]
for _t in ('int_first', 'np_int', 'float32', 'bool', 'mixed'):
    DIRECTED.append(dict(n=6, ncols=2, nadd=2, mode='direct', form='single', sel='A', target=6, special=False, add_type=_t,
                         col_dtype=('i4' if _t == 'bool' else 'i8' if _t == 'mixed' else 'f8')))
for _form in ('single', 'list', 'file'):
    DIRECTED += [dict(n=5, form=_form, mode='fitter', sel='E', target=3, flag_edit=True, special=False),
                 dict(n=4, form=_form, mode='direct', sel='A', target=4, flag_edit=True, special=False)]
# call histories on the same input: narrow -> wide, wide -> narrow, repeated, three rounds; every input form
for _form in ('single', 'list', 'file'):
    DIRECTED += [
        dict(n=6, form=_form, mode='direct', sel='N', target=1, more=[['A', 6]], nadd=1, plots=True, special=False, pad=True, rewrite=False),
        dict(n=6, form=_form, mode='direct', sel='A', target=6, more=[['A', 6]], nadd=1, plots=True, special=False, pad=True, rewrite=True),
        dict(n=5, form=_form, mode='fitter', sel='N', target=3, more=[['N', 3], ['A', 5]], ncols=2, special=False, rewrite=True),
        dict(n=5, form=_form, mode='fitter', sel='C', target=2, more=[['N', 4]], ncols=2),
        dict(n=4, form=_form, mode='direct', sel='F', target=0, more=[['D', 3]], plots=True, special=False, pad=True),
        dict(n=6, form=_form, mode='fitter', sel='A', target=6, more=[['N', 2]], nadd=2),
        dict(n=5, form=_form, mode='direct', sel='E', target=3, more=[['E', 3]]),
        dict(n=7, form=_form, mode='direct', sel='N', target=2, more=[['C', 5], ['N', 1]], nadd=1),
        dict(n=5, form=_form, mode='direct', sel='N', target=3, defect='dup_key', nadd=1, special=False),
        dict(n=5, form=_form, mode='fitter', sel='A', target=5, defect='missing_key', nadd=1, special=False),
        dict(n=6, form=_form, mode='direct', sel='N', target=1, defect='missing_key', nadd=2, special=False),
        dict(n=4, form=_form, mode='direct', sel='N', target=2, defect='no_model_name', special=False),
    ]


def gen_cases(seed, tier):
    import itertools
    i = 0
    for d in DIRECTED:
        yield gen_case(case_rng(seed, PID, i), directed=d)
        i += 1
    # every selector form x (nothing / something / everything selected)
    for kind in ['A', 'N', 'C', 'D', 'E', 'F']:
        for tgt in ('zero', 'some', 'all'):
            rng = case_rng(seed, PID, i)
            n = rng.randint(3, 8)
            t = {'zero': 0, 'some': rng.randint(1, n - 1), 'all': n}[tgt]
            yield gen_case(rng, directed=dict(n=n, sel=kind, target=t, special=False, plots=(tgt != 'all')))
            i += 1
    # every row permutation of the parameter file (<= 4 models in the thorough tier, <= 3 in quick)
    for n in range(1, 5 if tier == 'thorough' else 4):
        for perm in itertools.permutations(range(n)):
            yield gen_case(case_rng(seed, PID, i), n=n, table_perm=list(perm))
            i += 1
    while i < N[tier]:
        yield gen_case(case_rng(seed, PID, i))
        i += 1


# ----------------------------------------------------------------------------- real side

def view(case, rw):
    """the case as it stands once parameters.fits has been rewritten with `rw` (cols / table / extra replaced)"""
    return dict(case, cols=rw['cols'], table=rw['table'], extra=rw['extra'])


def table_repr(case):
    return case.get('table_repr') or dict(name_dtype='S', name_pos='first', col_dtype='f8')


def colorder(case):
    """all column names of parameters.fits in file order (MODEL_NAME first, in the middle or last)"""
    keys = list(case['cols'])
    k = {'first': 0, 'middle': (len(keys) + 1) // 2, 'last': len(keys)}[table_repr(case)['name_pos']]
    return keys[:k] + ['MODEL_NAME'] + keys[k:]


def write_table(case, md):
    tv = table_values(case, stored=False)
    cols = list(case['cols'])
    order = write_table_repr(md, case['table'], {c: [tv[t.strip()][j] for t in case['table']] for j, c in enumerate(cols)},
                             **table_repr(case))
    assert order == colorder(case)


def table_values(case, stored=True):
    """the original parameter table, by (stripped) model name: name -> [value per column]; `stored`: the numbers as the
    column dtype of the file holds them (float32 columns hold the nearest float32)"""
    cols = list(case['cols'])
    dt = table_repr(case)['col_dtype']
    conv = (lambda v: float(np.array(v, dtype=float).astype(dt))) if stored else (lambda v: v)
    t = {nme: [conv(fv(case['cols'][c][i])) for c in cols] for i, nme in enumerate(case['names'])}
    for nme, vals in case.get('extra', []):
        t[nme] = [conv(fv(vals[c])) for c in cols]
    return t


def build(case, d):
    """package + fit results; returns (model_dir, infos)"""
    names = case['names']
    md = os.path.join(d, 'models')
    os.makedirs(md)
    pk.write_conf(md, aperture_dependent=False)
    idx = [names.index(x) for x in case['conv']]
    fnames = []
    for j, w in enumerate(case['wavs']):
        fn = 'F%d' % j
        fnames.append(fn)
        pk.write_convolved(md, fn, w, case['conv'], [[case['models'][i][j]] for i in idx], [[0.] for _ in idx])
    write_table(case, md)
    ext = pk.make_extinction(EXT_W, EXT_CHI)
    infos = []
    if case['mode'] == 'fitter':
        fitter = pk.make_fitter(md, fnames, [1.] * len(fnames), ext, (0., 30.))
        for s in case['sources']:
            src = pk.make_source(s['name'], s['flags'], s['flux'], s['err'])
            with common.quiet():
                info = fitter.fit(src)
                if s.get('flag_edit'):
                    # life-cycle: the source has been fitted (and its n_data looked at); the user masks / unmasks one
                    # band in place and fits the SAME object again; the new result is what gets listed
                    src.n_data
                    src.valid[s['flag_edit'][0]] = s['flag_edit'][1]
                    info = fitter.fit(src)
                infos.append(info)
    else:
        filters = [dict(aperture_arcsec=1., name=fn, wav=w) for fn, w in zip(fnames, case['wavs'])]
        meta = (md, filters, ext)
        for s in case['sources']:
            with np.errstate(all='ignore'):
                info = pk.make_fitinfo(case['conv'], [fv(s['chi2'][i]) for i in idx], av=[fv(s['av'][i]) for i in idx],
                                       sc=[fv(s['sc'][i]) for i in idx], flags=s['flags'], source_name=s['name'],
                                       meta=meta)
            if s.get('flag_edit'):
                info.source.n_data
                info.source.valid[s['flag_edit'][0]] = s['flag_edit'][1]
            infos.append(info)
    return md, infos


def measure(kind, chi2, n_data):
    c = np.asarray(chi2, dtype=float)
    with np.errstate(all='ignore'):
        if kind == 'C':
            return c
        if kind == 'D':
            return c - c[0]
        if kind == 'E':
            return c / n_data
        return (c - c[0]) / n_data


def rounds(case):
    return [[case['sel'], case['target']]] + [list(m) for m in case.get('more', [])]


def make_selector(case, ranked, kind=None, tgt=None):
    """selector tuple; thresholds lie between attained (finite) values of the first source"""
    if kind is None:
        kind, tgt = case['sel'], case['target']
    if kind == 'A':
        return ('A', 0)
    if kind == 'N':
        return ('N', tgt)
    c0, nd0 = ranked[0]['chi2'], ranked[0]['n_data']
    m = measure(kind, c0, nd0)
    m = m[np.isfinite(m)]
    n = len(m)
    if n == 0:
        return (kind, 1.)
    tgt = min(tgt, n)
    if tgt == 0:
        x = -1. if kind in ('D', 'F') else m[0] * 0.5
    elif tgt >= n:
        x = m[-1] * 2. + 1.
    else:
        x = 0.5 * (m[tgt - 1] + m[tgt])
    return (kind, float(x))


def expected_count(sel, chi2, n_data):
    """number of selected fits, straight from the documented meaning of the selector (comparisons with NaN are
    false); second value: smallest relative distance of the threshold from an attained value"""
    kind, x = sel
    n = len(chi2)
    if n == 0:
        return 0, 1.
    if kind == 'A':
        return n, 1.
    if kind == 'N':
        return min(int(x), n), 1.
    m = measure(kind, chi2, n_data)
    with np.errstate(all='ignore'):
        k = int(np.sum(m <= x))
        fin = m[np.isfinite(m)]
        marg = float(np.min(np.abs(fin - x) / (1e-300 + np.maximum(np.abs(fin), abs(x))))) if len(fin) else 1.
    return k, marg


def ranked_view(infos):
    out = []
    for info in infos:
        a = pk.fit_arrays(info)
        flags = [int(v) for v in info.source.valid]
        # a snapshot: plain copies, so that nothing the consumers do to the objects can reach it
        out.append(dict(name=str(info.source.name), names=list(a['name']), chi2=np.array(a['chi2'], dtype=float),
                        av=np.array(a['av'], dtype=float), sc=np.array(a['sc'], dtype=float), flags=flags,
                        n_data=sum(1 for f in flags if f in (1, 4))))
    return out


# ---- numbers at printed precision

def tok_num(tok):
    try:
        return float(tok)
    except (TypeError, ValueError):
        return None


def same_num(tok, v, fmt):
    """the printed token, read back as a number, equals `v` at the precision of `fmt`"""
    t = tok_num(tok)
    if t is None:
        return False
    v = float(v)
    if math.isnan(v):
        return math.isnan(t)
    if math.isinf(v):
        return t == v
    return t == float(fmt % v)


def nanmin_(s):
    f = [x for x in s if not math.isnan(x)]
    return min(f) if f else float('nan')


def nanmax_(s):
    f = [x for x in s if not math.isnan(x)]
    return max(f) if f else float('nan')


def parse_write_parameters(path):
    lines = open(path).read().split('\n')
    head = lines[1].split()
    blocks = []
    i = 3
    while i < len(lines) and lines[i].strip():
        t = lines[i].split()
        name, nd, nf = t[0], int(t[1]), int(t[2])
        rows = [lines[i + 1 + r].split() for r in range(nf) if i + 1 + r < len(lines)]
        blocks.append(dict(name=name, n_data=nd, n_fits=nf, rows=rows))
        i += 1 + nf
    return head, blocks


def parse_ranges(path):
    lines = open(path).read().split('\n')
    groups = lines[0].split()
    out = []
    for ln in lines[3:]:
        if not ln.strip():
            continue
        t = ln.split()
        trip = [t[3 + 3 * j: 6 + 3 * j] for j in range((len(t) - 3) // 3)]
        out.append(dict(name=t[0], n_data=int(t[1]), n_fits=int(t[2]), trip=trip, ntok=len(t)))
    return groups, out


def make_input(case, d, infos):
    """the one input every call of the history receives: a file, the result object, or the list / tuple"""
    from sedfitter.fit_info import FitInfoFile
    if case['form'] == 'file':
        path = os.path.join(d, 'fits.bin')
        f = FitInfoFile(path, 'w')
        for info in infos:
            f.write(info)
        f.close()
        return path
    if case['form'] == 'single':
        return infos[0]
    return tuple(infos) if case['as_tuple'] else list(infos)


def typed(v, kind, i):
    """the object the user puts into the dictionary for the number `v` (entry `i` of the dictionary)"""
    v = fv(v)
    if kind == 'int_first':
        return int(v) if i == 0 else v
    if kind == 'np_int':
        return [np.int64, np.int32, np.uint32 if v >= 0 else np.int64][i % 3](v)
    if kind == 'float32':
        return np.float32(v)
    if kind == 'bool':
        return [bool(v), np.bool_(v)][i % 2]
    if kind == 'mixed':
        return [int, np.float32, float, np.int64, np.float64][i % 5](v) if float(v) == int(v) else [np.float32, float, np.float64][i % 3](v)
    return v


def additional_arg(case):
    """the `additional=` argument as the user types it: floats, or (per dictionary) Python ints, numpy integers,
    float32, bools, mixtures"""
    kinds = case.get('add_types', {})
    return {k: {n: typed(v, kinds.get(k, 'float'), i) for i, (n, v) in enumerate(d.items())}
            for k, d in case['additional'].items()}


def additional_values(case):
    """the numbers those objects stand for"""
    return {k: {n: float(v) for n, v in d.items()} for k, d in additional_arg(case).items()}


def prepared_table(md):
    """what every consumer does to the parameter file before use (astropy / numpy calls only)"""
    from sedfitter.models import load_parameter_table
    t = load_parameter_table(md)
    t['MODEL_NAME'] = np.char.strip(t['MODEL_NAME'])
    t.sort('MODEL_NAME')
    return t


def capture_plots(fn):
    """run `fn()` with matplotlib's Figure.savefig replaced by a recorder: for every figure "saved", the vertices of
    the hatched patches and the offsets of the scatter collections on it.  Nothing of sedfitter is patched."""
    from matplotlib.figure import Figure
    import matplotlib.pyplot as plt
    rec = []
    orig = Figure.savefig

    def recorder(self, fname, *a, **k):
        r = dict(file=os.path.basename(str(fname)), hatched=[], scatter=[])
        for ax in self.axes:
            for p in ax.patches:
                if p.get_hatch():
                    r['hatched'].append(np.array(p.get_xy(), dtype=float))
            for c in ax.collections:
                r['scatter'].append(np.array(np.ma.getdata(c.get_offsets()), dtype=float).reshape(-1, 2))
        rec.append(r)

    Figure.savefig = recorder
    try:
        fn()
    finally:
        Figure.savefig = orig
        plt.close('all')
    return rec


def call_plots(case, d, src, sel):
    from sedfitter import plot_params_1d, plot_params_2d
    pl = case['plots']
    add = additional_arg(case)
    tv = table_values(case)
    cols = list(case['cols'])
    out = {}
    kw = dict(select_format=sel, bins=pl['bins'], log_x=pl['log_x'], format='png')
    j = cols.index(pl['p1'])
    allv = [v[j] for v in tv.values()]
    if pl['explicit']:
        lo, hi = min(allv), max(allv)
        pos = [v for v in allv if v > 0]
        kw['hist_range'] = (lo - 0.5 * abs(lo) - 0.25, hi + 0.5 * abs(hi) + 0.25) if not pl['log_x'] else (min(pos) * 0.5, max(pos) * 2.)
    if add:
        kw['additional'] = add
    out['kw1'] = dict(bins=pl['bins'], log_x=pl['log_x'], hist_range=kw.get('hist_range'))
    with common.quiet():
        with np.errstate(all='ignore'):
            out['p1'] = capture_plots(lambda: plot_params_1d(src, pl['p1'], output_dir=os.path.join(d, 'plots1d'), **kw))
    lx, ly = bool(pl.get('log2x')), bool(pl.get('log2y'))
    kw2 = dict(select_format=sel, log_x=lx, log_y=ly, format='png')
    jx, jy = cols.index(pl['px']), cols.index(pl['py'])
    xs, ys = [v[jx] for v in tv.values()], [v[jy] for v in tv.values()]
    if pl['explicit'] or lx or ly or min(xs) == max(xs) or min(ys) == max(ys):
        def rng_(vs, lg):
            if lg:
                pos = [v for v in vs if v > 0]
                return min(pos) * 0.5, max(pos) * 2.
            return min(vs) - abs(min(vs)) - 1., max(vs) + abs(max(vs)) + 1.
        kw2['bounds'] = rng_(xs, lx) + rng_(ys, ly)
    with common.quiet():
        with np.errstate(all='ignore'):
            out['p2'] = capture_plots(lambda: plot_params_2d(src, pl['px'], pl['py'], output_dir=os.path.join(d, 'plots2d'), **kw2))
    return out


def call_all(case, d, md, src, names_of_sources, sel):
    """one round: the consumers on the same input `src`; returns dict of raw outputs"""
    from sedfitter import write_parameters, write_parameter_ranges, extract_parameters
    from sedfitter.fit_info import FitInfoFile
    add = additional_arg(case)
    out = {}
    with common.quiet(), np.errstate(all='ignore'):
        p1 = os.path.join(d, 'wp.txt')
        if add:
            write_parameters(src, p1, select_format=sel, additional=add)
        else:
            write_parameters(src, p1, select_format=sel)
        out['wp'] = parse_write_parameters(p1)
        p2 = os.path.join(d, 'wr.txt')
        if add:
            write_parameter_ranges(src, p2, select_format=sel, additional=add)
        else:
            write_parameter_ranges(src, p2, select_format=sel)
        out['wr'] = parse_ranges(p2)
        xd = os.path.join(d, 'ex')
        os.makedirs(xd)
        kw = dict(input=src, output_prefix=xd + '/x_', select_format=sel, header=case['header'])
        if case['suffix']:
            kw['output_suffix'] = case['suffix']
        if case['extract'] != 'all':
            kw['parameters'] = list(case['extract'])
        extract_parameters(**kw)
        out['ex'] = {}
        for sname in names_of_sources:
            p = xd + '/x_' + sname + (case['suffix'] or '')
            out['ex'][sname] = [ln.split() for ln in open(p).read().split('\n') if ln.strip()]
        # the table handed on by every consumer: stripped, sorted by name, then FitInfo.filter_table
        t = prepared_table(md)
        out['ft'] = []
        for info in FitInfoFile(src, 'r'):
            info.keep(sel)
            ts = info.filter_table(t, additional=add) if add else info.filter_table(t)
            out['ft'].append(dict(cols=list(ts.columns), names=[str(x) for x in ts['MODEL_NAME']],
                                  rows=[[float(ts[c][i]) for c in ts.columns if c != 'MODEL_NAME'] for i in range(len(ts))]))
    if case.get('plots'):
        out['plots'] = call_plots(case, d, src, sel)
    return out


def static_branches(case):
    tr_ = table_repr(case)
    names = case['names']
    n = len(names)
    cols = list(case['cols'])
    br = {'input_' + case['form'], 'additional_%d' % min(2, len(case['additional'])),
          'fits_from_fitter' if case['mode'] == 'fitter' else 'fits_direct',
          'extract_all' if case['extract'] == 'all' else 'extract_subset'}
    if len(cols) in (1, 4):
        br.add('cols_%d' % len(cols))
    if n in (1, 8):
        br.add('models_%d' % n)
    if any(t != t.strip() for t in case['table']):
        br.add('padded_table_names')
    if [t.strip() for t in case['table']] != sorted(t.strip() for t in case['table']):
        br.add('table_not_sorted')
    if case.get('extra'):
        br.add('extra_table_rows')
    if any(s_.get('flag_edit') for s_ in case['sources']):
        br |= {'flag_edited_in_place', 'flag_edited_in_place_' + case['form']}
    br |= {'table_names_' + tr_['name_dtype'], 'model_name_column_' + tr_['name_pos'], 'column_dtype_' + tr_['col_dtype'].strip('>') + ('_bigendian' if tr_['col_dtype'].startswith('>') else '')}
    br |= {'additional_typed_' + v for v in case.get('add_types', {}).values()}
    flat = [v for c in cols for v in case['cols'][c]]
    if 'nan' in flat:
        br.add('param_nan')
    if 'inf' in flat or '-inf' in flat:
        br.add('param_inf')
    if case['mode'] == 'direct':
        fl = [v for s in case['sources'] for k in ('chi2', 'av', 'sc') for v in s[k]]
        if 'nan' in fl:
            br.add('fit_nan')
        if 'inf' in fl or '-inf' in fl:
            br.add('fit_inf')
    return br


def impl_side(case, d):
    """returns (property failures, layout differences, observations, branches, relaxed)"""
    br = static_branches(case)
    md, infos = build(case, d)
    ranked = ranked_view(infos)          # the ORIGINAL results, before any consumer has seen them
    if case.get('defect'):
        return refusal_round(case, d, md, infos, ranked, br)
    src = make_input(case, d, infos)
    steps = []
    relaxed = 0
    fails, layout = [], []
    rs = rounds(case)
    br.add('history_%d' % len(rs))
    orig = case
    for ri, (kind, tgt) in enumerate(rs):
        rw = orig.get('rewrites', {}).get(str(ri))
        if rw:
            # the user regenerates the parameter file of the same model directory between two calls
            br.add('parameters_rewritten')
            if len(rw['cols']) > len(case['cols']):
                br.add('rewrite_added_column')
            case = view(case, rw)
            write_table(case, md)
        sel = make_selector(case, ranked, kind, tgt)
        br.add('sel_' + kind)
        sd = os.path.join(d, 'round%d' % ri)
        os.makedirs(sd)
        try:
            out = call_all(case, sd, md, src, [r['name'] for r in ranked], sel)
        except Exception as ex:
            import traceback
            return (['round %d: post-processing raised %s: %s (selector %r, form %s)\n%s'
                     % (ri + 1, type(ex).__name__, ex, sel, case['form'], traceback.format_exc()[-1200:])], [],
                    dict(ranked=ranked, steps=steps), br, 0)
        br |= {'write_parameters', 'write_parameter_ranges', 'extract_parameters', 'filter_table'}
        f, lay, ks, rel_ = check_round(case, ranked, sel, out, br)
        relaxed += rel_
        hist = ' -> '.join(repr(st['sel']) for st in steps) or None
        pre = 'round %d of %d on the same %s (earlier selectors: %s%s): ' % (
            ri + 1, len(rs), case['form'], hist, '; parameters.fits rewritten before this round' if rw else '')
        fails += [pre + x for x in f]
        layout += [pre + x for x in lay]
        if ks is None:
            return fails, layout, dict(ranked=ranked, steps=steps), br, 0
        if steps:
            k0, k1 = steps[-1]['ks'][0], ks[0]
            if k0 < k1:
                br.add('narrow_then_wide_' + case['form'])
            elif k0 > k1:
                br.add('wide_then_narrow')
            if list(steps[-1]['sel']) == list(sel):
                br.add('repeated_selector')
        steps.append(dict(sel=sel, ks=ks, out=out, ranked=ranked, case=case))
    return fails, layout, dict(ranked=ranked, steps=steps), br, relaxed


def check_row(row, want, fmts):
    """one printed row against the expected entries; returns None, ('layout', msg) or ('value', msg)"""
    if len(row) != len(want):
        return ('layout', '%d tokens, expected %d' % (len(row), len(want)))
    for tok, w, f in zip(row, want, fmts):
        if f == 'skip':
            continue
        if f is None:
            if tok != str(w):
                return ('value', 'token %r, expected %r' % (tok, w))
        elif not same_num(tok, w, f):
            return ('value', 'token %r, expected %s' % (tok, (f % w).strip()))
    return None


def check_round(case, ranked, sel, out, br):
    """the property on the outputs of one round, against the original results;
    returns (property failures, layout differences, ks, relaxed)"""
    names = case['names']
    n = len(names)
    cols = list(case['cols'])
    add = additional_values(case)
    addk = list(add)
    relaxed = 0
    fails, layout = [], []
    table = table_values(case)                 # the original table, by name
    head, blocks = out['wp']
    want_head = ['fit_id', 'model_name', 'chi2', 'av', 'scale'] + [c.lower() for c in cols] + addk
    if head != want_head:
        layout.append('write_parameters: header %r, expected %r' % (head, want_head))
    groups, rng_rows = out['wr']
    if groups != want_head[2:]:
        layout.append('write_parameter_ranges: column groups %r, expected %r' % (groups, want_head[2:]))
    if len(blocks) != len(ranked) or len(rng_rows) != len(ranked) or len(out['ft']) != len(ranked):
        fails.append('number of sources listed: %d / %d / %d, expected %d' % (len(blocks), len(rng_rows), len(out['ft']), len(ranked)))
        return fails, layout, None, 0
    npar = len(cols) + len(addk)
    # the printed labels say which column is which: values are compared under their own label; a consistent
    # re-ordering of labels and values is a layout difference only
    labels = want_head[5:]

    def by_label(printed):
        """for every printed column label: the index of the parameter it names, or None for a label that names no
        parameter (such a column cannot be checked: the header mismatch is reported as layout)"""
        if len(printed) != len(labels) or len(set(labels)) != len(labels):
            return list(range(len(labels))), labels
        return [labels.index(l) if l in labels else None for l in printed], printed
    pos_wp, order_wp = by_label(head[5:])
    pos_wr_, order_wr = by_label(groups[3:])
    pos_wr = [0, 1, 2] + [None if j is None else 3 + j for j in pos_wr_]
    ks = []
    for si, r in enumerate(ranked):
        k, marg = expected_count(sel, r['chi2'], r['n_data'])
        if marg < 1e-9:
            relaxed += 1
            k = blocks[si]['n_fits']
        ks.append(k)
        br.add('selected_0' if k == 0 else ('selected_all' if k == n else 'selected_some'))
        sel_names = r['names'][:k]
        exp_rows = [table[nme] + [add[a][nme] for a in addk] for nme in sel_names]

        # ---- write_parameters
        b = blocks[si]
        if (b['name'], b['n_data'], b['n_fits']) != (r['name'], r['n_data'], k):
            fails.append('write_parameters source line (%r, n_data %d, n_fits %d); expected (%r, %d, %d) for selector %r'
                         % (b['name'], b['n_data'], b['n_fits'], r['name'], r['n_data'], k, sel))
        for i, row in enumerate(b['rows'][:k]):
            want = [i + 1, sel_names[i], r['chi2'][i], r['av'][i], r['sc'][i]] + [None if j is None else exp_rows[i][j] for j in pos_wp]
            res = check_row(row, want, ['%d', None, '%10.3f', '%10.3f', '%10.3f'] + ['skip' if j is None else '%10.3e' for j in pos_wp])
            if res:
                shown = row[1] if len(row) > 1 else None
                msg = ('write_parameters source %r fit %d: printed %r (%s); fit %d is model %r whose table row + '
                       'additional is %r (table row of the printed name %r: %r)'
                       % (r['name'], i + 1, row, res[1], i + 1, sel_names[i], exp_rows[i], shown, table.get(shown)))
                (layout if res[0] == 'layout' else fails).append(msg)
        # ---- write_parameter_ranges
        rr = rng_rows[si]
        if (rr['name'], rr['n_data'], rr['n_fits']) != (r['name'], r['n_data'], k):
            fails.append('write_parameter_ranges source line (%r, %d, %d); expected (%r, %d, %d)'
                         % (rr['name'], rr['n_data'], rr['n_fits'], r['name'], r['n_data'], k))
        series = [list(r['chi2'][:k]), list(r['av'][:k]), list(r['sc'][:k])] + \
                 [[row[j] for row in exp_rows] for j in range(npar)]
        series = [None if j is None else series[j] for j in pos_wr]
        if len(rr['trip']) != len(series) or any(len(t) != 3 for t in rr['trip']):
            layout.append('write_parameter_ranges source %r: %d groups of tokens, expected %d triples' % (r['name'], len(rr['trip']), len(series)))
        else:
            for gi, (t, s) in enumerate(zip(rr['trip'], series)):
                if s is None:
                    continue
                if k == 0:
                    if any(tok_num(x) is not None for x in t):
                        fails.append('write_parameter_ranges source %r group %d: numbers %r printed for no selected fit' % (r['name'], gi, t))
                    elif t != ['-', '-', '-']:
                        layout.append('write_parameter_ranges source %r group %d: placeholder %r' % (r['name'], gi, t))
                    continue
                s = [float(x) for x in s]
                want3 = [nanmin_(s), s[0], nanmax_(s)]
                if all(math.isnan(x) for x in s):
                    br.add('range_all_nan')
                if not all(same_num(tok, w, '%10.3e') for tok, w in zip(t, want3)):
                    fails.append('write_parameter_ranges source %r group %d (label %r): printed %r; min / rank-1 / max of that '
                                 'quantity over the %d selected fits (NaN skipped): %r'
                                 % (r['name'], gi, (['chi2', 'av', 'scale'] + order_wr)[gi], t, k, [('%10.3e' % w).strip() for w in want3]))
        # ---- extract_parameters
        ex = out['ex'][r['name']]
        pars = colorder(case) if case['extract'] == 'all' else list(case['extract'])
        if case['header']:
            if not ex or ex[0] != ['CHI2', 'AV', 'SC'] + pars:
                layout.append('extract_parameters header %r, expected %r' % (ex[:1], ['CHI2', 'AV', 'SC'] + pars))
            ex = ex[1:]
        if len(ex) != k:
            fails.append('extract_parameters source %r: %d rows, expected %d' % (r['name'], len(ex), k))
        for i, row in enumerate(ex[:k]):
            want = [r['chi2'][i], r['av'][i], r['sc'][i]] + \
                   [sel_names[i] if p == 'MODEL_NAME' else table[sel_names[i]][cols.index(p)] for p in pars]
            res = check_row(row, want, ['%11.3e'] * 3 + [None if p == 'MODEL_NAME' else '%11.3e' for p in pars])
            if res:
                msg = 'extract_parameters source %r row %d: %r (%s); expected (by model name %r) %r' % (r['name'], i + 1, row, res[1], sel_names[i], want)
                (layout if res[0] == 'layout' else fails).append(msg)
        # ---- FitInfo.filter_table on the prepared table
        ft = out['ft'][si]
        same_rows = len(ft['rows']) == len(exp_rows) and all(
            len(a) == len(b_) and all((x == y) or (math.isnan(x) and math.isnan(y)) for x, y in zip(a, b_))
            for a, b_ in zip(ft['rows'], exp_rows))
        if ft['names'] != list(sel_names) or not same_rows or ft['cols'] != colorder(case) + addk:
            fails.append('filter_table source %r: columns %r names %r rows %r; expected %r %r %r'
                         % (r['name'], ft['cols'], ft['names'], ft['rows'], colorder(case) + addk,
                            list(sel_names), exp_rows))
        # ---- the parameter plots
        if 'plots' in out:
            fails += check_plots(case, r, k, sel_names, table, out['plots'], br)
    return fails, layout, ks, relaxed


def check_plots(case, r, k, sel_names, table, pl_out, br):
    """what plot_params_1d / plot_params_2d drew for this source against the values looked up by model name"""
    fails = []
    pl = case['plots']
    cols = list(case['cols'])
    br |= {'plot_params_1d', 'plot_params_2d', 'plots_input_' + case['form'],
           'plots_selected_0' if k == 0 else 'plots_selected_some'}
    if pl['log_x']:
        br.add('plot_1d_log_x')
    if case['additional']:
        br.add('plot_1d_additional')
    if any(t != t.strip() for t in case['table']) and [t.strip() for t in case['table']] != sorted(t.strip() for t in case['table']):
        br.add('plots_padded_unsorted_table')
    # 1-d: hatched polygon = histogram of the selected fits' values over the bin edges
    j = cols.index(pl['p1'])
    recs = [x for x in pl_out['p1'] if x['file'] == r['name'] + '.png']
    if len(recs) != 1 or len(recs[0]['hatched']) != 1:
        fails.append('plot_params_1d source %r: %d saved figures / %r hatched polygons, expected 1 / 1'
                     % (r['name'], len(recs), [len(x['hatched']) for x in recs]))
    else:
        xy = recs[0]['hatched'][0]
        bins = pl['bins']
        allv = np.array([v[j] for v in table.values()], dtype=float)
        rng0 = allv[allv > 0] if pl['log_x'] else allv        # a logarithmic axis spans the positive values of the column
        lo, hi = pl_out['kw1']['hist_range'] or (rng0.min(), rng0.max())
        vals = np.array([table[nme][j] for nme in sel_names], dtype=float)
        if pl['log_x']:
            if np.any(vals <= 0):
                br.add('plot_1d_log_x_nonpositive_selected')
            with np.errstate(all='ignore'):           # log10 of a non-positive value is NaN / -inf: not in any bin
                hist, edges = np.histogram(np.log10(vals), bins=bins, range=[np.log10(lo), np.log10(hi)])
            edges = 10. ** edges
        else:
            hist, edges = np.histogram(vals, bins=bins, range=[lo, hi])
        if len(xy) < 2 * bins:
            fails.append('plot_params_1d source %r: polygon with %d vertices, expected >= %d' % (r['name'], len(xy), 2 * bins))
        else:
            got_h = [float(xy[2 * i][1]) for i in range(bins)]
            got_e = [float(xy[2 * i][0]) for i in range(bins)] + [float(xy[2 * bins - 1][0])]
            want_h = [max(float(h), 0.01) for h in hist]
            ok_e = all(abs(a - b) <= 1e-9 * (abs(a) + abs(b)) + 1e-300 for a, b in zip(got_e, edges))
            if got_h != want_h or [float(xy[2 * i + 1][1]) for i in range(bins)] != want_h or not ok_e:
                fails.append('plot_params_1d source %r parameter %s: hatched histogram %r over edges %r; histogram of the '
                             'values of the %d selected fits looked up by model name (%r): %r over %r'
                             % (r['name'], pl['p1'], got_h, [float(x) for x in got_e], k, [float(x) for x in vals],
                                want_h, [float(x) for x in edges]))
    # 2-d: scatter offsets = (x, y) parameters of the selected fits, in rank order
    jx, jy = cols.index(pl['px']), cols.index(pl['py'])
    recs = [x for x in pl_out['p2'] if x['file'] == r['name'] + '.png']
    if len(recs) != 1 or len(recs[0]['scatter']) != 1:
        fails.append('plot_params_2d source %r: %d saved figures / %r scatter collections, expected 1 / 1'
                     % (r['name'], len(recs), [len(x['scatter']) for x in recs]))
    else:
        pts = [tuple(float(v) for v in p) for p in recs[0]['scatter'][0]]
        want = [(table[nme][jx], table[nme][jy]) for nme in sel_names]
        if pl.get('log2x'):
            br.add('plot_2d_log_x')
        if pl.get('log2y'):
            br.add('plot_2d_log_y')
        if (pl.get('log2x') and any(w[0] <= 0 for w in want)) or (pl.get('log2y') and any(w[1] <= 0 for w in want)):
            br.add('plot_2d_log_nonpositive_selected')
        if pts != want:
            fails.append('plot_params_2d source %r (%s, %s): plotted points %r; parameters of the %d selected fits looked '
                         'up by model name: %r' % (r['name'], pl['px'], pl['py'], pts, k, want))
    return fails


# ----------------------------------------------------------------------------- compared refusals

ERR_CLASS = {'dupColumn': 'Exception', 'sortFailed': 'Exception', 'keyError': 'KeyError', 'indexError': 'IndexError',
             'noModelName': 'ValueError'}


def model_filter_full(case, cols, mn, prep=1):
    """driver `filtertablefull`; returns ('ok', positions, names, extras) or ('err', kind)"""
    add = additional_values(case)
    line = ['filtertablefull %d' % prep, names_line(cols), names_line(case['table']), names_line(mn), str(len(add))]
    for a, dct in add.items():
        line += [enc(a), str(len(dct))]
        for nme, v in dct.items():
            line += [enc(nme), rat(v) if math.isfinite(v) else '0']      # values do not decide a refusal
    raw = common.driver().ask_raw(' '.join(line))
    toks = raw.split()
    if toks and toks[0] == 'err':
        return ('err', toks[1] if len(toks) > 1 else '?')
    if not toks or toks[0] != 'ok':
        raise common.DriverError('driver answered: ' + raw[:300])
    t = common.Toks(toks[1:])
    pos = t.nats()
    nm = read_names(t)
    extras = [[float(x) for x in t.rats()] for _ in nm]
    return ('ok', pos, nm, extras)


def refusal_round(case, d, md, infos, ranked, br):
    """one round on an input the code must refuse (or, for a dictionary that lacks an unselected model, accept):
    implementation outcome class against the model's `filterTableFull`"""
    from sedfitter import write_parameters, write_parameter_ranges
    from sedfitter.fit_info import FitInfoFile
    src = make_input(case, d, infos)
    sel = make_selector(case, ranked)
    add = additional_arg(case)
    cols = ['MODEL_NAME'] + list(case['cols'])
    dis = []
    # model: sources in order, first refusal wins
    want = None
    ks = []
    for r in ranked:
        k, _ = expected_count(sel, r['chi2'], r['n_data'])
        ks.append(k)
        mcols = list(case['cols']) if case['defect'] == 'no_model_name' else cols
        m = model_filter_full(case, mcols, r['names'][:k])
        if m[0] == 'err' and want is None:
            want = ERR_CLASS.get(m[1], m[1])

    def outcome(fn):
        try:
            with common.quiet(), np.errstate(all='ignore'):
                fn()
            return None
        except Exception as ex:
            return type(ex).__name__

    if case['defect'] == 'no_model_name':
        br.add('refuse_no_model_name')
        t = prepared_table(md)
        t.remove_column('MODEL_NAME')
        got = {}
        for info in FitInfoFile(src, 'r'):
            info.keep(sel)
            got['filter_table'] = outcome(lambda: info.filter_table(t))
            break
    else:
        t = prepared_table(md)

        def direct():
            for info in FitInfoFile(src, 'r'):
                info.keep(sel)
                info.filter_table(t, additional=add)
        got = {'write_parameters': outcome(lambda: write_parameters(src, os.path.join(d, 'wp.txt'), select_format=sel, additional=add)),
               'write_parameter_ranges': outcome(lambda: write_parameter_ranges(src, os.path.join(d, 'wr.txt'), select_format=sel, additional=add)),
               'filter_table': outcome(direct)}
        if case['defect'] == 'dup_key':
            br.add('refuse_dup_column')
        else:
            br.add('refuse_missing_key' if want else 'missing_key_not_selected')
    for what, g in got.items():
        if g != want:
            dis.append('%s (%s, selector %r, selected %r): implementation %s, model %s'
                       % (what, case['defect'], sel, ks, 'raised ' + g if g else 'returned', 'raises ' + want if want else 'returns'))
    # refusals are model / implementation correspondences: reported as layout-class (violates=None)
    return [], dis, dict(ranked=ranked, steps=[], refusal=True), br, 0


# ----------------------------------------------------------------------------- model side

def eftok(v):
    v = float(v)
    if math.isnan(v):
        return 'nan'
    if math.isinf(v):
        return 'inf' if v > 0 else '-inf'
    return rat(v)


def efval(tok):
    return float(tok) if tok in ('nan', 'inf', '-inf') else float(Fraction(tok))


def model_side(case, obs):
    """for each round, for each source: (table positions, names, extras, ranges per printed group, n_data, n_fits),
    always from the original results"""
    return [model_round(st.get('case', case), st) for st in obs['steps']]


def compare_model(case, obs, mod):
    dis = []
    for ri, (st, m) in enumerate(zip(obs['steps'], mod)):
        dis += ['round %d (selector %r): %s' % (ri + 1, st['sel'], x) for x in compare_round(st.get('case', case), st, m)]
    return dis


def model_round(case, obs):
    drv = common.driver()
    add = additional_values(case)
    addk = list(add)
    cols = list(case['cols'])
    tv = table_values(case)
    res = []
    for r, k in zip(obs['ranked'], obs['ks']):
        mn = r['names'][:k]
        # additional values travel as exact doubles; NaN / inf entries are passed through the harness by name
        line = ['filtertable 1', names_line(case['table']), names_line(mn), str(len(addk))]
        for a in addk:
            line.append(str(len(add[a])))
            for nme, v in add[a].items():
                line += [enc(nme), rat(v) if math.isfinite(v) else '0']
        t = drv.ask(' '.join(line))
        pos = t.nats()
        nm = read_names(t)
        extras = [[float(x) for x in t.rats()] for _ in nm]
        # parameter file rows, in file order; non-finite additional values restored by the name the model attached
        rows = []
        for i, p in enumerate(pos):
            ex = [v if math.isfinite(add[a][nm[i]]) else add[a][nm[i]] for a, v in zip(addk, extras[i])]
            rows.append(tv[case['table'][p].strip()] + ex)
        series = [list(r['chi2'][:k]), list(r['av'][:k]), list(r['sc'][:k])] + \
                 [[row[j] for row in rows] for j in range(len(cols) + len(addk))]
        trip = []
        for s in series:
            tt = drv.ask('ranges %d %s' % (len(s), ' '.join(eftok(x) for x in s)))
            if tt.nat() == 0:
                trip.append(None)
            else:
                trip.append([efval(tt.tok()) for _ in range(3)])
        tc = drv.ask('parcounts %d %s %d' % (len(r['flags']), ' '.join(str(f) for f in r['flags']), k))
        res.append(dict(pos=pos, names=nm, rows=rows, trip=trip, n_data=tc.nat(), n_fits=tc.nat()))
    return res


def unsigned_zero(tok):
    """the model computes in exact rationals: the sign of a floating-point zero is not modelled"""
    v = tok_num(tok)
    return tok[1:] if v is not None and tok.startswith('-') and v == 0. else tok


def feq(a, b):
    return a == b or (math.isnan(a) and math.isnan(b))


def compare_round(case, obs, mod):
    dis = []
    head, blocks = obs['out']['wp']
    groups, rng_rows = obs['out']['wr']
    for si, (r, k, m) in enumerate(zip(obs['ranked'], obs['ks'], mod)):
        b = blocks[si]
        if (b['n_data'], b['n_fits']) != (m['n_data'], m['n_fits']):
            dis.append('source %r: printed n_data, n_fits = %d, %d; model counts %d, %d'
                       % (r['name'], b['n_data'], b['n_fits'], m['n_data'], m['n_fits']))
        if m['names'] != list(r['names'][:k]):
            dis.append('source %r: model filterTable names %r, fit names %r' % (r['name'], m['names'], r['names'][:k]))
        for i, row in enumerate(b['rows'][:k]):
            if len(row[5:]) != len(m['rows'][i]) or not all(same_num(unsigned_zero(x), v, '%10.3e') for x, v in zip(row[5:], m['rows'][i])):
                dis.append('source %r fit %d: printed parameters %r; model shows parameter-file row %d: %r'
                           % (r['name'], i + 1, row[5:], m['pos'][i], m['rows'][i]))
        ft = obs['out']['ft'][si]
        if len(ft['rows']) != len(m['rows']) or not all(len(a) == len(b_) and all(feq(x, float(y)) for x, y in zip(a, b_))
                                                          for a, b_ in zip(ft['rows'], m['rows'])):
            dis.append('source %r: filter_table rows %r, model %r' % (r['name'], ft['rows'], m['rows']))
        for gi, (t, w) in enumerate(zip(rng_rows[si]['trip'], m['trip'])):
            if w is None:
                if any(tok_num(x) is not None for x in t):
                    dis.append('source %r group %d: printed ranges %r, model: no selected fit' % (r['name'], gi, t))
            elif len(t) != 3 or not all(same_num(unsigned_zero(x), v, '%10.3e') for x, v in zip(t, w)):
                dis.append('source %r group %d: printed ranges %r, model paramRangesEF %r' % (r['name'], gi, t, w))
    return dis


def nontrivial(case, obs):
    if len(case['names']) < 2:
        return False
    tpos = {t.strip(): i for i, t in enumerate(case['table'])}
    for st in obs['steps']:
        for r, k in zip(obs['ranked'], st['ks']):
            if any(tpos[nme] != i for i, nme in enumerate(r['names'][:k])):
                return True
    return bool(obs.get('refusal'))


def run_case(case):
    d = tempfile.mkdtemp(prefix='c09_')
    try:
        fails, layout, obs, br, relaxed = impl_side(case, d)
        key = common.canon_hash(case)
        if fails:
            return CaseResult(False, detail='\n'.join(fails[:5]), violates=True, branches=br, key=key)
        if layout:
            return CaseResult(False, detail='\n'.join(layout[:5]), violates=None, branches=br, key=key)
        mod = model_side(case, obs)
        dis = compare_model(case, obs, mod)
        if dis:
            return CaseResult(False, detail='\n'.join(dis[:5]), violates=None, branches=br, key=key)
        sample = dict(n_models=len(case['names']), table=case['table'], columns=list(case['cols']),
                      additional=list(case['additional']), form=case['form'], mode=case['mode'], defect=case.get('defect'),
                      plots=bool(case.get('plots')),
                      history=[dict(selector=list(st['sel']), selected=st['ks']) for st in obs['steps']],
                      fit_order=obs['ranked'][0]['names'])
        return CaseResult(True, branches=br, key=key, nontrivial=nontrivial(case, obs), sample=sample, relaxed=relaxed)
    finally:
        shutil.rmtree(d, ignore_errors=True)


def search(seed, tier, disagreeing):
    """the property itself on the real code (lookup by model name in the original table; no model)"""
    found, tried = [], 0
    sweep = [c for c in disagreeing if not c.get('defect')]
    for i in range(60 if tier == 'quick' else 300):
        c = gen_case(case_rng(seed, PID + '/search', i))
        if not c.get('defect'):
            sweep.append(c)
    for case in sweep:
        d = tempfile.mkdtemp(prefix='c09s_')
        try:
            tried += 1
            fails = impl_side(case, d)[0]
            if fails:
                found.append((case, '\n'.join(fails[:5])))
                if len(found) >= 3:
                    break
        except Exception:
            pass
        finally:
            shutil.rmtree(d, ignore_errors=True)
    return found, tried


def shrink(case):
    """fewer sources, fewer columns, no additional, while the property still fails on the real code"""
    def fails(c):
        d = tempfile.mkdtemp(prefix='c09k_')
        try:
            return bool(impl_side(c, d)[0])
        except Exception:
            return False
        finally:
            shutil.rmtree(d, ignore_errors=True)
    cur = case
    for cand in (lambda c: dict(c, sources=c['sources'][:1]) if len(c['sources']) > 1 else None,
                 lambda c: dict(c, additional={}) if c['additional'] else None,
                 lambda c: dict(c, plots=None) if c.get('plots') else None):
        c = cand(cur)
        if c is not None and fails(c):
            cur = c
    return cur
