"""C09 — parameter listings follow the fit ranking, for any parameter-file order.

Real side: a small distance-independent package (convolved/*.fits written by the harness, parameters.fits
with 1–4 numeric columns in an arbitrary row order, names optionally blank-padded); fit results either from
`Fitter.fit` or built directly (`FitInfo` with meta pointing at the package); then `write_parameters`,
`write_parameter_ranges`, `extract_parameters` and `FitInfo.filter_table` (on the stripped + name-sorted table, as
the parameter plots call it), with the results given as a file / a single FitInfo / a list.  A case is a call
*history*: 1-3 successive rounds of the four consumers on the SAME input (the same file, the same object, the same
list) with different selectors (narrow then wide, wide then narrow, repeated).  The text outputs of EVERY round are
parsed back and every printed row is looked up *by model name* in the original table; the expected selection of
every round is computed from a snapshot of the ORIGINAL fit results taken before the first call.

Model side: driver `filtertable` (= `prepTable` + `filterTableAdd`) predicts, for the selected fit names, which
row of the parameter file is shown in each line and which additional values are attached; `ranges`
(= `paramRanges`) predicts min / best / max; `parcounts` (= `counts`) predicts n_data / n_fits.
"""
import math
import os
import shutil
import tempfile

import numpy as np

from . import common
from .common import CaseResult, case_rng, nice, rat, Fraction
from . import packages as pk
from .c07 import gen_names, enc, names_line, read_names

PID = 'C09'
RULE = ('cases = (model names, row order of the convolved files, row order and blank padding of parameters.fits, 1-4 '
        'numeric columns, optional additional dictionaries, 1-3 fit results from Fitter.fit or built directly, a '
        'selector of every form with a threshold placed between attained values so that 0..all fits are selected, '
        'input form file / single / list, 0-2 further rounds on the same input with other selectors) drawn from the '
        'quantifier of C09; non-trivial = at least 2 models and at '
        'least 1 selected fit whose table row is not at the same position as its rank; distinct = distinct '
        'canonical hash of the generated inputs')
REQUIRED_BRANCHES = ['write_parameters', 'write_parameter_ranges', 'extract_parameters', 'filter_table',
                     'input_file', 'input_single', 'input_list',
                     'sel_A', 'sel_N', 'sel_C', 'sel_D', 'sel_E', 'sel_F',
                     'selected_0', 'selected_some', 'selected_all',
                     'additional_0', 'additional_1', 'additional_2', 'padded_table_names', 'table_not_sorted',
                     'cols_1', 'cols_4', 'fits_from_fitter', 'fits_direct', 'extract_all', 'extract_subset',
                     'models_1', 'models_8',
                     'history_1', 'history_2', 'history_3', 'narrow_then_wide_single', 'narrow_then_wide_list',
                     'narrow_then_wide_file', 'wide_then_narrow', 'repeated_selector']
ASSUMPTIONS = ['text outputs are compared at the precision they are printed with (%10.3e / %10.3f / %11.3e): the '
               'expected number is formatted the same way and the strings must be equal',
               'selector thresholds are placed between attained values (C05 owns the selection rule itself)',
               'numpy / astropy order U-strings by code point, as the model orders String',
               'the sign of a floating-point zero is not modelled (exact rationals); generated inputs contain no -0.0']
EXHAUSTIVE = {'quick': False, 'thorough': True}
N = {'quick': 600, 'thorough': 8000}
FLAGS = [0, 1, 2, 3, 4, 9]
COLNAMES = ['PAR1', 'Q2', 'LOGX', 'T4']
EXT_W = [0.05, 0.3, 0.55, 1., 3., 10., 50., 3000.]
EXT_CHI = [2000., 600., 300., 120., 40., 20., 8., 1.]


# ----------------------------------------------------------------------------- generation

def distinct_values(rng, n, signed=True):
    vals = []
    while len(vals) < n:
        v = nice(rng, 1e-3, 1e5, 3)
        if signed and rng.random() < 0.3:
            v = -v
        if all(abs(v - w) > 0.02 * max(abs(v), abs(w)) for w in vals):
            vals.append(v)
    return vals


def gen_source(rng, nb, idx):
    flags = [rng.choice(FLAGS) for _ in range(nb)]
    pos = list(range(nb))
    rng.shuffle(pos)
    for j in pos[:2]:
        if flags[j] not in (1, 4):
            flags[j] = rng.choice([1, 1, 4])
    flux, err = [], []
    for j in range(nb):
        f = nice(rng, 0.05, 50., 3)
        if flags[j] == 4:
            flux.append(float('%.4f' % math.log10(f)))
            err.append(nice(rng, 0.02, 0.3, 2))
        elif flags[j] in (2, 3):
            flux.append(f)
            err.append(rng.choice([0., 0.5, 0.9, round(rng.random() * 0.98, 2)]))
        else:
            flux.append(f)
            err.append(float('%.3g' % (f * nice(rng, 0.05, 0.4, 2))))
    return dict(name='src%d_%s' % (idx, ''.join(rng.choice('abcXYZ09') for _ in range(rng.randint(0, 6)))),
                flags=flags, flux=flux, err=err)


def gen_case(rng, directed=None, table_perm=None, n=None):
    directed = directed or {}
    n = n or directed.get('n') or rng.randint(1, 8)
    names = gen_names(rng, n, rng.random() < 0.2)
    conv = names[:]
    rng.shuffle(conv)
    table = names[:]
    rng.shuffle(table)
    if table_perm is not None:
        table = [names[i] for i in table_perm]
    pad = directed.get('pad', rng.random() < 0.5)
    table_names = [t + (' ' * rng.randint(1, max(1, min(3, 30 - len(t)))) if pad and len(t) < 30 and rng.random() < 0.6 else '')
                   for t in table]
    ncols = directed.get('ncols') or rng.randint(1, 4)
    cols = {COLNAMES[j]: distinct_values(rng, n) for j in range(ncols)}         # value per model index
    nadd = directed.get('nadd', rng.choice([0, 0, 1, 1, 2]))
    additional = {['extra', 'bonus'][j]: dict(zip(names, distinct_values(rng, n))) for j in range(nadd)}
    nb = rng.randint(3, 5)
    mode = directed.get('mode', rng.choice(['fitter', 'direct']))
    form = directed.get('form', rng.choice(['file', 'single', 'list']))
    nsrc = 1 if form == 'single' else rng.randint(1, 3)
    sources = []
    for i in range(nsrc):
        s = gen_source(rng, nb, i)
        s['chi2'] = distinct_values(rng, n, signed=False)
        s['av'] = [round(rng.uniform(0, 20), 3) + 0. for _ in range(n)]
        s['sc'] = [round(rng.uniform(-2, 2), 3) + 0. for _ in range(n)]       # + 0.: no negative zero
        sources.append(s)
    wavs = sorted({nice(rng, 0.4, 200., 3) for _ in range(nb)})
    while len(wavs) < nb:
        wavs = sorted(set(wavs) | {nice(rng, 0.4, 200., 3)})
    models = [[nice(rng, 0.01, 100., 3) for _ in range(nb)] for _ in range(n)]   # per model index
    kind = directed.get('sel', rng.choice(['A', 'N', 'C', 'D', 'E', 'F']))
    target = directed.get('target', rng.choice([0, n, rng.randint(0, n), rng.randint(0, n)]))
    if kind == 'N' and 'target' not in directed and rng.random() < 0.2:
        target = n + rng.randint(1, 3)
    # further rounds on the same input: [kind, target] each
    if 'more' in directed:
        more = [list(m) for m in directed['more']]
    elif 'sel' in directed or rng.random() < 0.45:
        more = []
    else:
        pat = rng.choice(['nw', 'nw', 'wn', 'rep', 'rand'])
        k2 = rng.choice(['A', 'N', 'C', 'D', 'E', 'F'])
        if pat == 'nw':
            kind = rng.choice(['N', 'C', 'D', 'E', 'F'])
            target = rng.randint(0, max(0, n - 1))
            more = [[k2, n if k2 == 'A' else rng.randint(min(n, target + 1), n)]]
        elif pat == 'wn':
            k2 = rng.choice(['N', 'C', 'D', 'E', 'F'])
            target = n if kind == 'A' else rng.randint(min(1, n), n)
            more = [[k2, rng.randint(0, max(0, min(target, n) - 1))]]
        elif pat == 'rep':
            more = [[kind, target]]
        else:
            more = [[k2, rng.randint(0, n)]]
        if rng.random() < 0.35:
            k3 = rng.choice(['A', 'N', 'C', 'D', 'E', 'F'])
            more.append([k3, rng.randint(0, n)])
    if 'extract' in directed:
        ex = directed['extract']
    elif rng.random() < 0.5:
        ex = 'all'
    else:
        pool = list(cols) + ['MODEL_NAME']
        rng.shuffle(pool)
        ex = pool[:rng.randint(1, len(pool))]
    return dict(names=names, conv=conv, table=table_names, cols=cols, additional=additional, wavs=wavs, models=models,
                mode=mode, form=form, sources=sources, sel=kind, target=target, more=more, extract=ex,
                header=rng.random() < 0.7, suffix=rng.choice([None, '.txt']), as_tuple=rng.random() < 0.3)


DIRECTED = [
    dict(n=1, ncols=1, nadd=0, mode='direct', form='single', sel='A', pad=False, extract='all'),
    dict(n=8, ncols=4, nadd=2, mode='fitter', form='file', sel='N', target=3, pad=True, extract=['Q2', 'MODEL_NAME']),
    dict(n=5, ncols=2, nadd=1, mode='fitter', form='list', sel='C', target=2, pad=True),
    dict(n=4, ncols=3, nadd=1, mode='direct', form='file', sel='D', target=0, pad=False),
    dict(n=6, ncols=4, nadd=0, mode='direct', form='list', sel='E', target=6, pad=True),
    dict(n=3, ncols=1, nadd=2, mode='fitter', form='single', sel='F', target=1, pad=False),
    dict(n=4, ncols=2, nadd=1, mode='fitter', form='file', sel='N', target=0, pad=True),
    dict(n=7, ncols=3, nadd=0, mode='direct', form='single', sel='C', target=0, pad=True),
]
# call histories on the same input: narrow -> wide, wide -> narrow, repeated, three rounds; every input form
for _form in ('single', 'list', 'file'):
    DIRECTED += [
        dict(n=6, form=_form, mode='direct', sel='N', target=1, more=[['A', 6]], nadd=1),
        dict(n=5, form=_form, mode='fitter', sel='C', target=2, more=[['N', 4]], ncols=2),
        dict(n=4, form=_form, mode='direct', sel='F', target=0, more=[['D', 3]]),
        dict(n=6, form=_form, mode='fitter', sel='A', target=6, more=[['N', 2]], nadd=2),
        dict(n=5, form=_form, mode='direct', sel='E', target=3, more=[['E', 3]]),
        dict(n=7, form=_form, mode='direct', sel='N', target=2, more=[['C', 5], ['N', 1]], nadd=1),
    ]


def gen_cases(seed, tier):
    import itertools
    i = 0
    for d in DIRECTED:
        yield gen_case(case_rng(seed, PID, i), directed=d)
        i += 1
    # every selector form x (nothing / something / everything selected)
    for kind in ['A', 'N', 'C', 'D', 'E', 'F']:
        for tgt in ('zero', 'some', 'all'):
            rng = case_rng(seed, PID, i)
            n = rng.randint(3, 8)
            t = {'zero': 0, 'some': rng.randint(1, n - 1), 'all': n}[tgt]
            yield gen_case(rng, directed=dict(n=n, sel=kind, target=t))
            i += 1
    # every row permutation of the parameter file (<= 4 models in the thorough tier, <= 3 in quick)
    for n in range(1, 5 if tier == 'thorough' else 4):
        for perm in itertools.permutations(range(n)):
            yield gen_case(case_rng(seed, PID, i), n=n, table_perm=list(perm))
            i += 1
    while i < N[tier]:
        yield gen_case(case_rng(seed, PID, i))
        i += 1


# ----------------------------------------------------------------------------- real side

def build(case, d):
    """package + fit results; returns (model_dir, infos)"""
    names = case['names']
    n = len(names)
    md = os.path.join(d, 'models')
    os.makedirs(md)
    pk.write_conf(md, aperture_dependent=False)
    idx = [names.index(x) for x in case['conv']]
    fnames = []
    for j, w in enumerate(case['wavs']):
        fn = 'F%d' % j
        fnames.append(fn)
        pk.write_convolved(md, fn, w, case['conv'], [[case['models'][i][j]] for i in idx], [[0.] for _ in idx])
    tidx = [names.index(t.strip()) for t in case['table']]
    pk.write_parameters(md, case['table'], {c: [v[i] for i in tidx] for c, v in case['cols'].items()})
    ext = pk.make_extinction(EXT_W, EXT_CHI)
    infos = []
    if case['mode'] == 'fitter':
        fitter = pk.make_fitter(md, fnames, [1.] * len(fnames), ext, (0., 30.))
        for s in case['sources']:
            src = pk.make_source(s['name'], s['flags'], s['flux'], s['err'])
            with common.quiet():
                infos.append(fitter.fit(src))
    else:
        filters = [dict(aperture_arcsec=1., name=fn, wav=w) for fn, w in zip(fnames, case['wavs'])]
        meta = (md, filters, ext)
        for s in case['sources']:
            info = pk.make_fitinfo(case['conv'], [s['chi2'][i] for i in idx], av=[s['av'][i] for i in idx],
                                   sc=[s['sc'][i] for i in idx], flags=s['flags'], source_name=s['name'], meta=meta)
            infos.append(info)
    return md, infos


def measure(kind, chi2, n_data):
    c = np.asarray(chi2, dtype=float)
    if kind == 'C':
        return c
    if kind == 'D':
        return c - c[0]
    if kind == 'E':
        return c / n_data
    return (c - c[0]) / n_data


def rounds(case):
    return [[case['sel'], case['target']]] + [list(m) for m in case.get('more', [])]


def make_selector(case, ranked, kind=None, tgt=None):
    """selector tuple; thresholds lie between attained values of the first source"""
    if kind is None:
        kind, tgt = case['sel'], case['target']
    n = len(case['names'])
    if kind == 'A':
        return ('A', 0)
    if kind == 'N':
        return ('N', tgt)
    c0, nd0 = ranked[0]['chi2'], ranked[0]['n_data']
    m = measure(kind, c0, nd0)
    tgt = min(tgt, n)
    if tgt == 0:
        x = (m[0] - 1.) if kind in ('D', 'F') else m[0] * 0.5
        if kind in ('D', 'F'):
            x = -1.
    elif tgt >= n:
        x = m[-1] * 2. + 1.
    else:
        x = 0.5 * (m[tgt - 1] + m[tgt])
    return (kind, float(x))


def expected_count(sel, chi2, n_data):
    """number of selected fits, straight from the documented meaning of the selector; second value: smallest
    relative distance of the threshold from an attained value"""
    kind, x = sel
    n = len(chi2)
    if n == 0:
        return 0, 1.
    if kind == 'A':
        return n, 1.
    if kind == 'N':
        return min(int(x), n), 1.
    m = measure(kind, chi2, n_data)
    k = int(np.sum(m <= x))
    marg = float(np.min(np.abs(m - x) / (1e-300 + np.maximum(np.abs(m), abs(x)))))
    return k, marg


def ranked_view(infos):
    out = []
    for info in infos:
        a = pk.fit_arrays(info)
        flags = [int(v) for v in info.source.valid]
        # a snapshot: plain copies, so that nothing the consumers do to the objects can reach it
        out.append(dict(name=str(info.source.name), names=list(a['name']), chi2=np.array(a['chi2'], dtype=float),
                        av=np.array(a['av'], dtype=float), sc=np.array(a['sc'], dtype=float), flags=flags,
                        n_data=sum(1 for f in flags if f in (1, 4))))
    return out


def e3(v):
    return ('%10.3e' % v).strip()


def f3(v):
    return ('%10.3f' % v).strip()


def e11(v):
    return ('%11.3e' % v).strip()


def parse_write_parameters(path):
    lines = open(path).read().split('\n')
    head = lines[1].split()
    blocks = []
    i = 3
    while i < len(lines) and lines[i].strip():
        t = lines[i].split()
        name, nd, nf = t[0], int(t[1]), int(t[2])
        rows = [lines[i + 1 + r].split() for r in range(nf)]
        blocks.append(dict(name=name, n_data=nd, n_fits=nf, rows=rows))
        i += 1 + nf
    return head, blocks


def parse_ranges(path):
    lines = open(path).read().split('\n')
    groups = lines[0].split()
    out = []
    for ln in lines[3:]:
        if not ln.strip():
            continue
        t = ln.split()
        trip = [t[3 + 3 * j: 6 + 3 * j] for j in range((len(t) - 3) // 3)]
        out.append(dict(name=t[0], n_data=int(t[1]), n_fits=int(t[2]), trip=trip, ntok=len(t)))
    return groups, out


def make_input(case, d, infos):
    """the one input every call of the history receives: a file, the result object, or the list / tuple"""
    from sedfitter.fit_info import FitInfoFile
    if case['form'] == 'file':
        path = os.path.join(d, 'fits.bin')
        f = FitInfoFile(path, 'w')
        for info in infos:
            f.write(info)
        f.close()
        return path
    if case['form'] == 'single':
        return infos[0]
    return tuple(infos) if case['as_tuple'] else list(infos)


def call_all(case, d, md, src, names_of_sources, sel):
    """one round: the four consumers on the same input `src`; returns dict of raw outputs"""
    from sedfitter import write_parameters, write_parameter_ranges, extract_parameters
    from sedfitter.fit_info import FitInfoFile
    from sedfitter.models import load_parameter_table
    add = case['additional']

    def source():
        return src

    out = {}
    with common.quiet():
        p1 = os.path.join(d, 'wp.txt')
        if add:
            write_parameters(source(), p1, select_format=sel, additional=add)
        else:
            write_parameters(source(), p1, select_format=sel)
        out['wp'] = parse_write_parameters(p1)
        p2 = os.path.join(d, 'wr.txt')
        if add:
            write_parameter_ranges(source(), p2, select_format=sel, additional=add)
        else:
            write_parameter_ranges(source(), p2, select_format=sel)
        out['wr'] = parse_ranges(p2)
        xd = os.path.join(d, 'ex')
        os.makedirs(xd)
        kw = dict(input=source(), output_prefix=xd + '/x_', select_format=sel, header=case['header'])
        if case['suffix']:
            kw['output_suffix'] = case['suffix']
        if case['extract'] != 'all':
            kw['parameters'] = list(case['extract'])
        extract_parameters(**kw)
        out['ex'] = {}
        for sname in names_of_sources:
            p = xd + '/x_' + sname + (case['suffix'] or '')
            out['ex'][sname] = [ln.split() for ln in open(p).read().split('\n') if ln.strip()]
        # the table handed to the parameter plots: stripped, sorted by name, then FitInfo.filter_table
        t = load_parameter_table(md)
        t['MODEL_NAME'] = np.char.strip(t['MODEL_NAME'])
        t.sort('MODEL_NAME')
        out['ft'] = []
        for info in FitInfoFile(source(), 'r'):
            info.keep(sel)
            ts = info.filter_table(t, additional=add) if add else info.filter_table(t)
            out['ft'].append(dict(cols=list(ts.columns), names=[str(x) for x in ts['MODEL_NAME']],
                                  rows=[[float(ts[c][i]) for c in ts.columns if c != 'MODEL_NAME'] for i in range(len(ts))]))
    return out


def impl_side(case, d):
    """returns (property failures, observations, branches, relaxed)"""
    names = case['names']
    n = len(names)
    cols = list(case['cols'])
    add = case['additional']
    addk = list(add)
    br = {'input_' + case['form'], 'additional_%d' % len(addk),
          'fits_from_fitter' if case['mode'] == 'fitter' else 'fits_direct',
          'extract_all' if case['extract'] == 'all' else 'extract_subset'}
    if len(cols) in (1, 4):
        br.add('cols_%d' % len(cols))
    if n in (1, 8):
        br.add('models_%d' % n)
    if any(t != t.strip() for t in case['table']):
        br.add('padded_table_names')
    if [t.strip() for t in case['table']] != sorted(names):
        br.add('table_not_sorted')
    md, infos = build(case, d)
    ranked = ranked_view(infos)          # the ORIGINAL results, before any consumer has seen them
    src = make_input(case, d, infos)
    steps = []
    relaxed = 0
    fails = []
    rs = rounds(case)
    br.add('history_%d' % len(rs))
    for ri, (kind, tgt) in enumerate(rs):
        sel = make_selector(case, ranked, kind, tgt)
        br.add('sel_' + kind)
        sd = os.path.join(d, 'round%d' % ri)
        os.makedirs(sd)
        try:
            out = call_all(case, sd, md, src, [r['name'] for r in ranked], sel)
        except Exception as ex:
            import traceback
            return (['round %d: post-processing raised %s: %s (selector %r, form %s)\n%s'
                     % (ri + 1, type(ex).__name__, ex, sel, case['form'], traceback.format_exc()[-1200:])],
                    dict(ranked=ranked, steps=steps), br, 0)
        br |= {'write_parameters', 'write_parameter_ranges', 'extract_parameters', 'filter_table'}
        f, ks, rel_ = check_round(case, ranked, sel, out, br)
        relaxed += rel_
        hist = ' -> '.join(repr(st['sel']) for st in steps) or None
        fails += ['round %d of %d on the same %s (earlier selectors: %s): %s' % (ri + 1, len(rs), case['form'], hist, x)
                  for x in f]
        if ks is None:
            return fails, dict(ranked=ranked, steps=steps), br, 0
        if steps:
            k0, k1 = steps[-1]['ks'][0], ks[0]
            if k0 < k1:
                br.add('narrow_then_wide_' + case['form'])
            elif k0 > k1:
                br.add('wide_then_narrow')
            if list(steps[-1]['sel']) == list(sel):
                br.add('repeated_selector')
        steps.append(dict(sel=sel, ks=ks, out=out, ranked=ranked))
    return fails, dict(ranked=ranked, steps=steps), br, relaxed


def check_round(case, ranked, sel, out, br):
    """the property on the outputs of one round, against the original results; returns (failures, ks, relaxed)"""
    names = case['names']
    n = len(names)
    cols = list(case['cols'])
    add = case['additional']
    addk = list(add)
    relaxed = 0
    fails = []
    table = {nme: [case['cols'][c][i] for c in cols] for i, nme in enumerate(names)}     # the original table, by name
    head, blocks = out['wp']
    want_head = ['fit_id', 'model_name', 'chi2', 'av', 'scale'] + [c.lower() for c in cols] + addk
    if head != want_head:
        fails.append('write_parameters: columns %r, expected %r' % (head, want_head))
    groups, rng_rows = out['wr']
    if groups != want_head[2:]:
        fails.append('write_parameter_ranges: column groups %r, expected %r' % (groups, want_head[2:]))
    if len(blocks) != len(ranked) or len(rng_rows) != len(ranked) or len(out['ft']) != len(ranked):
        fails.append('number of sources listed: %d / %d / %d, expected %d' % (len(blocks), len(rng_rows), len(out['ft']), len(ranked)))
        return fails, None, 0
    ks = []
    for si, r in enumerate(ranked):
        k, marg = expected_count(sel, r['chi2'], r['n_data'])
        if marg < 1e-9:
            relaxed += 1
            k = blocks[si]['n_fits']
        ks.append(k)
        br.add('selected_0' if k == 0 else ('selected_all' if k == n else 'selected_some'))
        sel_names = r['names'][:k]
        exp_rows = [table[nme] + [add[a][nme] for a in addk] for nme in sel_names]

        # ---- write_parameters
        b = blocks[si]
        if (b['name'], b['n_data'], b['n_fits']) != (r['name'], r['n_data'], k):
            fails.append('write_parameters source line (%r, n_data %d, n_fits %d); expected (%r, %d, %d) for selector %r'
                         % (b['name'], b['n_data'], b['n_fits'], r['name'], r['n_data'], k, sel))
        for i, row in enumerate(b['rows'][:k]):
            want = [str(i + 1), sel_names[i], f3(r['chi2'][i]), f3(r['av'][i]), f3(r['sc'][i])] + [e3(v) for v in exp_rows[i]]
            if row != want:
                shown = row[1] if len(row) > 1 else None
                fails.append('write_parameters source %r fit %d: printed %r; fit %d is model %r whose table row + additional '
                             'is %r (table row of the printed name %r: %r)'
                             % (r['name'], i + 1, row, i + 1, sel_names[i], want, shown, table.get(shown)))
        # ---- write_parameter_ranges
        rr = rng_rows[si]
        if (rr['name'], rr['n_data'], rr['n_fits']) != (r['name'], r['n_data'], k):
            fails.append('write_parameter_ranges source line (%r, %d, %d); expected (%r, %d, %d)'
                         % (rr['name'], rr['n_data'], rr['n_fits'], r['name'], r['n_data'], k))
        series = [list(r['chi2'][:k]), list(r['av'][:k]), list(r['sc'][:k])] + \
                 [[row[j] for row in exp_rows] for j in range(len(cols) + len(addk))]
        want_trip = [['-', '-', '-'] if k == 0 else [e3(min(s)), e3(s[0]), e3(max(s))] for s in series]
        if rr['trip'] != want_trip:
            fails.append('write_parameter_ranges source %r: printed %r; min / rank-1 / max over the %d selected fits: %r'
                         % (r['name'], rr['trip'], k, want_trip))
        # ---- extract_parameters
        ex = out['ex'][r['name']]
        pars = (['MODEL_NAME'] + cols) if case['extract'] == 'all' else list(case['extract'])
        if case['header']:
            if not ex or ex[0] != ['CHI2', 'AV', 'SC'] + pars:
                fails.append('extract_parameters header %r, expected %r' % (ex[:1], ['CHI2', 'AV', 'SC'] + pars))
            ex = ex[1:]
        want_ex = [[e11(r['chi2'][i]), e11(r['av'][i]), e11(r['sc'][i])] +
                   [sel_names[i] if p == 'MODEL_NAME' else e11(table[sel_names[i]][cols.index(p)]) for p in pars]
                   for i in range(k)]
        if ex != want_ex:
            fails.append('extract_parameters source %r: rows %r; expected (by model name) %r' % (r['name'], ex, want_ex))
        # ---- FitInfo.filter_table on the prepared table
        ft = out['ft'][si]
        if ft['names'] != list(sel_names) or ft['rows'] != [[float(v) for v in row] for row in exp_rows] or \
                ft['cols'] != ['MODEL_NAME'] + cols + addk:
            fails.append('filter_table source %r: columns %r names %r rows %r; expected %r %r %r'
                         % (r['name'], ft['cols'], ft['names'], ft['rows'], ['MODEL_NAME'] + cols + addk,
                            list(sel_names), exp_rows))
    return fails, ks, relaxed


# ----------------------------------------------------------------------------- model side

def model_side(case, obs):
    """for each round, for each source: (table positions, names, extras, ranges per printed group, n_data, n_fits),
    always from the original results"""
    return [model_round(case, st) for st in obs['steps']]


def compare_model(case, obs, mod):
    dis = []
    for ri, (st, m) in enumerate(zip(obs['steps'], mod)):
        dis += ['round %d (selector %r): %s' % (ri + 1, st['sel'], x) for x in compare_round(case, st, m)]
    return dis


def model_round(case, obs):
    drv = common.driver()
    add = case['additional']
    addk = list(add)
    cols = list(case['cols'])
    names = case['names']
    res = []
    for r, k in zip(obs['ranked'], obs['ks']):
        mn = r['names'][:k]
        line = ['filtertable 1', names_line(case['table']), names_line(mn), str(len(addk))]
        for a in addk:
            line.append(str(len(add[a])))
            for nme, v in add[a].items():
                line += [enc(nme), rat(v)]
        t = drv.ask(' '.join(line))
        pos = t.nats()
        nm = read_names(t)
        extras = [t.rats() for _ in nm]
        # parameter file rows, in file order
        tidx = [names.index(x.strip()) for x in case['table']]
        rows = [[case['cols'][c][tidx[p]] for c in cols] + [float(x) for x in extras[i]] for i, p in enumerate(pos)]
        series = [list(r['chi2'][:k]), list(r['av'][:k]), list(r['sc'][:k])] + \
                 [[row[j] for row in rows] for j in range(len(cols) + len(addk))]
        trip = []
        for s in series:
            tt = drv.ask('ranges %d %s' % (len(s), ' '.join(rat(float(x)) for x in s)))
            if tt.nat() == 0:
                trip.append(None)
            else:
                trip.append([float(tt.rat()) for _ in range(3)])
        tc = drv.ask('parcounts %d %s %d' % (len(r['flags']), ' '.join(str(f) for f in r['flags']), k))
        res.append(dict(pos=pos, names=nm, rows=rows, trip=trip, n_data=tc.nat(), n_fits=tc.nat()))
    return res


def unsigned_zero(tok):
    """the model computes in exact rationals: the sign of a floating-point zero is not modelled"""
    return tok[1:] if tok.startswith('-') and float(tok) == 0. else tok


def compare_round(case, obs, mod):
    dis = []
    head, blocks = obs['out']['wp']
    groups, rng_rows = obs['out']['wr']
    for si, (r, k, m) in enumerate(zip(obs['ranked'], obs['ks'], mod)):
        b = blocks[si]
        if (b['n_data'], b['n_fits']) != (m['n_data'], m['n_fits']):
            dis.append('source %r: printed n_data, n_fits = %d, %d; model counts %d, %d'
                       % (r['name'], b['n_data'], b['n_fits'], m['n_data'], m['n_fits']))
        if m['names'] != list(r['names'][:k]):
            dis.append('source %r: model filterTable names %r, fit names %r' % (r['name'], m['names'], r['names'][:k]))
        for i, row in enumerate(b['rows'][:k]):
            if [unsigned_zero(x) for x in row[5:]] != [e3(v) for v in m['rows'][i]]:
                dis.append('source %r fit %d: printed parameters %r; model shows parameter-file row %d: %r'
                           % (r['name'], i + 1, row[5:], m['pos'][i], [e3(v) for v in m['rows'][i]]))
        ft = obs['out']['ft'][si]
        if ft['rows'] != [[float(v) for v in row] for row in m['rows']]:
            dis.append('source %r: filter_table rows %r, model %r' % (r['name'], ft['rows'], m['rows']))
        want = [['-', '-', '-'] if t is None else [e3(v) for v in t] for t in m['trip']]
        if [[unsigned_zero(x) if x != '-' else x for x in t] for t in rng_rows[si]['trip']] != want:
            dis.append('source %r: printed ranges %r, model paramRanges %r' % (r['name'], rng_rows[si]['trip'], want))
    return dis


def nontrivial(case, obs):
    if len(case['names']) < 2:
        return False
    tpos = {t.strip(): i for i, t in enumerate(case['table'])}
    for st in obs['steps']:
        for r, k in zip(obs['ranked'], st['ks']):
            if any(tpos[nme] != i for i, nme in enumerate(r['names'][:k])):
                return True
    return False


def run_case(case):
    d = tempfile.mkdtemp(prefix='c09_')
    try:
        fails, obs, br, relaxed = impl_side(case, d)
        key = common.canon_hash(case)
        if fails:
            return CaseResult(False, detail='\n'.join(fails[:5]), violates=True, branches=br, key=key)
        mod = model_side(case, obs)
        dis = compare_model(case, obs, mod)
        if dis:
            return CaseResult(False, detail='\n'.join(dis[:5]), violates=None, branches=br, key=key)
        sample = dict(n_models=len(case['names']), table=case['table'], columns=list(case['cols']),
                      additional=list(case['additional']), form=case['form'], mode=case['mode'],
                      history=[dict(selector=list(st['sel']), selected=st['ks']) for st in obs['steps']],
                      fit_order=obs['ranked'][0]['names'])
        return CaseResult(True, branches=br, key=key, nontrivial=nontrivial(case, obs), sample=sample, relaxed=relaxed)
    finally:
        shutil.rmtree(d, ignore_errors=True)


def search(seed, tier, disagreeing):
    """the property itself on the real code (lookup by model name in the original table; no model)"""
    found, tried = [], 0
    sweep = list(disagreeing)
    for i in range(60 if tier == 'quick' else 300):
        sweep.append(gen_case(case_rng(seed, PID + '/search', i)))
    for case in sweep:
        d = tempfile.mkdtemp(prefix='c09s_')
        try:
            tried += 1
            fails = impl_side(case, d)[0]
            if fails:
                found.append((case, '\n'.join(fails[:5])))
                if len(found) >= 3:
                    break
        except Exception:
            pass
        finally:
            shutil.rmtree(d, ignore_errors=True)
    return found, tried


def shrink(case):
    """fewer sources, fewer columns, no additional, while the property still fails on the real code"""
    def fails(c):
        d = tempfile.mkdtemp(prefix='c09k_')
        try:
            return bool(impl_side(c, d)[0])
        except Exception:
            return False
        finally:
            shutil.rmtree(d, ignore_errors=True)
    cur = case
    for cand in (lambda c: dict(c, sources=c['sources'][:1]) if len(c['sources']) > 1 else None,
                 lambda c: dict(c, additional={}) if c['additional'] else None,
                 lambda c: dict(c, cols=dict(list(c['cols'].items())[:1]), extract='all') if len(c['cols']) > 1 else None):
        c = cand(cur)
        if c is not None and fails(c):
            cur = c
    return cur
