"""Shared machinery of the sedfitter verification checks.

* proof obligations: `lake build`, source grep for forbidden constructs, `#print axioms` audit
* correspondence: line-protocol pipe to the Lean driver (exact rational arithmetic)
* verdict: falsifier on the real code when anything breaks; known findings; evidence; replays
"""
import contextlib
import fractions
import hashlib
import io
import json
import os
import random
import re
import shutil
import subprocess
import sys
import tempfile
import time
import traceback

VERIF = os.path.dirname(os.path.dirname(os.path.abspath(__file__)))
LEAN = os.environ.get('SEDVERIF_LEAN') or os.path.join(VERIF, 'lean')
REPO = os.environ.get('SEDVERIF_REPO') or '/repo'   # override only for mutation self-tests in scratch worktrees
ALLOWED_AXIOMS = {'propext', 'Classical.choice', 'Quot.sound'}
FORBIDDEN = re.compile(r'\b(sorry|admit|native_decide|bv_decide|implemented_by|unsafe)\b|^\s*axiom\s|maxHeartbeats\s+0\b', re.M)

Fraction = fractions.Fraction


# ----------------------------------------------------------------------------- rationals

def rat(x):
    """exact rational text of a float / int / Fraction"""
    if isinstance(x, Fraction):
        f = x
    elif isinstance(x, int):
        return str(x)
    else:
        f = Fraction(float(x))
    return str(f.numerator) if f.denominator == 1 else '%d/%d' % (f.numerator, f.denominator)


def rats(xs):
    xs = list(xs)
    return ' '.join([str(len(xs))] + [rat(x) for x in xs])


def unrat(t):
    return Fraction(t)


class Toks(object):
    """reader over the tokens of a driver response"""

    def __init__(self, toks):
        self.t = toks
        self.i = 0

    def tok(self):
        v = self.t[self.i]
        self.i += 1
        return v

    def nat(self):
        return int(self.tok())

    def rat(self):
        return Fraction(self.tok())

    def flt(self):
        return float(Fraction(self.tok()))

    def rats(self):
        n = self.nat()
        return [self.rat() for _ in range(n)]

    def nats(self):
        n = self.nat()
        return [self.nat() for _ in range(n)]

    def done(self):
        return self.i == len(self.t)


# ----------------------------------------------------------------------------- Lean side

class DriverError(Exception):
    pass


class Driver(object):
    """pipe to `lake env lean --run Driver.lean` (model over exact rationals)"""

    def __init__(self):
        env = dict(os.environ)
        self.p = subprocess.Popen(['lake', 'env', 'lean', '--run', 'Driver.lean'], cwd=LEAN,
                                  stdin=subprocess.PIPE, stdout=subprocess.PIPE,
                                  stderr=subprocess.PIPE, text=True, bufsize=1, env=env)

    def ask(self, line):
        try:
            self.p.stdin.write(line.replace('\n', ' ') + '\n')
            self.p.stdin.flush()
            out = self.p.stdout.readline()
        except (BrokenPipeError, OSError) as e:
            raise DriverError('driver pipe broken: %s' % e)
        if not out:
            err = ''
            try:
                err = self.p.stderr.read()[-2000:]
            except Exception:
                pass
            raise DriverError('driver died: ' + err)
        toks = out.split()
        if not toks or toks[0] != 'ok':
            raise DriverError('driver answered: ' + out.strip()[:300])
        return Toks(toks[1:])

    def ask_raw(self, line):
        self.p.stdin.write(line.replace('\n', ' ') + '\n')
        self.p.stdin.flush()
        return self.p.stdout.readline().strip()

    def close(self):
        try:
            self.p.stdin.close()
            self.p.wait(timeout=10)
        except Exception:
            self.p.kill()


_DRIVER = None


def driver():
    global _DRIVER
    if _DRIVER is None or _DRIVER.p.poll() is not None:
        _DRIVER = Driver()
    return _DRIVER


def close_driver():
    global _DRIVER
    if _DRIVER is not None:
        _DRIVER.close()
        _DRIVER = None


def sh(cmd, cwd=None, timeout=3600):
    r = subprocess.run(cmd, cwd=cwd, shell=isinstance(cmd, str), stdout=subprocess.PIPE,
                       stderr=subprocess.STDOUT, text=True, timeout=timeout)
    out = '\n'.join(l for l in r.stdout.splitlines() if 'conda.cli.condarc' not in l)
    return r.returncode, out


def lean_build(clean=False):
    """`lake build`, serialised across concurrently running checks by a file lock (two lake processes building
    the same package at once can fail spuriously); one retry for the same reason"""
    import fcntl
    lock = open(os.path.join(LEAN, '.build.lock'), 'w')
    try:
        fcntl.flock(lock, fcntl.LOCK_EX)
        if clean:
            shutil.rmtree(os.path.join(LEAN, '.lake', 'build'), ignore_errors=True)
        code, out = sh(['lake', 'build'], cwd=LEAN)
        if code != 0:
            time.sleep(2)
            code, out = sh(['lake', 'build'], cwd=LEAN)
        return code == 0, out
    finally:
        fcntl.flock(lock, fcntl.LOCK_UN)
        lock.close()


def strip_comments(src):
    """remove Lean block and line comments (nesting-aware) so that the grep only sees code"""
    out = []
    i = 0
    depth = 0
    n = len(src)
    while i < n:
        if src.startswith('/-', i):
            depth += 1
            i += 2
        elif depth and src.startswith('-/', i):
            depth -= 1
            i += 2
        elif depth:
            if src[i] == '\n':
                out.append('\n')
            i += 1
        elif src.startswith('--', i):
            while i < n and src[i] != '\n':
                i += 1
        else:
            out.append(src[i])
            i += 1
    return ''.join(out)


def lean_sources():
    res = []
    for root, _, files in os.walk(LEAN):
        if '.lake' in root:
            continue
        for f in files:
            if f.endswith('.lean'):
                res.append(os.path.join(root, f))
    return sorted(res)


def grep_forbidden():
    hits = []
    for path in lean_sources():
        code = strip_comments(open(path).read())
        for m in FORBIDDEN.finditer(code):
            line = code.count('\n', 0, m.start()) + 1
            hits.append('%s:%d:%s' % (os.path.relpath(path, LEAN), line, m.group(0).strip()))
    return hits


def obligations(pid):
    d = json.load(open(os.path.join(LEAN, 'obligations.json')))
    return d[pid]


def audit(pid):
    """`#print axioms` for every property theorem of `pid`.
    returns (list of (theorem, ok, detail))"""
    ob = obligations(pid)
    mods = ob['modules']
    thms = ob['theorems']
    src = ''.join('import %s\n' % m for m in mods) + ''.join('#print axioms %s\n' % t for t in thms)
    tmpdir = tempfile.mkdtemp(prefix='sedverif_audit_')
    try:
        path = os.path.join(tmpdir, 'Audit_%s.lean' % pid)
        with open(path, 'w') as f:
            f.write(src)
        code, out = sh(['lake', 'env', 'lean', path], cwd=LEAN)
    finally:
        shutil.rmtree(tmpdir, ignore_errors=True)
    res = []
    flat = re.sub(r'\s+', ' ', out)
    for t in thms:
        m = re.search(r"'%s' depends on axioms: \[([^\]]*)\]" % re.escape(t), flat)
        if m:
            ax = {a.strip() for a in m.group(1).split(',') if a.strip()}
            bad = ax - ALLOWED_AXIOMS
            res.append((t, not bad, 'axioms=' + ','.join(sorted(ax))))
        elif re.search(r"'%s' does not depend on any axioms" % re.escape(t), flat):
            res.append((t, True, 'axioms='))
        else:
            res.append((t, False, 'not found / did not elaborate'))
    return res, out


def proof_obligations(pid, clean=False):
    """returns dict(obligations, discharged, broken=[...], log)"""
    broken = []
    ok, log = lean_build(clean=clean)
    if not ok:
        broken.append('lake build failed')
    hits = grep_forbidden()
    for h in hits:
        broken.append('forbidden construct ' + h)
    thms = obligations(pid)['theorems']
    n_ob = len(thms) + 2
    discharged = (1 if ok else 0) + (1 if not hits else 0)
    details = []
    if ok:
        res, out = audit(pid)
        for t, good, det in res:
            details.append('%s: %s' % (t, det))
            if good:
                discharged += 1
            else:
                broken.append('theorem %s: %s' % (t, det))
    return dict(obligations=n_ob, discharged=discharged, broken=broken, log=log[-4000:], details=details)


def leanchecker(pid):
    mods = obligations(pid)['modules']
    code, out = sh(['lake', 'env', 'leanchecker'] + mods, cwd=LEAN, timeout=3000)
    return code == 0, out[-2000:]


# ----------------------------------------------------------------------------- python side helpers

@contextlib.contextmanager
def quiet():
    """silence sedfitter's prints and progress bars"""
    buf = io.StringIO()
    with contextlib.redirect_stdout(buf), contextlib.redirect_stderr(buf):
        yield buf


def setup_repo_import():
    if REPO not in sys.path:
        sys.path.insert(0, REPO)
    import warnings
    warnings.filterwarnings('ignore')
    try:
        from astropy import log
        log.setLevel('ERROR')
    except Exception:
        pass


class Scratch(object):
    """scratch directory outside /repo and /verif; TMPDIR points into it so that the memmap temp files
    of `use_memmap` land there too; removed at exit"""

    def __init__(self):
        self.root = tempfile.mkdtemp(prefix='sedverif_')
        self.old = os.environ.get('TMPDIR')
        os.environ['TMPDIR'] = self.root
        tempfile.tempdir = self.root
        self.n = 0

    def new(self, name='d'):
        self.n += 1
        p = os.path.join(self.root, '%s%d' % (name, self.n))
        os.makedirs(p)
        return p

    def cleanup(self):
        tempfile.tempdir = None
        if self.old is None:
            os.environ.pop('TMPDIR', None)
        else:
            os.environ['TMPDIR'] = self.old
        shutil.rmtree(self.root, ignore_errors=True)


def case_rng(seed, pid, index):
    h = hashlib.sha256(('%s|%s|%s' % (seed, pid, index)).encode()).hexdigest()
    return random.Random(int(h[:16], 16))


def nice(rng, lo, hi, digits=3):
    """a float with few significant digits, log-uniform in [lo, hi]"""
    import math
    x = math.exp(rng.uniform(math.log(lo), math.log(hi)))
    return float('%.*g' % (digits, x))


def canon_hash(obj):
    return hashlib.sha256(json.dumps(obj, sort_keys=True, default=str).encode()).hexdigest()[:16]


def close(impl, model, tol, scale=1.0):
    """|impl − model| ≤ tol·(scale + |model|)"""
    m = float(model)
    return abs(float(impl) - m) <= tol * (scale + abs(m))


# ----------------------------------------------------------------------------- known findings

def known_findings():
    path = os.path.join(VERIF, 'KNOWN_FINDINGS.txt')
    res = []
    if os.path.exists(path):
        for line in open(path):
            line = line.strip()
            if line.startswith('open:'):
                m = re.match(r'open:\s+property=(\S+)\s+match=(\S+)\s+(.*)', line)
                if m:
                    res.append(dict(property=m.group(1), match=m.group(2), what=m.group(3)))
    return res


# ----------------------------------------------------------------------------- result types

class CaseResult(object):
    """outcome of one correspondence case"""

    def __init__(self, ok, detail='', branches=(), key=None, nontrivial=True, sample=None, relaxed=0,
                 finding=None, violates=None):
        self.ok = ok
        self.detail = detail
        self.branches = list(branches)
        self.key = key
        self.nontrivial = nontrivial
        self.sample = sample
        self.relaxed = relaxed
        self.finding = finding   # match key of a known finding this failure corresponds to (or None)
        # True: the disagreement shows the property itself failing on the real code for this input;
        # None/False: only model and implementation differ (or the harness broke)
        self.violates = violates
        self.exception = False
        self.index = -1


def write_json(path, obj):
    os.makedirs(os.path.dirname(path), exist_ok=True)
    with open(path, 'w') as f:
        json.dump(obj, f, indent=1, default=str)
        f.write('\n')
