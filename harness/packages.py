"""Builders for model packages, sources and extinction laws, using sedfitter's own writers."""
import os

import numpy as np

from .common import setup_repo_import, quiet

setup_repo_import()

from astropy import units as u          # noqa: E402
from astropy.table import Table         # noqa: E402


def write_conf(model_dir, aperture_dependent, logd_step=0.02, version=1, name='verif'):
    with open(os.path.join(model_dir, 'models.conf'), 'w') as f:
        f.write('name = %s\n' % name)
        f.write('length_subdir = 0\n')
        f.write('aperture_dependent = %s\n' % ('yes' if aperture_dependent else 'no'))
        f.write('logd_step = %r\n' % logd_step)
        if version != 1:
            f.write('version = %d\n' % version)


def write_convolved(model_dir, fname, wav_um, names, flux, err, apertures_au=None):
    """one convolved/<fname>.fits; flux, err: array (n_models, n_ap) in mJy"""
    from sedfitter.convolved_fluxes import ConvolvedFluxes
    os.makedirs(os.path.join(model_dir, 'convolved'), exist_ok=True)
    c = ConvolvedFluxes()
    c.model_names = np.array(names)
    if apertures_au is not None:
        c.apertures = np.array(apertures_au, dtype=float) * u.au
    c.central_wavelength = wav_um * u.micron
    c.flux = np.array(flux, dtype=float).reshape(len(names), -1) * u.mJy
    c.error = np.array(err, dtype=float).reshape(len(names), -1) * u.mJy
    c.write(os.path.join(model_dir, 'convolved', fname + '.fits'), overwrite=True)


def write_parameters(model_dir, names, columns):
    """parameters.fits with MODEL_NAME and numeric columns (dict name -> list)"""
    t = Table()
    t['MODEL_NAME'] = np.array(names, dtype='S30')
    for k, v in columns.items():
        t[k] = np.array(v, dtype=float)
    t.write(os.path.join(model_dir, 'parameters.fits'), overwrite=True)


def make_extinction(wav_um, chi):
    from sedfitter.extinction import Extinction
    e = Extinction()
    e.wav = np.array(wav_um, dtype=float) * u.micron
    e.chi = np.array(chi, dtype=float) * u.cm ** 2 / u.g
    return e


def make_source(name, flags, flux, err, x=0., y=0.):
    from sedfitter.source import Source
    s = Source()
    s.name = name
    s.x = x
    s.y = y
    s.valid = np.array(flags, dtype=int)
    s.flux = np.array(flux, dtype=float)
    s.error = np.array(err, dtype=float)
    return s


def make_fitter(model_dir, filter_names, apertures_arcsec, ext, av_range, distance_range_kpc=(1., 2.),
                use_memmap=False, remove_resolved=False):
    from sedfitter.fit import Fitter
    with quiet():
        return Fitter(filter_names, np.array(apertures_arcsec, dtype=float) * u.arcsec, model_dir,
                      extinction_law=ext, av_range=tuple(av_range),
                      distance_range=np.array(distance_range_kpc, dtype=float) * u.kpc,
                      use_memmap=use_memmap, remove_resolved=remove_resolved)


def fit_arrays(info):
    """plain arrays of a FitInfo (Quantity or ndarray alike)"""
    return dict(av=np.asarray(info.av, dtype=float), sc=np.asarray(info.sc, dtype=float),
                chi2=np.asarray(info.chi2, dtype=float),
                name=[str(n).strip() for n in info.model_name],
                model_id=[int(i) for i in info.model_id],
                model_fluxes=None if info.model_fluxes is None else np.asarray(info.model_fluxes, dtype=float))
