"""Builders for model packages, sources and extinction laws, using sedfitter's own writers."""
import os

import numpy as np

from .common import setup_repo_import, quiet

setup_repo_import()

from astropy import units as u          # noqa: E402
from astropy.table import Table         # noqa: E402


_YES = ['yes', 'Yes', 'YES', 'y', 'Y']
_NO = ['no', 'No', 'NO', 'n', 'N']
_conf_count = [0]


def write_conf(model_dir, aperture_dependent, logd_step=0.02, version=1, name='verif', length_subdir=0):
    """models.conf.  The yes/no value is written in every spelling the configuration reader accepts (any case,
    one-letter forms), rotating from call to call, with comment and blank lines and varying whitespace around '='"""
    _conf_count[0] += 1
    k = _conf_count[0]
    word = (_YES if aperture_dependent else _NO)[k % 5]
    eq = [' = ', '=', ' =', '= ', '  =  '][(k // 5) % 5]
    with open(os.path.join(model_dir, 'models.conf'), 'w') as f:
        f.write('# model package written by the verification harness\n')
        f.write('name%s%s\n' % (eq, name))
        f.write('\n')
        f.write('length_subdir%s%d\n' % (eq, length_subdir))
        f.write('aperture_dependent%s%s\n' % (eq, word))
        f.write('logd_step%s%r\n' % (eq, logd_step))
        if version != 1:
            f.write('version%s%d\n' % (eq, version))


def write_convolved(model_dir, fname, wav_um, names, flux, err, apertures_au=None, unit=None):
    """one convolved/<fname>.fits; flux, err: array (n_models, n_ap) in `unit` (default mJy)"""
    from sedfitter.convolved_fluxes import ConvolvedFluxes
    os.makedirs(os.path.join(model_dir, 'convolved'), exist_ok=True)
    c = ConvolvedFluxes()
    c.model_names = np.array(names)
    if apertures_au is not None:
        c.apertures = np.array(apertures_au, dtype=float) * u.au
    c.central_wavelength = wav_um * u.micron
    c.flux = np.array(flux, dtype=float).reshape(len(names), -1) * (unit or u.mJy)
    c.error = np.array(err, dtype=float).reshape(len(names), -1) * (unit or u.mJy)
    c.write(os.path.join(model_dir, 'convolved', fname + '.fits'), overwrite=True)


def write_parameters(model_dir, names, columns):
    """parameters.fits with MODEL_NAME and numeric columns (dict name -> list)"""
    t = Table()
    t['MODEL_NAME'] = np.array(names, dtype='S30')
    for k, v in columns.items():
        t[k] = np.array(v, dtype=float)
    t.write(os.path.join(model_dir, 'parameters.fits'), overwrite=True)


def make_extinction(wav_um, chi, wav_unit=None):
    """Extinction law; `wav_um` holds the wavelength column's numbers in `wav_unit` (default micron)"""
    from sedfitter.extinction import Extinction
    e = Extinction()
    e.wav = np.array(wav_um, dtype=float) * (wav_unit or u.micron)
    e.chi = np.array(chi, dtype=float) * u.cm ** 2 / u.g
    return e


def make_source(name, flags, flux, err, x=0., y=0.):
    from sedfitter.source import Source
    s = Source()
    s.name = name
    s.x = x
    s.y = y
    s.valid = np.array(flags, dtype=int)
    s.flux = np.array(flux, dtype=float)
    s.error = np.array(err, dtype=float)
    return s


def make_fitter(model_dir, filter_names, apertures_arcsec, ext, av_range, distance_range_kpc=(1., 2.),
                use_memmap=False, remove_resolved=False, distance_unit=None):
    """`distance_range_kpc` holds the two numbers of the range in `distance_unit` (default kpc)"""
    from sedfitter.fit import Fitter
    with quiet():
        return Fitter(filter_names, np.array(apertures_arcsec, dtype=float) * u.arcsec, model_dir,
                      extinction_law=ext, av_range=tuple(av_range),
                      distance_range=np.array(distance_range_kpc, dtype=float) * u.Unit(distance_unit or 'kpc'),
                      use_memmap=use_memmap, remove_resolved=remove_resolved)


def to_kpc(values, unit):
    """the kpc floats the code derives from a distance range given in `unit` (`distance_range.to(u.kpc).value`)"""
    return [float(x) for x in (np.array(values, dtype=float) * u.Unit(unit)).to(u.kpc).value]


def fit_arrays(info):
    """plain arrays of a FitInfo (Quantity or ndarray alike)"""
    return dict(av=np.asarray(info.av, dtype=float), sc=np.asarray(info.sc, dtype=float),
                chi2=np.asarray(info.chi2, dtype=float),
                name=[str(n).strip() for n in info.model_name],
                model_id=[int(i) for i in info.model_id],
                model_fluxes=None if info.model_fluxes is None else np.asarray(info.model_fluxes, dtype=float))


# ----------------------------------------------------------------------------- full packages (SEDs)

def make_sed(name, wav_um, flux, err, apertures_au=None, distance_kpc=1., unit=None):
    """SED object; flux/err: (n_ap, n_wav) arrays in `unit` (default mJy); wav in the order given"""
    from sedfitter.sed import SED
    unit = unit or u.mJy
    s = SED()
    s.name = name
    s.distance = distance_kpc * u.kpc
    s.wav = np.array(wav_um, dtype=float) * u.micron
    s.nu = s.wav.to(u.Hz, equivalencies=u.spectral())
    if apertures_au is not None:
        s.apertures = np.array(apertures_au, dtype=float) * u.au
    s.flux = np.array(flux, dtype=float).reshape(1 if apertures_au is None else len(apertures_au), -1) * unit
    s.error = np.array(err, dtype=float).reshape(s.flux.shape) * unit
    return s


def write_sed_package(model_dir, names, wav_um, flux, err, apertures_au=None, table_order=None,
                      params=None, aperture_dependent=None, logd_step=0.02, file_names=None, unit=None, length_subdir=0):
    """per-file (version 1) package: seds/<name>_sed.fits + parameters.fits + models.conf.
    length_subdir = k > 0: the SED of model <name> lives in seds/<first k characters of name>/ (the layout of the
    published grids; `plot` builds that path from models.conf, `convolve_model_dir` finds the files by globbing).
    flux, err: (n_models, n_ap, n_wav); table_order: row order of parameters.fits (list of names);
    file_names: optional dict name -> file stem (to decouple directory-listing order from names)"""
    os.makedirs(os.path.join(model_dir, 'seds'), exist_ok=True)
    if aperture_dependent is None:
        aperture_dependent = apertures_au is not None and len(apertures_au) > 1
    write_conf(model_dir, aperture_dependent, logd_step=logd_step, version=1, length_subdir=length_subdir)
    flux = np.array(flux, dtype=float)
    err = np.array(err, dtype=float)
    for i, n in enumerate(names):
        s = make_sed(n, wav_um, flux[i], err[i], apertures_au, unit=unit)
        stem = (file_names or {}).get(n, n + '_sed')
        sub = os.path.join(model_dir, 'seds', n[:length_subdir]) if length_subdir else os.path.join(model_dir, 'seds')
        os.makedirs(sub, exist_ok=True)
        s.write(os.path.join(sub, stem + '.fits'), overwrite=True)
    order = list(table_order) if table_order is not None else list(names)
    cols = params or {'PAR1': [float(names.index(n)) for n in order]}
    write_parameters(model_dir, order, cols)


def make_cube(names, wav_um, val, unc=None, apertures_au=None, distance_kpc=1., unit=None):
    """SEDCube; val/unc: (n_models, n_ap, n_wav)"""
    from sedfitter.sed import SEDCube
    unit = unit or u.mJy
    c = SEDCube()
    c.names = np.array(names)
    c.distance = distance_kpc * u.kpc
    c.wav = np.array(wav_um, dtype=float) * u.micron
    if apertures_au is not None:
        c.apertures = np.array(apertures_au, dtype=float) * u.au
    c.val = np.array(val, dtype=float) * unit
    if unc is not None:
        c.unc = np.array(unc, dtype=float) * unit
    return c


def write_cube_package(model_dir, names, wav_um, val, unc, apertures_au=None, params=None,
                       aperture_dependent=None, logd_step=0.02, unit=None):
    """cube (version 2) package: flux.fits + parameters.fits (same row order as the cube) + models.conf"""
    if aperture_dependent is None:
        aperture_dependent = apertures_au is not None and len(apertures_au) > 1
    write_conf(model_dir, aperture_dependent, logd_step=logd_step, version=2)
    c = make_cube(names, wav_um, val, unc, apertures_au, unit=unit)
    c.write(os.path.join(model_dir, 'flux.fits'), overwrite=True)
    cols = params or {'PAR1': [float(i) for i in range(len(names))]}
    write_parameters(model_dir, list(names), cols)
    return c


def make_filter(name, central_wav_um, wav_um, response, normalize=True):
    """Filter object tabulated at wavelengths `wav_um` (any order); nu = c / wav"""
    from sedfitter.filter import Filter
    f = Filter()
    f.name = name
    f.central_wavelength = central_wav_um * u.micron
    f.nu = (np.array(wav_um, dtype=float) * u.micron).to(u.Hz, equivalencies=u.spectral())
    f.response = np.array(response, dtype=float)
    if normalize:
        f.normalize()
    return f


def make_fitinfo(names, chi2, av=None, sc=None, flags=(1, 1, 1), source_name='src', model_fluxes=None,
                 sort=True, meta=None):
    """FitInfo built directly (bypassing the fitter), sorted by chi2 like Models.fit does"""
    from sedfitter.fit_info import FitInfo
    info = FitInfo()
    nb = len(flags)
    info.source = make_source(source_name, flags, [1.] * nb, [.1] * nb)
    n = len(names)
    info.av = np.array(av if av is not None else np.arange(n), dtype=float)
    info.sc = np.array(sc if sc is not None else np.arange(n) * 0.1, dtype=float)
    info.chi2 = np.array(chi2, dtype=float)
    info.model_name = np.array(names)
    info.model_fluxes = None if model_fluxes is None else np.array(model_fluxes, dtype=float)
    if sort:
        info.sort()
    else:
        info.model_id = np.arange(n)
    if meta is not None:
        info.meta.model_dir, info.meta.filters, info.meta.extinction_law = meta
    return info
