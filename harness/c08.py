"""C08 — a planted model is recovered through the whole pipeline.

Real side (whole chain): package written with sedfitter's own writers (per-file `SED.write` +
permuted `parameters.fits` + decoupled file names, or cube `SEDCube.write`) ->
`convolve_model_dir(model_dir, filters, memmap=False)` -> photometry synthesised by the harness from
model m -> data file -> `fit(datafile, ..., output_format=('N', n_models))` -> fit output file ->
`write_parameters(out, txt, select_format=('N', 1))` -> text.

Harness's own arithmetic: the convolved flux of model m in a filter is sum(SED_m * binned response)
(binned response from the public `Filter.rebin`), cross-checked against the row labelled m of
convolved/<filter>.fits (`ConvolvedFluxes.read`); then
  distance-independent:  log10 F_obs = log10 F_m + A_V0 k(lambda) - 2 s0
  distance-dependent:    F_obs = interp(apertures, F_m, theta d0[pc] AU) (1 kpc / d0)^2 10^(A_V0 k),  d0 on the grid
with k = `Extinction.get_av(central wavelengths)`.  Flag 4 plants (log10 F, log-error) directly;
flag 1 plants F' = F 10^(+0.5 e^2/ln 10), sigma = e F' (e in [1e-3, 0.5]), which `get_log_fluxes` maps
back to exactly log10 F.

Property side: first record of the fit file and first data row of the text: model m, chi2 ~ 0, A_V ~
A_V0, scale ~ s0 / log10 d0, and m's own row of parameters.fits printed with `%10.3e`.

Lean side: theorems `C08_exact2`, `C08_exact3`, `C08_exact3_fit3`, `C08_first`, `C08_first_ranked`
(`Properties/C08.lean`, builderA).  The driver (`fit2`, Drv/C01.lean) is asked for the exact chi2 of
every model on the planted data: it must return (A_V0, s0, 0) for m (the theorem's conclusion on the
very numbers planted) and decides non-degeneracy of the package (no other model below the floor);
in the distance-dependent mode non-degeneracy is read off the real ranking (second-best chi2).
"""
import math
import os
import shutil
import tempfile

os.environ.setdefault('MPLBACKEND', 'Agg')

import numpy as np

from . import common
from .common import CaseResult, rat, rats, case_rng, nice
from . import packages as pk

PID = 'C08'
# second correspondence stage: the end-to-end pipeline model (Model/Pipeline.lean, Properties/E2E.lean) run against
# convolve_model_dir -> fit -> write_parameters on every row of every listing, not only the planted model
EXTRA_HARNESS = ['harness.e2e']
RULE = ('cases = (package of 2-6 models in per-file or cube format, 6-20 wavelengths in either order, 1 aperture '
        '(distance-independent) or 3-5 apertures (distance-dependent), 3-5 model-identifying parameter columns, '
        'parameter table permuted and file names decoupled in the per-file format, where every model may also have its own '
        'wavelength grid (same end points; same length with different interior spacing, or different lengths); some '
        'never-planted models may have exactly zero flux over one filter\'s whole band; 3-5 normalised filters inside the '
        'SED range, convolved in one call or (35%) in two calls with a fit + write_parameters in between, all in one '
        'process and model directory; distance range handed over in kpc, pc, Mpc, cm or lyr; extinction law; 1-2 sources planted from (m, A_V0 in range, scale s0 | grid distance d0) with flag '
        '1 (relative error 1e-3..0.5, bias-compensated) or flag 4); a case is non-trivial when the package is '
        'non-degenerate for the planted data (every other model has chi2 > 1e-3); distinct = distinct canonical hash '
        'of the generated inputs')
REQUIRED_BRANCHES = ['per_file', 'cube', 'dist_independent', 'dist_dependent', 'table_permuted', 'flag1', 'flag4',
                     'staged_convolution', 'staged_table_not_alphabetical', 'staged_first_stage_checked',
                     'apertures_tabulated_in_AU', 'apertures_tabulated_other_unit', 'cube_fitted_at_wavelengths_table_permuted', 'wavelength_requested_between_geometric_and_arithmetic_mean',
                     'table_reordered_after_convolution', 'stale_convolved_files_refused_then_overwritten',
                     'write_parameters_additional_column', 'fit_output_convolved', 'package_in_mJy', 'package_in_other_flux_unit', 'own_grids_same_length', 'own_grids_mixed_lengths', 'other_model_zero_flux', 'other_model_zero_flux_indep', 'distance_unit_kpc', 'distance_unit_other',
                     'dist_dependent_unit_not_kpc', 'av0_at_lower_bound', 'av0_at_upper_bound', 'av_range_from_zero',
                     'av_range_negative', 'av_range_positive_start', 'lower_limit_band', 'upper_limit_band', 'plot_only_band',
                     'output_N_all', 'output_format_other', 'select_N1', 'select_format_other', 'listing_several_rows', 'two_sources', 'wav_increasing', 'wav_decreasing', 'unused_band']
ASSUMPTIONS = ['IEEE rounding is not modelled: chi2 <= 1e-6 n, |A_V - A_V0|, |scale - s0| <= 1e-6 + first-order '
               'propagation of the storage precision of the model fluxes + 1e-12 x condition number of the normal equations',
               'extinction coefficients at the filters differ pairwise by >= 0.02 (well-conditioned regression, as in C01)',
               '`fit()` always reads cube packages through a float32 memmap (no switch in its signature): budget '
               '2 x 2^-24 (1/ln 10 + 3 |log10 F|max) on each log10 model flux',
               'identifiability is established per stage by the harness\'s own arithmetic (not from the fitter\'s answer): >= 3 '
               'fitted bands, every other model has chi2 > 1e-3 at every scale / trial distance, and the planted model has '
               'chi2 > 1e-3 at every other trial distance; otherwise the source is counted as trivial and skipped',
               'theta*d stays >= 1.001 x the smallest tabulated aperture on the whole distance grid; theta*d0 is inside the table']
TRUSTED_EXTRA = ['the binned filter response comes from the public Filter.rebin (C06); the harness only sums']
N = {'quick': 240, 'thorough': 6000}
FLOOR = 1e-3
PAR_NAMES = ['MASS', 'TEMP', 'LUMIN', 'INCL', 'AGE']
LETTERS = 'abcdefghijklmnopqrstuvwxyz0123456789'
LN10 = math.log(10.)
FLUX_TO_MJY = {'mJy': 1., 'Jy': 1000., 'uJy': 1e-3}
from astropy import units as _u          # noqa: E402
UNITS = {'kpc': _u.kpc, 'pc': _u.pc, 'Mpc': _u.Mpc, 'cm': _u.cm, 'lyr': _u.lyr}


# ----------------------------------------------------------------------------- generation

def gen_case(rng, directed=None):
    directed = directed or {}
    fmt = directed.get('fmt', rng.choice(['per_file', 'cube']))
    dep = directed.get('dep', rng.random() < 0.5)
    nm = rng.randint(2, 6)
    names = set()
    while len(names) < nm:
        names.add('m' + ''.join(rng.choice(LETTERS) for _ in range(rng.randint(2, 6))))
    names = sorted(names)
    rng.shuffle(names)
    nw = rng.randint(6, 20)
    lo_w = nice(rng, 0.1, 1., 2)
    hi_w = lo_w * nice(rng, 200., 3000., 2)
    wav = {lo_w, float('%.3g' % hi_w)}
    while len(wav) < nw:
        wav.add(nice(rng, lo_w, hi_w, 3))
    wav = sorted(wav)
    order = directed.get('order', rng.choice(['inc', 'dec']))
    # per-file packages may give every model its own wavelength grid: same end points, and either the same number
    # of points with different interior spacing or a different number of points
    hetero = directed.get('hetero', 'none' if fmt != 'per_file' else rng.choice(['none', 'none', 'same_len', 'mixed']))
    if fmt != 'per_file' or directed.get('degenerate'):
        hetero = 'none'
    wavs = [wav]
    for i in range(1, nm):
        if hetero == 'none':
            wavs.append(wav)
            continue
        n_i = nw if (hetero == 'same_len' or (hetero == 'mixed' and i == 1)) else max(6, nw + rng.choice([-3, -2, -1, 1, 2, 3]))
        g = {wav[0], wav[-1]}
        while len(g) < n_i:
            g.add(nice(rng, wav[0], wav[-1], 3))
        wavs.append(sorted(g))
    # filters: central wavelengths well inside the range, tabulated on 3-7 points in either order
    nf = directed.get('nf', rng.randint(3, 5))
    filters = []
    cens = set()
    while len(filters) < nf:
        cen = nice(rng, wav[0] * 3, wav[-1] / 3, 3)
        if any(abs(math.log(cen / c)) < 0.25 for c in cens):
            continue
        cens.add(cen)
        half = rng.uniform(1.05, 1.6)
        npt = rng.randint(3, 7)
        fw = sorted({float('%.4g' % (cen / half)), float('%.4g' % (cen * half))} |
                    {float('%.4g' % (cen * half ** rng.uniform(-1, 1))) for _ in range(npt - 2)})
        resp = [round(rng.uniform(0.1, 1.), 2) for _ in fw]
        if rng.random() < 0.5:
            fw, resp = fw[::-1], resp[::-1]
        filters.append(dict(name='F%d' % len(filters), cen=cen, wav=fw, resp=resp))
    # cube packages may instead be fitted directly at tabulated wavelengths (monochromatic filters given as
    # wavelength quantities, no convolution step): nothing then ties the order of parameters.fits to the cube
    mono = False
    if fmt == 'cube' and directed.get('mono', rng.random() < 0.3):
        inner = [w for w in wav[1:-1]]
        rng.shuffle(inner)
        picked = []
        for w in inner:
            if all(abs(math.log(w / c)) >= 0.25 for c in picked):
                picked.append(w)
            if len(picked) == nf:
                break
        if len(picked) >= 3:
            mono = True
            nf = len(picked)
            filters = [dict(name='W%d' % j, cen=w, wav=[w], resp=[1.]) for j, w in enumerate(picked)]
            # some wavelengths are requested OFF the grid, between the geometric and the arithmetic mean of the tabulated
            # wavelength and its upper neighbour: the nearest tabulated wavelength (in wavelength) is still `cen`,
            # the nearest in log-wavelength would be the neighbour; placed near either mean and in the middle
            for f in filters:
                if directed.get('offgrid', rng.random() < 0.5):
                    up = wav[wav.index(f['cen']) + 1]
                    gm, am = math.sqrt(f['cen'] * up), 0.5 * (f['cen'] + up)
                    f['req'] = gm + rng.choice([0.02, 0.5, 0.98]) * (am - gm)
    theta = [nice(rng, 1., 10., 2) for _ in range(nf)]
    # distance grid and aperture table
    dunit = directed.get('dunit', rng.choice(['kpc', 'kpc', 'pc', 'Mpc', 'cm', 'lyr']))
    if dep:
        dmin = nice(rng, 0.1, 5., 2)
        dmax = float('%.3g' % (dmin * rng.uniform(1.5, 10.)))
        # the range is handed to fit() in `dunit`; the kpc values are the ones the code derives from it
        drange_u = [float('%.4g' % x) for x in (np.array([dmin, dmax]) * UNITS['kpc']).to(UNITS[dunit]).value]
        dmin, dmax = [float(x) for x in (np.array(drange_u) * UNITS[dunit]).to(UNITS['kpc']).value]
        step = float('%.2g' % (math.log10(dmax / dmin) / rng.randint(2, 20)))
        nap = rng.randint(3, 5)
        a_lo = float('%.3g' % (min(theta) * dmin * 1000. * rng.uniform(0.3, 0.95)))
        a_hi = float('%.3g' % (max(theta) * dmax * 1000. * rng.uniform(0.6, 1.5)))
        a_hi = max(a_hi, float('%.3g' % (max(theta) * dmin * 1000. * 1.2)))
        aps = {a_lo, a_hi}
        while len(aps) < nap:
            aps.add(nice(rng, a_lo, a_hi, 3))
        aps = sorted(aps)
    else:
        dmin, dmax, step = 1., float(rng.choice([2., 5.])), 0.05
        drange_u = [float('%.4g' % x) for x in (np.array([dmin, dmax]) * UNITS['kpc']).to(UNITS[dunit]).value]
        aps = None
    nap = len(aps) if aps else 1
    # model SEDs: different slopes and bumps, random wiggle per wavelength, aperture growth curves
    flux = []
    for i in range(nm):
        alpha = rng.uniform(-2., 2.)
        amp = nice(rng, 0.1, 100., 2)
        w0 = nice(rng, wav[0], wav[-1], 2)
        base = [amp * (w / w0) ** alpha * (1. + 3. * math.exp(-0.5 * math.log(w / w0) ** 2)) * 10 ** rng.uniform(-0.4, 0.4)
                for w in wavs[i]]
        per_ap = []
        for a in range(nap):
            frac = 1. if nap == 1 else (a + 1. + rng.uniform(0, 0.8)) / (nap + 0.8)
            per_ap.append([float('%.4g' % (b * frac * (1. if nap == 1 else 10 ** rng.uniform(-0.1, 0.1)))) for b in base])
        flux.append(per_ap)
    degenerate = directed.get('degenerate', False)
    if degenerate and nm >= 2:
        flux[1] = [[float('%.4g' % (v * 3.)) for v in row] for row in flux[0]]   # pure scaling of model 0
    if order == 'dec':
        wav = wav[::-1]
        wavs = [g[::-1] for g in wavs]
        flux = [[row[::-1] for row in per_ap] for per_ap in flux]
    # parameter table
    ncol = rng.randint(3, 5)
    cols = {}
    for c in range(ncol):
        vals = set()
        while len(vals) < nm:
            vals.add(nice(rng, 1e-3, 1e5, 3))
        vals = sorted(vals)
        rng.shuffle(vals)
        cols[PAR_NAMES[c]] = vals                 # indexed like `names`
    table_order = list(range(nm))
    stems = {}
    retable = None
    if mono:
        while table_order == list(range(nm)):
            rng.shuffle(table_order)
    if fmt == 'per_file' and directed.get('retable', rng.random() < 0.3):
        # the parameter table is rewritten in another row order after the last convolution, before the final fit
        retable = list(range(nm))
        rng.shuffle(retable)
    if fmt == 'per_file':
        while table_order == list(range(nm)) or directed.get('identity_table'):
            rng.shuffle(table_order)
            if directed.get('identity_table'):
                table_order = list(range(nm))
                break
        perm = list(range(nm))
        rng.shuffle(perm)
        stems = {names[i]: 'f%03d_sed' % perm[i] for i in range(nm)}
    # extinction law
    # extinction law: decreasing, with clearly different coefficients at the filters (a nearly flat law makes the
    # A_V / scale regression near-singular: outside C01's / C08's domain, and not recoverable in floating point)
    for attempt in range(50):
        tw = sorted({0.05, 5000.} | {nice(rng, 0.1, 2000., 3) for _ in range(rng.randint(4, 10))})
        top = nice(rng, 1e3, 1e5, 3)
        beta = rng.uniform(0.3, 0.9) if attempt < 40 else 0.6
        chi = [float('%.3g' % (top * (w / 0.05) ** (-beta) * 10 ** rng.uniform(-0.05, 0.05))) for w in tw]
        chi = sorted(chi, reverse=True)
        kk = [-0.4 * float(np.interp(f.get('req', f['cen']), tw, chi)) / float(np.interp(0.55, tw, chi)) for f in filters]
        gaps = [abs(a - b) for i, a in enumerate(kk) for b in kk[i + 1:]]
        if min(gaps) >= 0.02 and min(abs(x) for x in kk) >= 0.01:
            break
    av_lo = float(directed.get('av_lo', rng.choice([0., 0., 0., -5., -20., 2., 7.5])))
    av_hi = av_lo + float(rng.choice([5, 10, 20, 40]))
    # sources
    nsrc = directed.get('nsrc', rng.choice([1, 1, 2]))
    n_grid = 1
    if dep:
        n_grid = int(math.ceil(1 + (math.log10(dmax) - math.log10(dmin)) / step))
    sources = []
    for si in range(nsrc):
        m = 0 if degenerate else rng.randrange(nm)
        if directed.get('av0_lo') and si == 0:
            av0 = av_lo
        elif directed.get('av0_hi') and si == 0:
            av0 = av_hi
        else:
            av0 = round(rng.uniform(av_lo, av_hi), 2)
        kind = directed.get('flags', rng.choice(['flag1', 'flag4', 'mixed']))
        flags = [1 if kind == 'flag1' else 4 if kind == 'flag4' else rng.choice([1, 4]) for _ in range(nf)]
        if directed.get('unused') or rng.random() < 0.25:
            if nf >= 4:
                flags[rng.randrange(nf)] = 0
        errs = [nice(rng, 1e-3, 0.5, 2) for _ in range(nf)]
        # limit bands consistent with the planted model (never violated by it) and plot-only bands, keeping >= 3
        # fitted bands: flag 2 = lower limit (data below the model), flag 3 = upper limit (data above the model);
        # their error column is the confidence; `lim` is the distance of the limit from the planted flux in dex
        lim = [0.] * nf
        spare = [j for j in range(nf) if flags[j] in (1, 4)]
        rng.shuffle(spare)
        want = directed.get('special', [rng.choice([2, 3, 9]) for _ in range(rng.randint(0, 2))] if rng.random() < 0.35 else [])
        for flag in want:
            if len(spare) <= 3:
                break
            j = spare.pop()
            flags[j] = flag
            if flag in (2, 3):
                errs[j] = float(rng.choice([0., 0.5, 0.9, 0.99, 1.]))
                lim[j] = round(rng.uniform(0.05, 1.), 3)
        sources.append(dict(name='src_%d' % si, m=m, av0=av0, s0=round(rng.uniform(-1., 1.5), 3),
                            di=rng.randrange(n_grid), flags=flags, errs=errs, lim=lim))
    # staged history: convolve a first group of filters, fit + write_parameters, convolve the remaining filter(s)
    # into the same package, fit + write_parameters with all filters (one process, one model directory)
    # some other (never planted) models have exactly zero flux over the whole band of one filter
    zero = []
    planted_models = {s['m'] for s in sources}
    cand = [i for i in range(nm) if i not in planted_models]
    if cand and not degenerate and directed.get('zero', rng.random() < 0.3):
        for z in rng.sample(cand, rng.randint(1, min(2, len(cand)))):
            f = filters[rng.randrange(nf)]
            g = sorted(wavs[z])
            inside = [w for w in g if min(f['wav']) <= w <= max(f['wav'])]
            below = [w for w in g if w < min(f['wav'])][-2:]
            above = [w for w in g if w > max(f['wav'])][:2]
            dead = set(inside + below + above)        # every SED point whose frequency bin can overlap the filter
            flux[z] = [[0. if w in dead else v for w, v in zip(wavs[z], row)] for row in flux[z]]
            zero.append([z, f['name']])
    staged = directed.get('staged', rng.random() < 0.35)
    n_first = rng.randint(min(3, nf - 1), nf - 1) if staged else nf     # >= 3 bands in the first stage when possible
    ap_unit = directed.get('ap_unit', rng.choice(['AU', 'AU', 'pc', 'cm'])) if dep else 'AU'
    if mono:
        staged, n_first, hetero = False, nf, 'none'
    stale = bool(directed.get('stale', rng.random() < 0.25)) and not mono
    additional = bool(directed.get('additional', rng.random() < 0.3))
    return dict(stale=stale, additional=additional, output_convolved=bool(rng.random() < 0.3), flux_unit=directed.get('flux_unit', rng.choice(['mJy', 'mJy', 'Jy', 'uJy'])), fmt=fmt, dep=dep, mono=mono, retable=retable, ap_unit=ap_unit, names=names, wav=wav, wavs=(wavs if hetero != 'none' else None), zero=zero,
                aps=aps, flux=flux, filters=filters, theta=theta,
                drange=drange_u, dunit=dunit, n_first=n_first, step=step, cols=cols, table_order=table_order, stems=stems,
                tab_w=tw, tab_chi=chi, av=[av_lo, av_hi], sources=sources,
                n_data_min=rng.randint(1, 3),
                output_format=(directed.get('output_format') or ['N', nm]) if 'output_format' in directed else (rng.choice(
                    [['N', nm], ['N', nm], ['N', nm], ['A', 0], ['N', rng.randint(1, nm)], ['F', nice(rng, 1., 1e4, 2)],
                     ['D', nice(rng, 1., 1e5, 2)], ['C', nice(rng, 1., 1e5, 2)], ['E', nice(rng, 1., 1e4, 2)]])),
                select_format=directed.get('select_format', rng.choice(
                    [['N', 1], ['N', 1], ['N', 1], ['A', 0], ['N', rng.randint(2, 4)], ['F', nice(rng, 1., 1e4, 2)],
                     ['D', nice(rng, 1., 1e5, 2)], ['C', nice(rng, 1., 1e5, 2)], ['E', nice(rng, 1., 1e4, 2)]])))


DIRECTED = [
    dict(fmt='per_file', dep=False, flags='flag1', nsrc=1, order='inc'),
    dict(fmt='per_file', dep=True, flags='flag4', nsrc=2, order='dec'),
    dict(fmt='cube', dep=False, flags='flag4', nsrc=2, order='dec', av0_lo=True),
    dict(fmt='cube', dep=True, flags='flag1', nsrc=1, order='inc', unused=True),
    dict(fmt='per_file', dep=False, flags='mixed', nsrc=1, av0_lo=True, unused=True),
    dict(fmt='cube', dep=True, flags='mixed', nsrc=2),
    dict(fmt='per_file', dep=False, flags='flag4', nsrc=1, degenerate=True),
    dict(fmt='per_file', dep=True, flags='flag1', nsrc=1, av0_lo=True),
    dict(fmt='per_file', dep=False, flags='flag4', nsrc=1, staged=True, dunit='kpc', nf=5),
    dict(fmt='per_file', dep=True, flags='flag1', nsrc=2, staged=True, dunit='pc', nf=5),
    dict(fmt='cube', dep=True, flags='flag4', nsrc=1, staged=False, dunit='Mpc'),
    dict(fmt='per_file', dep=True, flags='mixed', nsrc=1, staged=False, dunit='cm'),
    dict(fmt='cube', dep=True, flags='flag1', nsrc=1, staged=True, dunit='lyr', nf=5),
    dict(fmt='per_file', dep=False, flags='mixed', nsrc=2, staged=True, dunit='pc', nf=5),
    dict(fmt='per_file', dep=False, flags='flag4', nsrc=2, staged=False, hetero='same_len', zero=False),
    dict(fmt='per_file', dep=True, flags='flag1', nsrc=2, staged=False, hetero='mixed', zero=False),
    dict(fmt='per_file', dep=False, flags='mixed', nsrc=1, staged=True, hetero='same_len', zero=True, nf=4),
    dict(fmt='per_file', dep=False, flags='flag1', nsrc=1, staged=False, hetero='none', zero=True),
    dict(fmt='cube', dep=False, flags='flag4', nsrc=1, staged=False, zero=True),
    dict(fmt='cube', dep=True, flags='mixed', nsrc=1, staged=False, zero=True),
    dict(fmt='per_file', dep=False, flags='flag1', nsrc=1, av0_hi=True, av_lo=-5., nf=5, special=[2, 9]),
    dict(fmt='cube', dep=True, flags='flag4', nsrc=1, av0_hi=True, av_lo=2., nf=5, special=[3, 2]),
    dict(fmt='per_file', dep=True, flags='mixed', nsrc=2, av_lo=-20., nf=5, special=[9, 3], output_format=['F', 30.], select_format=['A', 0]),
    dict(fmt='cube', dep=False, flags='mixed', nsrc=1, av_lo=0., nf=4, special=[3], output_format=['A', 0], select_format=['N', 3]),
    dict(fmt='per_file', dep=False, flags='flag4', nsrc=2, nf=4, special=[2], output_format=['N', 2], select_format=['F', 50.]),
    dict(fmt='per_file', dep=True, flags='flag1', nsrc=1, ap_unit='pc', special=[], av_lo=0., select_format=['N', 1]),
    dict(fmt='cube', dep=True, flags='flag4', nsrc=2, ap_unit='cm', special=[], av_lo=0., select_format=['N', 1]),
    dict(fmt='cube', dep=True, flags='mixed', nsrc=1, ap_unit='pc', staged=True, nf=5, special=[], av_lo=0., select_format=['N', 1]),
    dict(fmt='per_file', dep=False, flags='flag1', nsrc=1, retable=True, staged=False, special=[], av_lo=0., select_format=['N', 1]),
    dict(fmt='per_file', dep=True, flags='flag4', nsrc=2, retable=True, staged=True, nf=5, special=[], av_lo=0., select_format=['A', 0]),
    dict(fmt='cube', dep=False, flags='flag4', nsrc=1, mono=True, special=[], av_lo=0., select_format=['N', 1]),
    dict(fmt='cube', dep=True, flags='mixed', nsrc=2, mono=True, ap_unit='pc', special=[], av_lo=0., select_format=['N', 2]),
]
DIRECTED += [
    dict(fmt='per_file', dep=False, flags='flag1', nsrc=1, stale=True, staged=False, special=[], av_lo=0., select_format=['N', 1], additional=True),
    dict(fmt='cube', dep=True, flags='flag4', nsrc=1, stale=True, staged=True, nf=5, mono=False, special=[], av_lo=0., select_format=['N', 2], additional=True),
    dict(fmt='per_file', dep=True, flags='mixed', nsrc=2, stale=True, staged=True, nf=4, special=[], av_lo=0., select_format=['A', 0]),
]
for _d in DIRECTED[:32]:
    _d.setdefault('stale', False)
    _d.setdefault('additional', False)
for _d in DIRECTED[:28]:
    _d.setdefault('flux_unit', 'mJy')
for _d, _u in zip(DIRECTED[28:], ['Jy', 'uJy', 'Jy', 'uJy']):
    _d.setdefault('flux_unit', _u)
for _d in DIRECTED[:28]:
    _d.setdefault('retable', False)
    _d.setdefault('mono', False)
for _d in DIRECTED[:20]:
    _d.setdefault('special', [])
    _d.setdefault('av_lo', 0.)
    _d.setdefault('output_format', None)
    _d.setdefault('select_format', ['N', 1])
for _d in DIRECTED[:25]:
    _d.setdefault('ap_unit', 'AU')
for _d in DIRECTED[:8]:
    _d.setdefault('staged', False)
for _d in DIRECTED[:14]:
    _d.setdefault('hetero', 'none')
    _d.setdefault('zero', False)


def gen_cases(seed, tier):
    for i in range(N[tier]):
        rng = case_rng(seed, PID, i)
        yield gen_case(rng, DIRECTED[i] if i < len(DIRECTED) else None)


# ----------------------------------------------------------------------------- pipeline

def build_package(case, d):
    """the package, written with sedfitter's own writers (`SED.write`, `SEDCube.write`); the aperture table is
    stored in the case's unit (AU, pc or cm), every model possibly on its own wavelength grid (per-file format)"""
    from astropy import units as u
    names = case['names']
    nm = len(names)
    params_by_name = {n: [case['cols'][c][i] for c in case['cols']] for i, n in enumerate(names)}
    ap_unit = u.Unit(case.get('ap_unit') or 'AU')
    aps_q = None if case['aps'] is None else (np.array(case['aps'], dtype=float) * u.au).to(ap_unit)
    if case['fmt'] == 'per_file':
        os.makedirs(os.path.join(d, 'seds'), exist_ok=True)
        pk.write_conf(d, case['dep'], logd_step=case['step'], version=1)
        for i, n in enumerate(names):
            fi = np.array(case['flux'][i], dtype=float)
            sed = pk.make_sed(n, (case.get('wavs') or [case['wav']] * nm)[i], fi, fi * 0.1, case['aps'],
                              unit=u.Unit(case.get('flux_unit') or 'mJy'))
            if aps_q is not None:
                sed.apertures = aps_q
            sed.write(os.path.join(d, 'seds', (case['stems'] or {}).get(n, n + '_sed') + '.fits'), overwrite=True)
        order = [names[i] for i in case['table_order']]
        pk.write_parameters(d, order, {c: [case['cols'][c][i] for i in case['table_order']] for c in case['cols']})
    else:
        flux = np.array(case['flux'], dtype=float)
        pk.write_conf(d, case['dep'], logd_step=case['step'], version=2)
        cube = pk.make_cube(names, case['wav'], flux, flux * 0.1, case['aps'], unit=u.Unit(case.get('flux_unit') or 'mJy'))
        if aps_q is not None:
            cube.apertures = aps_q
        cube.write(os.path.join(d, 'flux.fits'), overwrite=True)
        order = case['table_order'] if case.get('mono') else list(range(nm))      # cube convolution insists on cube order
        pk.write_parameters(d, [names[i] for i in order], {c: [case['cols'][c][i] for i in order] for c in case['cols']})
    return params_by_name


def own_convolved(case, filt_objs):
    """harness's own convolved fluxes: F[m][j][a] = sum_nu SED_m,a(nu) * rebinned response_j(nu), every model on
    its own spectral grid"""
    from astropy import units as u
    nm = len(case['names'])
    nap = len(case['flux'][0])
    out = np.zeros((nm, len(filt_objs), nap))
    cache = {}
    for i in range(nm):
        wav_i = tuple((case.get('wavs') or [case['wav']] * nm)[i])
        if wav_i not in cache:
            nu = (np.array(wav_i, dtype=float) * u.micron).to(u.Hz, equivalencies=u.spectral())
            order = np.argsort(nu.value)
            cache[wav_i] = (order, [f.rebin(nu[order]).response for f in filt_objs])
        order, resps = cache[wav_i]
        flux = np.array(case['flux'][i], dtype=float)[:, order] * FLUX_TO_MJY[case.get('flux_unit') or 'mJy']
        for j, resp in enumerate(resps):
            out[i, j, :] = np.sum(flux * resp[np.newaxis, :], axis=1)
    return out


def drange_quantity(case):
    return np.array(case['drange'], dtype=float) * UNITS[case.get('dunit', 'kpc')]


def grid_length(case):
    """(number of trial distances, ambiguous).  The length is ceil(1 + log-width / step) in real arithmetic; it
    is taken from the float value when that is clearly non-integral, or exactly integral (the minimal grid is then
    unambiguous, as in c02.py); a value within rounding of an integer without being one is ambiguous: any harmless
    re-arrangement of the arithmetic may land on either side, and the case is not judged"""
    dmin, dmax = drange_quantity(case).to(UNITS['kpc']).value
    x = 1 + (np.log10(dmax) - np.log10(dmin)) / case['step']
    near = abs(x - round(x)) < 1e-9 * max(1., abs(x))
    if near and x != round(x):
        return int(round(x)), True
    return (int(round(x)) if near else int(np.ceil(x))), False


def grid(case):
    dmin, dmax = drange_quantity(case).to(UNITS['kpc']).value
    g = np.logspace(np.log10(dmin), np.log10(dmax), grid_length(case)[0])
    if len(g) > 1:          # the code pins the two ends of the grid to the requested distances
        g[0], g[-1] = dmin, dmax
    return g


def synthesise(case, src, own, ks):
    """(flags, flux column, error column, planted scale, planted log fluxes) for one source"""
    m = src['m']
    nf = len(case['filters'])
    logf = np.zeros(nf)
    if case['dep']:
        g = grid(case)
        d0 = g[min(src['di'], len(g) - 1)]
        for j in range(nf):
            x = case['theta'][j] * (d0 * 1000.)
            fm = np.interp(x, np.array(case['aps']), own[m, j, :])
            logf[j] = np.log10(fm * (1. / d0) ** 2 * 10. ** (src['av0'] * ks[j]))
        scale = float(np.log10(d0))
    else:
        for j in range(nf):
            logf[j] = np.log10(own[m, j, 0]) + src['av0'] * ks[j] - 2. * src['s0']
        scale = src['s0']
    fl, er = [], []
    for j in range(nf):
        e = src['errs'][j]
        if src['flags'][j] == 4:
            fl.append(float(logf[j])); er.append(e)
        elif src['flags'][j] == 1:
            f1 = 10. ** (logf[j] + 0.5 * e * e / LN10)
            fl.append(float(f1)); er.append(float(e * f1))
        elif src['flags'][j] == 2:              # lower limit below the planted flux: not violated by the planted model
            fl.append(float(10. ** (logf[j] - src['lim'][j]))); er.append(e)
        elif src['flags'][j] == 3:              # upper limit above the planted flux
            fl.append(float(10. ** (logf[j] + src['lim'][j]))); er.append(e)
        elif src['flags'][j] == 9:              # plot-only band: anything positive
            fl.append(float(10. ** (logf[j] + 0.4))); er.append(float(e * 10. ** logf[j]))
        else:                                   # unused band: garbage
            fl.append(float(10. ** (logf[j] + 1.7))); er.append(float(10. ** logf[j]))
    return fl, er, scale, logf


class StaleAccepted(Exception):
    pass


def stage_case(case, nfilt):
    """the case restricted to its first `nfilt` filters (sources keep those bands only)"""
    if nfilt >= len(case['filters']):
        return case
    c = dict(case)
    c['filters'] = case['filters'][:nfilt]
    c['theta'] = case['theta'][:nfilt]
    c['sources'] = [dict(s, flags=s['flags'][:nfilt], errs=s['errs'][:nfilt], lim=(s.get('lim') or [0.] * len(s['flags']))[:nfilt])
                    for s in case['sources']]
    # every source is still fitted in the shorter band set (a fit file without any record cannot be read back)
    c['n_data_min'] = max(1, min([case['n_data_min']] + [sum(1 for f in s['flags'] if f in (1, 4)) for s in c['sources']]))
    return c


def run_pipeline(case, d):
    """runs the whole history on the real code, in this process and in one model directory:
    [convolve first filters -> fit -> write_parameters ->] convolve the remaining filters -> fit ->
    write_parameters.  returns [(stage case, observations)], the final stage last"""
    from sedfitter.convolve import convolve_model_dir
    nf = len(case['filters'])
    if case.get('stale'):
        # leftovers of an earlier run: the package was convolved when its SEDs were different (since corrected)
        old = dict(case)
        old['flux'] = [[[v * (1. + 0.3 * (i + 1) * w) for w, v in enumerate(row)] for row in per_ap]
                       for i, per_ap in enumerate(case['flux'])]
        build_package(old, d)
        allf = [pk.make_filter(f['name'], f['cen'], f['wav'], f['resp']) for f in case['filters']]
        with common.quiet():
            convolve_model_dir(d, allf, memmap=False)
    params_by_name = build_package(case, d)
    n_first = case.get('n_first', nf)
    stages = [n_first, nf] if n_first < nf else [nf]
    done = 0
    out = []
    if case.get('mono'):
        stages = [nf]
    for k, upto in enumerate(stages):
        if not case.get('mono'):
            new = [pk.make_filter(f['name'], f['cen'], f['wav'], f['resp']) for f in case['filters'][done:upto]]
            if case.get('stale'):
                # the files exist: the default overwrite=False must refuse; the user then asks for overwrite=True
                try:
                    with common.quiet():
                        convolve_model_dir(d, new, memmap=False)
                except Exception:
                    pass
                else:
                    raise StaleAccepted('convolve_model_dir(model_dir, filters) with the default overwrite=False returned although '
                                        'convolved/%s.fits (computed from SEDs since replaced) exist: stale fluxes are kept silently'
                                        % ', '.join(f['name'] for f in case['filters'][done:upto]))
                with common.quiet():
                    convolve_model_dir(d, new, overwrite=True, memmap=False)
            else:
                with common.quiet():
                    convolve_model_dir(d, new, memmap=False)
        done = upto
        if upto == nf and case.get('retable'):
            # every convolved file exists; the user re-orders parameters.fits (lookups are by name everywhere)
            names = case['names']
            pk.write_parameters(d, [names[i] for i in case['retable']],
                                {c: [case['cols'][c][i] for i in case['retable']] for c in case['cols']})
        sc = stage_case(case, upto)
        out.append((sc, run_stage(sc, d, params_by_name, k)))
    return out


def run_stage(case, d, params_by_name, k):
    """synthesise photometry in the filters of this stage, fit, list parameters"""
    from astropy import units as u
    from sedfitter import fit, write_parameters
    from sedfitter.convolved_fluxes import ConvolvedFluxes
    from sedfitter.fit_info import FitInfoFile
    names = case['names']
    if case.get('mono'):
        # fitted at tabulated wavelengths: the model flux is the cube cell itself
        own = np.array([[[case['flux'][i][a][case['wav'].index(f['cen'])] for a in range(len(case['flux'][i]))]
                         for f in case['filters']] for i in range(len(names))], dtype=float) * FLUX_TO_MJY[case.get('flux_unit') or 'mJy']
    else:
        filt_objs = [pk.make_filter(f['name'], f['cen'], f['wav'], f['resp']) for f in case['filters']]
        own = own_convolved(case, filt_objs)
    file_flux = own.copy() if case.get('mono') else np.zeros_like(own)
    for j, f in enumerate([] if case.get('mono') else case['filters']):
        c = ConvolvedFluxes.read(os.path.join(d, 'convolved', f['name'] + '.fits'))
        labels = [str(x).strip() for x in c.model_names]
        fl = np.asarray(c.flux.to(u.mJy).value, dtype=float)
        for i, n in enumerate(names):
            file_flux[i, j, :] = fl[labels.index(n)]
    ext = pk.make_extinction(case['tab_w'], case['tab_chi'])
    ks = np.asarray(ext.get_av(np.array([f.get('req', f['cen']) for f in case['filters']]) * u.micron), dtype=float)
    planted = []
    datafile = os.path.join(d, 'data_%d.txt' % k)
    with open(datafile, 'w') as fh:
        for src in case['sources']:
            fl, er, scale, logf = synthesise(case, src, own, ks)
            planted.append(dict(flux=fl, err=er, scale=scale, logf=logf))
            fh.write('%s 0.0 0.0 %s %s\n' % (src['name'], ' '.join(str(x) for x in src['flags']),
                                           ' '.join('%r %r' % (a, b) for a, b in zip(fl, er))))
    out = os.path.join(d, 'fit_output_%d.fitinfo' % k)
    txt = os.path.join(d, 'parameters_%d.txt' % k)
    with common.quiet():
        fit(datafile, ([f.get('req', f['cen']) * u.micron for f in case['filters']] if case.get('mono') else [f['name'] for f in case['filters']]),
            np.array(case['theta']) * u.arcsec, d, out,
            n_data_min=case['n_data_min'], extinction_law=ext, av_range=tuple(case['av']),
            distance_range=drange_quantity(case), output_format=tuple(case.get('output_format') or ('N', len(names))),
            output_convolved=bool(case.get('output_convolved')))
        if case.get('additional'):
            # positional output file, documented `additional` option: one more column, looked up by model name
            write_parameters(out, txt, tuple(case.get('select_format') or ('N', 1)),
                             additional={'EXTRA': {n: extra_value(case, n) for n in names}})
        else:
            write_parameters(out, txt, select_format=tuple(case.get('select_format') or ('N', 1)))
    records = []
    fin = FitInfoFile(out, 'r')
    for info in fin:
        a = pk.fit_arrays(info)
        records.append(dict(source=info.source.name, **a))
    fin.close()
    lines = open(txt).read().splitlines()
    return dict(params=params_by_name, own=own, file_flux=file_flux, ks=ks, planted=planted, records=records,
                text=lines)


def extra_value(case, name):
    """value of the `additional` parameter column for a model"""
    return 1000. + 7. * case['names'].index(name)


def parse_text(lines):
    """[(source name, n_data, n_fits, [fit rows as token lists])] from write_parameters output"""
    header = lines[1].split()
    body = lines[3:]
    out = []
    for ln in body:
        t = ln.split()
        if len(t) == 3:                    # source line: name, n_data, n_fits (fit rows have >= 8 columns)
            out.append([t[0], int(t[1]), int(t[2]), []])
        elif t:
            out[-1][3].append(t)
    return header, out


def budgets(case, src, run, si):
    """first-order propagation of an error `delta` on each log10 model flux into (A_V, scale) and chi2"""
    ks = run['ks']
    fitted = [j for j, f in enumerate(src['flags']) if f in (1, 4)]
    sig = np.array([src['errs'][j] / LN10 if src['flags'][j] == 1 else src['errs'][j] for j in fitted])
    w = 1. / sig ** 2
    k = ks[fitted]
    if case['fmt'] == 'cube':
        pos = run['own'][run['own'] > 0]
        lmax = float(np.max(np.abs(np.log10(pos))))
        delta = 2. * 2. ** -24 * (1. / LN10 + 3. * lmax)
    else:
        delta = 1e-12
    if case['dep']:
        ca = np.abs(k * w) / np.sum(k * k * w)
        da = delta * np.sum(ca)
        ds = 0.
    else:
        q = -2. * np.ones(len(k))
        X = np.vstack([k, q]).T
        M = X.T @ (w[:, None] * X)
        C = np.linalg.inv(M) @ (X.T * w[None, :])
        cond = M[0, 0] * M[1, 1] / np.linalg.det(M)       # the normal equations square the conditioning (cf. C01)
        extra = 1e-12 * cond * (1. + abs(src['av0']) + abs(src['s0']))
        da = delta * np.sum(np.abs(C[0])) + extra
        ds = delta * np.sum(np.abs(C[1])) + extra
    dchi = float(np.sum((2. * delta / sig) ** 2))
    return da, ds, dchi, len(fitted)


def model_exact(case, src, run, si):
    """driver: exact (av, sc, chi2) of every model on the planted data (distance-independent mode)"""
    nf = len(case['filters'])
    line = ['fit2', rat(case['av'][0]), rat(case['av'][1]), rat(0.55), str(len(case['tab_w']))]
    for w, c in zip(case['tab_w'], case['tab_chi']):
        line += [rat(w), rat(c)]
    line.append(rats([f.get('req', f['cen']) for f in case['filters']]))
    line.append(str(nf))
    p = run['planted'][si]
    for f, x, e in zip(src['flags'], p['flux'], p['err']):
        line += [str(f), rat(x), rat(e)]
    # a model with zero flux in some band has log flux -inf: the fitter gives it NaN / 1e30, it never competes, and the
    # driver's lg is only defined for positive arguments -> not sent
    live = [i for i in range(len(case['names'])) if all(run['own'][i, j, 0] > 0 for j in range(nf))]
    line.append(str(len(live)))
    for i in live:
        line.append(rats([run['own'][i, j, 0] for j in range(nf)]))
    t = common.driver().ask(' '.join(line))
    n = t.nat()
    out = [(float('nan'), float('nan'), float('inf'))] * len(case['names'])
    for i in live[:n]:
        av = t.rat(); sc = t.rat(); c2 = t.rat(); t.rat(); t.rat(); t.rats()
        out[i] = (float(av), float(sc), float(c2))
    return out


def own_profile(case, src, run, si):
    """harness's own arithmetic, independent of the fitter's answer: chi2 of every model on the planted data.
    distance-dependent: array (n_models, n_grid), optimal clipped A_V at every trial distance;
    distance-independent: array (n_models, 1), two-parameter weighted regression, clamp A_V, rescale"""
    p = run['planted'][si]
    fitted = [j for j, f in enumerate(src['flags']) if f in (1, 4)]
    sig = np.array([src['errs'][j] / LN10 if src['flags'][j] == 1 else src['errs'][j] for j in fitted])
    w = 1. / sig ** 2
    k = run['ks'][fitted]
    y = np.asarray(p['logf'])[fitted]
    lo, hi = case['av']
    nm = len(case['names'])
    with np.errstate(all='ignore'):
        return _own_profile(case, run, fitted, w, k, y, lo, hi, nm)


def _own_profile(case, run, fitted, w, k, y, lo, hi, nm):
    if case['dep']:
        g = grid(case)
        out = np.zeros((nm, len(g)))
        aps = np.array(case['aps'], dtype=float)
        for i in range(nm):
            for di, dd in enumerate(g):
                mf = np.array([np.log10(np.interp(case['theta'][j] * (dd * 1000.), aps, run['own'][i, j, :]) / dd ** 2)
                               for j in fitted])
                r = y - mf
                a = min(max(np.sum(r * k * w) / np.sum(k * k * w), lo), hi)
                out[i, di] = np.sum(w * (r - a * k) ** 2)
        return out
    out = np.zeros((nm, 1))
    q = -2.
    for i in range(nm):
        r = y - np.log10(run['own'][i, fitted, 0])
        m11, m12, m22 = np.sum(k * k * w), np.sum(k * q * w), np.sum(q * q * w)
        c1, c2 = np.sum(r * k * w), np.sum(r * q * w)
        det = m11 * m22 - m12 * m12
        a = (m22 * c1 - m12 * c2) / det
        sc = (m11 * c2 - m12 * c1) / det
        if a < lo or a > hi:
            a = min(max(a, lo), hi)
            sc = np.sum((r - a * k) * q * w) / m22
        out[i, 0] = np.sum(w * (r - a * k - sc * q) ** 2)
    return out


def identifiable(case, src, run, si):
    """True when, by the harness's own arithmetic, the planted (model, A_V0, scale | d0) is the only solution with
    chi2 <= FLOOR: no other model at any scale / trial distance, and (distance-dependent mode) the planted model at
    no other trial distance"""
    prof = own_profile(case, src, run, si)
    m = src['m']
    others = np.delete(prof, m, axis=0)
    # NaN / inf chi2 (a model with zero flux in a fitted band) is not a competitor
    if others.size and not np.all((others > FLOOR) | ~np.isfinite(others)):
        return False
    if case['dep']:
        g = grid(case)
        d0i = min(src['di'], len(g) - 1)
        rest = np.delete(prof[m], d0i)
        if rest.size and not np.all(rest > FLOOR):
            return False
    return True


MIN_BANDS = 3     # fitted bands needed in a stage: with 2 bands (A_V, scale) fit every model exactly, with 1 band
#                   A_V alone fits every trial distance exactly


def check_property(case, runs, use_driver=True):
    """the statement of C08 on every stage of the history (the final one last).
    returns (ok, detail, n_nontrivial of the final stage, n_degenerate, violates, n_nontrivial of earlier stages)"""
    n_early = 0
    n_deg_all = 0
    for k, (sc, run) in enumerate(runs):
        ok, detail, n_ok, n_deg, violates = check_stage(sc, run, use_driver)
        n_deg_all += n_deg
        if not ok:
            if len(runs) == 1:
                stage = ''
            elif k == len(runs) - 1:
                stage = ('final stage (%d filters, the last %d convolved in a second call after a fit + write_parameters): '
                         % (len(sc['filters']), len(sc['filters']) - len(runs[0][0]['filters'])))
            else:
                stage = 'first stage (%d of %d filters): ' % (len(sc['filters']), len(case['filters']))
            return False, stage + detail, n_ok, n_deg_all, violates, n_early
        if k < len(runs) - 1:
            n_early += n_ok
    return True, '', n_ok, n_deg_all, None, n_early


def check_stage(case, run, use_driver=True):
    """the statement of C08 on the real outputs of one fit + write_parameters.
    returns (ok, detail, n_nontrivial, n_degenerate, violates)"""
    names = case['names']
    # convolved file rows labelled m must be m's own convolution (otherwise nothing downstream can recover m)
    bad = ~np.isclose(run['file_flux'], run['own'], rtol=1e-9, atol=0.)
    if np.any(bad):
        i, j, a = [int(x[0]) for x in np.nonzero(bad)]
        return (False, 'convolved/%s.fits: row labelled %s aperture %d holds %r; convolution of that model\'s SED gives %r'
                % (case['filters'][j]['name'], names[i], a, float(run['file_flux'][i, j, a]), float(run['own'][i, j, a])),
                0, 0, True)
    header, blocks = parse_text(run['text'])
    expect_cols = ['fit_id', 'model_name', 'chi2', 'av', 'scale'] + [c.lower() for c in case['cols']] + \
                  (['extra'] if case.get('additional') else [])
    if sorted(header) != sorted(expect_cols) or header[:5] != expect_cols[:5]:
        # the column titles are layout; without them the numbers cannot be attributed, which is not a C08 verdict
        return False, 'write_parameters header %r; expected the titles %r (layout only)' % (header, expect_cols), 0, 0, None
    par_pos = {c: header.index(c) for c in expect_cols[5:]}       # parameter columns are located by their title
    kept = [s for s in case['sources'] if sum(1 for f in s['flags'] if f in (1, 4)) >= case['n_data_min']]
    if [r['source'] for r in run['records']] != [s['name'] for s in kept] or [b[0] for b in blocks] != [s['name'] for s in kept]:
        return (False, 'sources in fit file %r / text %r; expected %r'
                % ([r['source'] for r in run['records']], [b[0] for b in blocks], [s['name'] for s in kept]), 0, 0, True)
    n_ok = 0
    n_deg = 0
    for rec, blk, src in zip(run['records'], blocks, kept):
        si = case['sources'].index(src)
        m = src['m']
        n_fitted = sum(1 for f in src['flags'] if f in (1, 4))
        if case['dep'] and grid_length(case)[1]:
            n_deg += 1            # grid length within rounding of an integer without being one: not judged
            continue
        if n_fitted < MIN_BANDS or not identifiable(case, src, run, si):
            n_deg += 1            # planted (model, A_V0, scale | d0) not the unique solution: outside the quantifier
            continue
        da, ds, dchi, nfit = budgets(case, src, run, si)
        planted_scale = run['planted'][si]['scale']
        # ---- non-degeneracy of the package for these data
        if not case['dep'] and use_driver:
            ex = model_exact(case, src, run, si)
            if not (abs(ex[m][0] - src['av0']) <= 1e-9 * (1 + abs(src['av0'])) * 1e3 and abs(ex[m][1] - planted_scale) <= 1e-6
                    and ex[m][2] <= 1e-9 * nfit):
                return (False, 'Lean model on the planted data of %s returns (av, sc, chi2) = %r for the planted model; planted (%r, %r, 0)'
                        % (src['name'], ex[m], src['av0'], planted_scale), n_ok, n_deg, None)
            others = [ex[i][2] for i in range(len(names)) if i != m]
            degenerate = min(others) <= FLOOR
        else:
            degenerate = False          # decided above by `identifiable`, independently of the fitter's answer
        if degenerate:
            n_deg += 1
            continue
        n_ok += 1
        what = 'source %s planted from model %s at A_V0=%r, %s' % (
            src['name'], names[m], src['av0'], ('d0=10**%r kpc' % planted_scale) if case['dep'] else ('scale s0=%r' % planted_scale))
        # ---- first record of the fit output file
        if rec['name'][0] != names[m]:
            return (False, '%s: fit file ranks %s first (chi2=%r); planted model has chi2=%r'
                    % (what, rec['name'][0], float(rec['chi2'][0]),
                       float(rec['chi2'][rec['name'].index(names[m])]) if names[m] in rec['name'] else None), n_ok, n_deg, True)
        if not (0 <= rec['chi2'][0] <= 1e-6 * nfit + dchi):
            return False, '%s: best chi2 = %r, expected ~0 (budget %.3g)' % (what, float(rec['chi2'][0]), 1e-6 * nfit + dchi), n_ok, n_deg, True
        if not abs(rec['av'][0] - src['av0']) <= 1e-6 + da:
            return False, '%s: fitted A_V = %r (budget %.3g)' % (what, float(rec['av'][0]), 1e-6 + da), n_ok, n_deg, True
        if not abs(rec['sc'][0] - planted_scale) <= 1e-6 + ds:
            return False, '%s: fitted scale = %r (budget %.3g)' % (what, float(rec['sc'][0]), 1e-6 + ds), n_ok, n_deg, True
        # ---- the parameter listing: row 1 is the planted model with its own row of parameters.fits; every further
        # row (selectors other than ('N', 1)) follows the ranking of the fit file and shows that model's own row
        rows = blk[3]
        if blk[1] != nfit or blk[2] != len(rows) or not (1 <= len(rows) <= len(rec['name'])):
            return False, '%s: listing header (n_data, n_fits) = (%r, %r) with %d rows; expected n_data = %d and n_fits = number of rows <= %d' % (
                what, blk[1], blk[2], len(rows), nfit, len(rec['name'])), n_ok, n_deg, True
        for i, row in enumerate(rows):
            if len(row) != len(header):
                return False, '%s: listing row %r has %d columns, header %d (layout only)' % (what, row, len(row), len(header)), n_ok, n_deg, None
            own_row = dict(zip(case['cols'], run['params'][rec['name'][i]]))
            if case.get('additional'):
                own_row['EXTRA'] = extra_value(case, rec['name'][i])
            exp_row = [str(i + 1), rec['name'][i]] + ['%10.3e' % v for v in own_row.values()]
            if row[0] != str(i + 1) or row[1] != rec['name'][i]:
                return (False, '%s: listing row %d is %r; the fit file ranks %s at position %d'
                        % (what, i + 1, row, rec['name'][i], i + 1), n_ok, n_deg, True)
            for c, v in own_row.items():
                try:
                    got = float(row[par_pos[c.lower()]])
                except ValueError:
                    return False, '%s: listing row %r: column %s is not a number (layout only)' % (what, row, c), n_ok, n_deg, None
                if not abs(got - v) <= 5.001e-4 * abs(v):           # '%10.3e' keeps 4 significant digits
                    return (False, '%s: listing row %d %r shows %s = %r; model %s has %s = %r in parameters.fits (own row: %r)'
                            % (what, i + 1, row, c, got, rec['name'][i], c, v, exp_row), n_ok, n_deg, True)
            shown = ((0., 1e-6 * nfit + dchi), (src['av0'], 1e-6 + da), (planted_scale, 1e-6 + ds)) if i == 0 else \
                    ((rec['chi2'][i], 0.), (rec['av'][i], 0.), (rec['sc'][i], 0.))
            for pos, (v, tol) in zip((2, 3, 4), shown):
                try:
                    got = float(row[pos])
                except ValueError:
                    return False, '%s: listing row %r: column %d is not a number (layout only)' % (what, row, pos), n_ok, n_deg, None
                if np.isnan(v) and np.isnan(got):
                    continue
                if not abs(got - v) <= 5.001e-4 + tol + 1e-12 * abs(v):
                    return (False, '%s: listing row %d %r: column %s should be %r to 3 decimals'
                            % (what, i + 1, row, header[pos], float(v)), n_ok, n_deg, True)
    return True, '', n_ok, n_deg, None


def run_case(case):
    d = tempfile.mkdtemp(prefix='c08_')
    key = common.canon_hash(case)
    try:
        try:
            run = run_pipeline(case, d)
        except Exception as e:
            import traceback
            return CaseResult(False, violates=True, key=key,
                              detail='the pipeline raised on an in-domain input: %r\n%s' % (e, traceback.format_exc()[-1500:]))
        ok, detail, n_ok, n_deg, violates, n_early = check_property(case, run)
        if not ok:
            return CaseResult(False, detail=('property fails on the real code: ' if violates else '') + detail,
                              violates=violates, key=key)
        branches = set()
        if n_ok:
            branches.add(case['fmt'])
            branches.add('dist_dependent' if case['dep'] else 'dist_independent')
            if case['fmt'] == 'per_file' and case['table_order'] != list(range(len(case['names']))):
                branches.add('table_permuted')
            branches.add('wav_increasing' if case['wav'][0] < case['wav'][-1] else 'wav_decreasing')
            if len(case['sources']) > 1:
                branches.add('two_sources')
            for s in case['sources']:
                if 1 in s['flags']:
                    branches.add('flag1')
                if 4 in s['flags']:
                    branches.add('flag4')
                if 0 in s['flags']:
                    branches.add('unused_band')
                if s['av0'] == case['av'][0]:
                    branches.add('av0_at_lower_bound')
            kpc_unit = case.get('dunit', 'kpc') == 'kpc'
            branches.add('distance_unit_kpc' if kpc_unit else 'distance_unit_other')
            if case['dep'] and not kpc_unit:
                branches.add('dist_dependent_unit_not_kpc')
            if case.get('wavs'):
                sizes = {len(g) for g in case['wavs']}
                branches.add('own_grids_same_length' if len(sizes) == 1 else 'own_grids_mixed_lengths')
                if any(len(a) == len(b) and a != b for a, b in zip(case['wavs'], case['wavs'][1:])):
                    branches.add('own_grids_same_length')
            final_own = run[-1][1]['own']
            planted_m = {s['m'] for s in case['sources']}
            if any(np.any(final_own[i] == 0.) for i in range(len(case['names'])) if i not in planted_m):
                branches.add('other_model_zero_flux')
                branches.add('other_model_zero_flux_' + ('dep' if case['dep'] else 'indep'))
            for ss in case['sources']:
                if ss['av0'] == case['av'][1]:
                    branches.add('av0_at_upper_bound')
                for fl_, nm_ in ((2, 'lower_limit_band'), (3, 'upper_limit_band'), (9, 'plot_only_band')):
                    if fl_ in ss['flags']:
                        branches.add(nm_)
            branches.add('av_range_from_zero' if case['av'][0] == 0 else 'av_range_negative' if case['av'][0] < 0 else 'av_range_positive_start')
            of, sf = case.get('output_format') or ['N', len(case['names'])], case.get('select_format') or ['N', 1]
            branches.add('output_N_all' if of == ['N', len(case['names'])] else 'output_format_other')
            branches.add('select_N1' if sf == ['N', 1] else 'select_format_other')
            if any(len(b[3]) > 1 for b in parse_text(run[-1][1]['text'])[1]):
                branches.add('listing_several_rows')
            branches.add('package_in_mJy' if (case.get('flux_unit') or 'mJy') == 'mJy' else 'package_in_other_flux_unit')
            if case.get('stale'):
                branches.add('stale_convolved_files_refused_then_overwritten')
            if case.get('additional'):
                branches.add('write_parameters_additional_column')
            if case.get('output_convolved'):
                branches.add('fit_output_convolved')
            if case.get('mono'):
                branches.add('cube_fitted_at_wavelengths_table_permuted')
                if any('req' in f for f in case['filters']):
                    branches.add('wavelength_requested_between_geometric_and_arithmetic_mean')
            if case.get('retable'):
                branches.add('table_reordered_after_convolution')
            if case['dep']:
                branches.add('apertures_tabulated_in_AU' if (case.get('ap_unit') or 'AU') == 'AU' else 'apertures_tabulated_other_unit')
            if len(run) > 1:
                branches.add('staged_convolution')
                table_names = [case['names'][i] for i in case['table_order']]
                if case['fmt'] == 'per_file' and table_names != sorted(table_names):
                    branches.add('staged_table_not_alphabetical')
                if n_early:
                    branches.add('staged_first_stage_checked')
        if n_deg:
            branches.add('degenerate_skipped')
        sample = dict(fmt=case['fmt'], dist_dependent=case['dep'], n_models=len(case['names']), n_wav=len(case['wav']),
                      apertures=case['aps'], n_filters=len(case['filters']), table_order=case['table_order'],
                      planted=[dict(model=case['names'][s['m']], av0=s['av0'], flags=s['flags'], errs=s['errs'])
                               for s in case['sources']],
                      distance_range=[case['drange'], case.get('dunit', 'kpc')],
                      filters_per_convolve_call=([case['n_first'], len(case['filters']) - case['n_first']] if len(run) > 1 else [len(case['filters'])]),
                      first_row=run[-1][1]['text'][4] if len(run[-1][1]['text']) > 4 else None)
        return CaseResult(True, branches=branches, key=key, nontrivial=n_ok > 0, sample=sample)
    finally:
        shutil.rmtree(d, ignore_errors=True)


def search(seed, tier, disagreeing):
    """falsifier: the same end-to-end oracle, without the driver (non-degeneracy from the real ranking)"""
    found = []
    tried = 0
    pool = list(disagreeing)
    for i in range(40 if tier == 'quick' else 300):
        pool.append(gen_case(case_rng(seed, PID + '-search', i), DIRECTED[i] if i < len(DIRECTED) else None))
    for case in pool:
        case = {k: v for k, v in case.items() if k != '_corpus'}
        tried += 1
        d = tempfile.mkdtemp(prefix='c08s_')
        try:
            try:
                run = run_pipeline(case, d)
            except Exception as e:
                found.append((case, 'the pipeline raised on an in-domain input: %r' % (e,)))
                continue
            ok, detail, _, _, violates, _ = check_property(case, run, use_driver=False)
            if not ok and violates:
                found.append((case, 'property fails on the real code: ' + detail))
        finally:
            shutil.rmtree(d, ignore_errors=True)
        if len(found) >= 3:
            break
    return found, tried


def shrink(case):
    """fewer sources while the case still fails"""
    def fails(c):
        try:
            return not run_case(c).ok
        except Exception:
            return True
    cur = dict(case)
    while len(cur['sources']) > 1:
        for keep in (cur['sources'][:1], cur['sources'][1:]):
            c = dict(cur); c['sources'] = keep
            if fails(c):
                cur = c
                break
        else:
            break
    return cur
