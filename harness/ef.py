"""Helpers shared by the ranking / selection / partition checks (C04, C05, C18).

* extended-float tokens of the line protocol (`nan`, `inf`, `-inf`, exact rational)
* FitInfo <-> "rows" (the structure of arrays the Lean model `FitRows` has), both directions
* NaN-aware comparison of rows
"""
import math

import numpy as np

from .common import rat, Fraction
from . import packages as pk

INF = float('inf')
NAN = float('nan')

ALPHABET = [1.0, 2.0, 3.5, INF, NAN]       # ties arise from repeated letters


def ef_tok(x):
    x = float(x)
    if math.isnan(x):
        return 'nan'
    if x == INF:
        return 'inf'
    if x == -INF:
        return '-inf'
    return rat(x)


def ef_val(tok):
    if tok == 'nan':
        return NAN
    if tok == 'inf':
        return INF
    if tok == '-inf':
        return -INF
    return float(Fraction(tok))


def js(x):
    """JSON-safe number (inf / nan as strings)"""
    x = float(x)
    if math.isnan(x):
        return 'nan'
    if math.isinf(x):
        return 'inf' if x > 0 else '-inf'
    return x


def unjs(x):
    if isinstance(x, str):
        return ef_val(x)
    return float(x)


def sort_key(x):
    """numpy's sort order on doubles: -inf < finite < +inf < nan"""
    x = float(x)
    return (1, 0.) if math.isnan(x) else (0, x)


def is_ranked(v):
    return all(sort_key(a) <= sort_key(b) for a, b in zip(v, v[1:]))


def same(a, b):
    """equality of two doubles with nan == nan"""
    a = float(a)
    b = float(b)
    return (math.isnan(a) and math.isnan(b)) or a == b


# ----------------------------------------------------------------------------- rows

def payload(n, with_fluxes=True, nflux=2, ids=None):
    """identifiable per-model payloads: av = 10+i, sc = 20+i/4, name = m<i>, fluxes = [i, i+1/2, ...]"""
    return dict(av=[10. + i for i in range(n)], sc=[20. + i / 4. for i in range(n)],
                name=['m%d' % i for i in range(n)],
                model_id=list(ids) if ids is not None else list(range(n)),
                fluxes=[[float(i) + j / 2. for j in range(nflux)] for i in range(n)] if with_fluxes else None)


def build_info(chi2, pay, flags=(1, 1, 1), source_name='src', meta=None):
    """FitInfo carrying `chi2` and the payload arrays, unsorted, model_id as given"""
    info = pk.make_fitinfo(pay['name'], chi2, av=pay['av'], sc=pay['sc'], flags=flags,
                           source_name=source_name, model_fluxes=pay['fluxes'], sort=False, meta=meta)
    if len(pay['name']) == 0:
        info.model_name = np.array([], dtype='U4')
        if pay['fluxes'] is not None:
            info.model_fluxes = np.zeros((0, 2))
    info.model_id = np.array(pay['model_id'], dtype=int)
    return info


def rows_of_info(info):
    a = pk.fit_arrays(info)
    return dict(chi2=[float(c) for c in a['chi2']], av=[float(c) for c in a['av']], sc=[float(c) for c in a['sc']],
                name=list(a['name']), model_id=list(a['model_id']),
                fluxes=None if a['model_fluxes'] is None else [[float(f) for f in row] for row in a['model_fluxes']])


def rows_line(chi2, pay):
    """the `<rows>` argument of the driver ops `sortrows` / `keep`"""
    from .common import rats
    out = [str(len(chi2))] + [ef_tok(c) for c in chi2]
    out.append(rats(pay['av']))
    out.append(rats(pay['sc']))
    out += [str(len(pay['name']))] + list(pay['name'])
    out += [str(len(pay['model_id']))] + [str(int(i)) for i in pay['model_id']]
    if pay['fluxes'] is None:
        out.append('0')
    else:
        out += ['1', str(len(pay['fluxes']))] + [rats(r) for r in pay['fluxes']]
    return ' '.join(out)


def parse_rows(t):
    n = t.nat()
    chi2 = [ef_val(t.tok()) for _ in range(n)]
    av = [float(x) for x in t.rats()]
    sc = [float(x) for x in t.rats()]
    n = t.nat()
    name = [t.tok() for _ in range(n)]
    mid = t.nats()
    hf = t.nat()
    fl = None
    if hf:
        k = t.nat()
        fl = [[float(x) for x in t.rats()] for _ in range(k)]
    return dict(chi2=chi2, av=av, sc=sc, name=name, model_id=mid, fluxes=fl)


def row_tuples(rows):
    n = len(rows['chi2'])
    out = []
    for i in range(n):
        out.append((rows['model_id'][i], rows['name'][i], rows['av'][i], rows['sc'][i],
                    None if rows['fluxes'] is None else tuple(rows['fluxes'][i])))
    return out


def lengths(rows):
    ls = [len(rows[k]) for k in ('chi2', 'av', 'sc', 'name', 'model_id')]
    if rows['fluxes'] is not None:
        ls.append(len(rows['fluxes']))
    return ls


def canon_ties(rows):
    """rows as (chi2, payload) tuples with the rows inside each run of equal chi2 ordered by payload"""
    n = len(rows['chi2'])
    tup = row_tuples(rows)
    out = []
    i = 0
    while i < n:
        j = i
        while j + 1 < n and same(rows['chi2'][j + 1], rows['chi2'][i]):
            j += 1
        out += [(js(rows['chi2'][i]), t) for t in sorted(tup[i:j + 1])]
        i = j + 1
    return out


def rows_equal(a, b):
    """exact equality of two row sets (nan == nan)"""
    if lengths(a) != lengths(b):
        return False
    if (a['fluxes'] is None) != (b['fluxes'] is None):
        return False
    if not all(same(x, y) for x, y in zip(a['chi2'], b['chi2'])):
        return False
    return row_tuples(a) == row_tuples(b)
