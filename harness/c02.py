"""C02 — distance-dependent fits pick the grid optimum of correctly scaled model fluxes.

Real side: Fitter(...).fit(source) on an aperture-dependent package, in both package formats
(version 1: convolved/*.fits with aperture tables; version 2: flux.fits cube fitted at tabulated
wavelengths); observables FitInfo.av / .sc / .chi2 per model name.
Model side: driver op `fit3` = distancesKpc ∘ modelLogFluxes (fluxAt = interpClamp × d⁻²) ∘ mkPts ∘ fit3
in exact rationals, on the very arrays the harness wrote into the package.
"""
import math
import shutil
import tempfile

import numpy as np

from . import common
from .common import CaseResult, rat, rats, case_rng, nice
from . import packages as pk

from astropy import units as u   # noqa: E402

PID = 'C02'
# second correspondence stage: the cube / distance-dependent end-to-end pipeline model (Model/Pipeline3.lean,
# Properties/E2E3.lean) against cube write/read -> convolve or nearest slice -> Fitter/fit() -> write_parameters
EXTRA_HARNESS = ['harness.e2e3']
RULE = ('cases = (aperture-dependent package in format 1 or 2 with 2..8 apertures, extinction law, aperture radii, '
        'distance range, log-distance step, A_V range, 4 sources over all flags) drawn from the quantifier of C02; a '
        'case is non-trivial when the grid has >= 2 trial distances or some theta*d lies beyond the largest aperture; '
        'distinct = distinct canonical hash of the generated inputs')
REQUIRED_BRANCHES = ['more_than_4096_models', 'single_on_first_knot', 'single_on_inner_knot', 'single_on_last_knot', 'rebuilt_in_place', 'rebuilt_same_format', 'rebuilt_other_format', 'flux_other_unit', 'named_in_cube', 'ap_table_other_unit', 'ext_other_unit', 'theta_other_unit', 'same_theta_diff_tables',
                     'pred_fluxes', 'chi2_big_compared', 'range_other_unit', 'exact_multiple', 'format1', 'format2', 'dmin_eq_dmax', 'multi_distance', 'beyond_largest', 'inside_table',
                     'flux_monotone', 'flux_arbitrary', 'clamp_low', 'clamp_high', 'interior', 'lo_eq_hi',
                     'best_first', 'best_last', 'best_inner', 'limit_violated', 'limit_ok', 'flag4', 'flag0or9',
                     'theta_dmin_on_knot', 'theta_dmin_on_knot_strict', 'sc_at_dmin_exact', 'sc_at_dmax_exact']
ASSUMPTIONS = ['IEEE rounding is not modelled: av / chi2 are compared with a 1e-9 x (condition scale) budget, sc with 1e-9',
               'the code takes log10 of 10**grid; the difference from the exact grid value is part of the sc budget',
               'decisions closer than 1e-7 to their threshold (ceil of the grid length, argmin gap between the two best '
               'distances, A_V clamp, limit side) are counted as margin_relaxed and not compared',
               'theta*dmin on the smallest aperture: the first trial distance is dmin itself, so a result is required whenever '
               'the float product arcsec x pc is not below the table; only a decimal equality whose float product rounds below '
               'the table is a margin case; at the two ends of the grid the reported scale must be np.log10(dmin) / '
               'np.log10(dmax) exactly',
               'tables are increasing in aperture; theta*dmin is never below the smallest aperture (the quantifier)']
N = {'quick': 120, 'thorough': 5000}
FLAGS = [0, 1, 2, 3, 4, 9]
MARGIN = 1e-7


# ----------------------------------------------------------------------------- generation

def np_interp_row(aps, row, x):
    x = min(x, aps[-1])
    return float(np.interp(x, aps, row))


KNOT = ('knot_first', 'knot_inner', 'knot_last')     # single distance with theta*d exactly on a tabulated aperture
SINGLE = ('single',) + KNOT


def exact_product(theta, dkpc):
    """theta * (d_kpc * 1000.) evaluated in floats is the exact product"""
    F = common.Fraction
    dpc = dkpc * 1000.
    return F(dpc) == F(dkpc) * 1000 and F(theta * dpc) == F(theta) * F(dpc)


def dec(x):
    """the decimal number a float was written as (shortest repr), as an exact rational"""
    return common.Fraction(repr(float(x)))


def lower_bound(case):
    """the quantifier's 'theta*dmin not below the smallest aperture', evaluated exactly:
    in_quant   - it holds (with equality or above) in exact rational arithmetic on the floats given, or on the decimal
                 numbers they were written as (2 arcsec x 0.7 kpc = 1400 AU);
    near       - some band is within MARGIN of equality;
    accept_ref - the radius at the first trial distance, evaluated in float64 the way the property states it
                 (AU = arcsec x pc; the first trial distance IS dmin), is not below the table either - then the
                 tabulated value is due and an exception is a failure; only an exact (decimal) equality whose float
                 product rounds below the table stays a margin case;
    knots      - per band the first knot to send to the exact model: when the float knot exceeds the exact product by
                 less than 1e-12 relative (decimal equality, binary sub-ulp difference) the exact product itself"""
    F = common.Fraction
    dmin = case['dmin']
    dpc = float((dmin * u.kpc).to(u.pc).value)
    in_quant, near, accept, knots = True, False, True, []
    for t, a in zip(case['thetas'], case['aps']):
        r = F(t) * F(dmin) * 1000
        e = r - F(a[0])
        dm = dec(t) * dec(dmin) * 1000 - dec(a[0])
        in_quant = in_quant and (e >= 0 or dm >= 0)
        near = near or abs(e) <= F(MARGIN) * F(a[0])
        accept = accept and t * dpc >= a[0]
        knots.append(r if (e < 0 and -e <= F(a[0]) / 10 ** 12) else a[0])
    return dict(in_quant=in_quant, near=near, accept_ref=accept, knots=knots)


def gen_case(rng, directed=None):
    fmt = rng.choice([1, 2])
    rkind = rng.choice(['inside', 'beyond', 'beyond', 'mixed', 'single'])
    akind = rng.choice(['interior', 'clamp_low', 'clamp_high', 'lo_eq_hi', 'wide', 'wide'])
    if directed:
        fmt, rkind, akind = directed[:3]
    elif rng.random() < 0.06:
        rkind = rng.choice(KNOT)
    elif rng.random() < 0.06:
        rkind = 'on_knot'
    nb = 1 if rng.random() < 0.08 else rng.randint(2, 5)
    nm = rng.randint(1, 6)
    big = bool(directed and len(directed) > 4 and directed[4].get('big'))
    if big:
        # more models than any internal block size (4096), not a multiple of it; few bands / apertures / distances
        nb, nm, nap = 2, rng.randint(4, 6), 2
        n_total = rng.randint(4100, 5000)
    nap = rng.randint(2, 8)
    if rkind in KNOT:
        nap = max(nap, 3)
    wavs = set()
    while len(wavs) < nb:
        wavs.add(nice(rng, 0.3, 100., 3))
    wavs = list(wavs)
    rng.shuffle(wavs)
    # extinction table covering V and (mostly) the filters
    nt = rng.randint(2, 10)
    lo_w = nice(rng, 0.05, 0.3, 2)
    hi_w = nice(rng, 100., 300., 2) if rng.random() < 0.8 else nice(rng, 2., 30., 2)
    tw = sorted({lo_w, hi_w} | {nice(rng, lo_w, hi_w, 3) for _ in range(nt)})
    chi = [nice(rng, 1., 1e4, 3) for _ in tw]
    # distance range and step
    step = rng.choice([0.005, 0.01, 0.02, 0.025, 0.05, 0.1, 0.2, 0.5, nice(rng, 0.005, 0.5, 2)])
    dmin = nice(rng, 0.05, 20., 3)
    if rkind == 'on_knot':
        # decimal numbers; knot_margin: the float product theta*(dmin*1000) rounds below the decimal product
        knot_margin = (directed[4].get('knot_accept') is False) if directed and len(directed) > 4 else rng.random() < 0.1
        dmin = nice(rng, 0.05, 20., rng.choice([1, 2, 2, 3]))
    if rkind in KNOT:
        dmin = rng.choice([0.03125, 0.0625, 0.125, 0.25, 0.5, 0.75, 1., 1.5, 2., 4., 5., 8., 10.])   # exact in binary
    if rkind in SINGLE:
        dmax = dmin
    else:
        max_pts = rng.choice([3, 10, 30, 80])
        span = min(rng.uniform(0.02, 1.5), step * max_pts)
        dmax = float('%.4g' % (dmin * 10 ** span))
        if dmax <= dmin:
            dmax = dmin * 2
    if big and rkind not in SINGLE:
        step = 0.5
        dmax = float('%.4g' % (dmin * 10 ** rng.uniform(0.3, 0.45)))
    # log-width an exact multiple of the step (e.g. 1..10 kpc with step 0.25): the ceil() in the grid length is
    # then taken at an exact integer, in the code's float arithmetic too
    exact = (bool(directed) and len(directed) > 3 and directed[3] == 'exact') or (not directed and rng.random() < 0.06)
    if exact and rkind not in SINGLE:
        step = rng.choice([0.25, 0.5, 0.125, 0.0625])
        dmin = rng.choice([1., 10., 0.1])
        dmax = dmin * rng.choice([10., 100.])
    # the range may be given in any length unit; the model works with the kpc floats the code derives from it
    dunit = 'kpc' if (exact or rkind in KNOT or rkind == 'on_knot' or rng.random() < 0.5) else rng.choice(['pc', 'Mpc', 'cm', 'lyr', 'm'])
    if dunit != 'kpc':
        from astropy import units as _u
        fac = (1. * _u.kpc).to(_u.Unit(dunit)).value
        du = [float('%.4g' % (dmin * fac)), float('%.4g' % (dmax * fac))]
        if rkind in SINGLE:
            du[1] = du[0]
        dmin, dmax = pk.to_kpc(du, dunit)
        if dmax < dmin or (rkind not in SINGLE and dmax == dmin):
            dunit, du = 'kpc', None
    if dunit == 'kpc':
        du = [dmin, dmax]
    thetas = [nice(rng, 0.5, 30., 2) for _ in range(nb)]
    opts = directed[4] if directed and len(directed) > 4 else {}
    if rkind in KNOT:
        # few-digit numbers, so that theta * (d * 1000) is exact in floats as well: the radius IS the knot
        thetas = []
        while len(thetas) < nb:
            t = rng.choice([0.5, 1., 1.5, 2., 2.5, 3., 4., 5., 8., 10., 20.])
            assert exact_product(t, dmin)
            thetas.append(t)
    if rkind == 'on_knot':
        # theta x dmin x 1000 evaluated in floats is the decimal product: the smallest aperture IS theta*dmin
        for j in range(nb):
            for _ in range(3000):
                prod = dec(thetas[j]) * dec(dmin) * 1000
                if not knot_margin and prod == common.Fraction(thetas[j] * (dmin * 1000.)):
                    break
                if knot_margin and float(prod) == prod and thetas[j] * (dmin * 1000.) < float(prod):
                    break
                thetas[j] = nice(rng, 0.5, 30., rng.choice([2, 3]))
                if knot_margin and j == 0 and rng.random() < 0.2:
                    dmin = nice(rng, 0.05, 20., rng.choice([2, 3]))
            else:
                thetas[j] = 2.
        if knot_margin:
            dmax = float('%.4g' % (dmin * rng.uniform(1.3, 4.)))
            du = [dmin, dmax]
    if opts.get('same_theta') or (not directed and rng.random() < 0.15):
        thetas = [thetas[0]] * nb        # one angular aperture for all bands (tables may still differ)
    # the aperture radii may be given in any angle unit; the model works with the arcsec floats the code derives
    theta_unit = opts.get('theta_unit') or ('arcsec' if (directed or rkind in KNOT or rkind == 'on_knot' or rng.random() < 0.6) else rng.choice(['arcmin', 'deg', 'rad']))
    thetas_given = list(thetas)
    if theta_unit != 'arcsec':
        thetas_given = [float('%.3g' % v) for v in (np.array(thetas) * u.arcsec).to(u.Unit(theta_unit)).value]
        thetas = [float(v) for v in (np.array(thetas_given) * u.Unit(theta_unit)).to(u.arcsec).value]
    # version 2: some bands may be named filters with their own convolved/<name>.fits (and aperture table)
    named = [False] * nb
    if fmt == 2 and rkind != 'on_knot' and rkind not in KNOT and (opts.get('named') or (not directed and rng.random() < 0.4)):
        named = [rng.random() < 0.6 for _ in range(nb)]
        if not any(named):
            named[rng.randrange(nb)] = True
    ap_unit = opts.get('ap_unit') or ('au' if (directed or rkind == 'on_knot' or rkind in KNOT or rng.random() < 0.6) else rng.choice(['pc', 'cm']))
    ext_unit = opts.get('ext_unit') or ('micron' if (directed or rng.random() < 0.6) else rng.choice(['nm', 'Angstrom', 'cm']))
    # aperture tables: smallest aperture <= theta*dmin (in AU); largest relative to theta*dmax
    def table(theta_lo, theta_hi):
        if rkind in KNOT:
            r = theta_lo * (dmin * 1000.)
            k = {'knot_first': 0, 'knot_last': nap - 1}.get(rkind, rng.randint(1, nap - 2))
            ratio = rng.uniform(1.5, 3.)
            kn = [r if i == k else float('%.5g' % (r * ratio ** (i - k))) for i in range(nap)]
            assert all(kn[i] < kn[i + 1] for i in range(nap - 1))
            return kn
        rmin = theta_lo * dmin * 1000.
        rmax = theta_hi * dmax * 1000.
        if rkind == 'on_knot':
            a0 = float(dec(theta_lo) * dec(dmin) * 1000)
        else:
            a0 = float('%.3g' % (rmin * rng.uniform(0.2, 0.95)))
            if not a0 * (1 + 1e-6) < rmin:
                a0 = rmin * 0.5
        if rkind == 'inside':
            top = rmax * rng.uniform(1.1, 3.)
        elif rkind in ('beyond', 'on_knot'):
            top = max(a0 * 1.5, rmin + (rmax - rmin) * rng.uniform(0.2, 0.8)) if dmax > dmin else a0 * rng.uniform(1.5, 4)
        elif rkind == 'single':
            top = rmin * rng.choice([rng.uniform(0.96, 0.999), rng.uniform(1.5, 4.)])
            top = max(top, a0 * 1.3)
        else:
            top = rmax * rng.uniform(0.5, 2.)
        top = max(top, a0 * 1.2)
        aps = [a0]
        for i in range(1, nap):
            aps.append(float('%.5g' % (a0 * (top / a0) ** (i / (nap - 1.)))))
        for i in range(1, nap):
            if aps[i] <= aps[i - 1]:
                aps[i] = aps[i - 1] * 1.01
        return aps
    if fmt == 2:
        shared = table(min(thetas), max(thetas))
        if rkind == 'on_knot' or rkind in KNOT:
            thetas = [thetas[0]] * nb       # every band sits on the knot
            thetas_given = [thetas_given[0]] * nb
            shared = table(thetas[0], thetas[0])
        aps = [table(thetas[j], thetas[j]) if named[j] else shared for j in range(nb)]
    else:
        aps = [table(t, t) for t in thetas]
    if ap_unit != 'au':
        # the tables are stored in `ap_unit`; the model gets the AU floats of the stored numbers
        stored, back = [], {}
        for a in aps:
            key = id(a)
            if key not in back:
                st = [float(v) for v in (np.array(a) * u.au).to(u.Unit(ap_unit)).value]
                back[key] = (st, [float(v) for v in (np.array(st) * u.Unit(ap_unit)).to(u.au).value])
            stored.append(back[key][0])
        aps = [back[id(a)][1] for a in aps]
    else:
        stored = None
    mono = rng.random() < 0.5
    flux = []      # [band][model][aperture]
    for j in range(nb):
        rows = []
        for i in range(nm):
            row = [nice(rng, 1e-2, 1e3, 4) for _ in range(nap)]
            rows.append(sorted(row) if mono else row)
        flux.append(rows)
    # the package may store its fluxes in another unit than mJy: `flux_stored` is what is written, `flux` are the mJy
    # floats the code derives from it (the model's input)
    flux_unit = opts.get('flux_unit') or ('mJy' if (directed or rng.random() < 0.65) else rng.choice(['Jy', 'Jy', 'uJy']))
    flux_stored = None
    if flux_unit != 'mJy':
        fac = (1. * u.mJy).to(u.Unit(flux_unit)).value
        flux_stored = [[[float('%.4g' % (v * fac)) for v in row] for row in rows] for rows in flux]
        flux = [[[float(x) for x in (np.array(row) * u.Unit(flux_unit)).to(u.mJy).value] for row in rows]
                for rows in flux_stored]
    # A_V range
    ks = [-0.4 * float(np.interp(w, tw, chi, left=0., right=0.)) / float(np.interp(0.55, tw, chi)) for w in wavs]
    a_true = round(rng.uniform(0., 6.) / max(1., max(abs(k) for k in ks)), 3)
    if akind in ('interior', 'wide'):
        av = [round(a_true - rng.uniform(20, 60), 1), round(a_true + rng.uniform(20, 60), 1)]
    elif akind == 'clamp_low':
        lo = round(a_true + rng.uniform(15, 40), 1)
        av = [lo, round(lo + rng.uniform(0, 10), 1)]
    elif akind == 'clamp_high':
        hi = round(a_true - rng.uniform(15, 40), 1)
        av = [round(hi - rng.uniform(0, 10), 1), hi]
    else:
        v = round(rng.uniform(0, 10), 1)
        av = [v, v]
    sources = []
    for si in range(1 if big else 4):
        flags = [rng.choice(FLAGS) for _ in range(nb)]
        good = [j for j in range(nb) if ks[j] != 0.]
        if not good:
            # outside the quantifier (no band with non-zero extinction coefficient): extend the law
            return gen_case(rng, directed)
        rng.shuffle(good)
        for j0 in good[:1 if rng.random() < 0.08 else 2]:
            if flags[j0] not in (1, 4):
                flags[j0] = rng.choice([1, 1, 4])
        m = rng.randrange(nm)
        d = dmin * (dmax / dmin) ** rng.random()
        fl, er = [], []
        for j in range(nb):
            base = np_interp_row(aps[j], flux[j][m], thetas[j] * d * 1000.) / d ** 2
            base *= 10 ** (a_true * ks[j]) * 10 ** rng.uniform(-0.2, 0.2)
            f = float('%.4g' % max(base, 1e-300))
            if flags[j] == 4:
                fl.append(float('%.4f' % math.log10(f)))
                er.append(nice(rng, 1e-3, 0.3, 2))
            elif flags[j] in (2, 3):
                fl.append(f)
                er.append(rng.choice([0., 0.5, 0.9, 0.99, 1., round(rng.random(), 2)]))
            else:
                fl.append(f)
                er.append(float('%.3g' % (f * nice(rng, 1e-3, 0.5, 2))))
        sources.append(dict(flags=flags, flux=fl, err=er))
    return dict(fmt=fmt, rkind=rkind, akind=akind, wavs=wavs, tab_w=tw, tab_chi=chi, thetas=thetas, aps=aps,
                flux=flux, mono=mono, dmin=dmin, dmax=dmax, dunit=dunit, drange_in_unit=du, step=step, av=av,
                sources=sources, thetas_given=thetas_given, theta_unit=theta_unit, named=named, ap_unit=ap_unit,
                aps_stored=stored, ext_unit=ext_unit, flux_unit=flux_unit, flux_stored=flux_stored,
                # a share of cases first builds and fits a DIFFERENT package in the same directory (a package regenerated
                # in place within one process): anything remembered across packages by path would show
                n_total=(n_total if big else None),
                av_after=bool(opts.get('av_after') or (not directed and rng.random() < 0.25)),
                rebuild=(opts.get('rebuild') or (None if directed else rng.choice([None, None, None, 'same', 'other']))))


DIRECTED = [(1, 'inside', 'interior'), (2, 'beyond', 'clamp_low'), (1, 'beyond', 'clamp_high'), (2, 'single', 'lo_eq_hi'),
            (1, 'single', 'wide'), (2, 'inside', 'wide'), (1, 'on_knot', 'wide'), (2, 'on_knot', 'interior'),
            (1, 'mixed', 'interior'), (2, 'mixed', 'clamp_low'), (1, 'inside', 'wide', 'exact'),
            (2, 'beyond', 'interior', 'exact'),
            (2, 'beyond', 'wide', None, dict(named=True)), (2, 'mixed', 'interior', None, dict(named=True, same_theta=True)),
            (1, 'beyond', 'wide', None, dict(same_theta=True)), (1, 'beyond', 'interior', None, dict(same_theta=True)),
            (1, 'inside', 'wide', None, dict(ap_unit='pc')), (2, 'beyond', 'wide', None, dict(ap_unit='cm')),
            (1, 'mixed', 'wide', None, dict(ext_unit='nm')), (2, 'inside', 'interior', None, dict(ext_unit='Angstrom')),
            (1, 'inside', 'wide', None, dict(ext_unit='cm')),
            (1, 'beyond', 'wide', None, dict(flux_unit='Jy')), (2, 'inside', 'interior', None, dict(flux_unit='Jy')),
            (2, 'beyond', 'wide', None, dict(flux_unit='Jy', named=True)), (1, 'mixed', 'interior', None, dict(flux_unit='uJy')),
            (1, 'on_knot', 'wide', None, dict(knot_accept=True)), (2, 'on_knot', 'interior', None, dict(knot_accept=True)),
            (1, 'on_knot', 'interior', None, dict(knot_accept=True)), (2, 'on_knot', 'wide', None, dict(knot_accept=True)),
            (1, 'on_knot', 'wide', None, dict(knot_accept=True)), (2, 'on_knot', 'wide', None, dict(knot_accept=True)),
            (1, 'on_knot', 'interior', None, dict(knot_accept=True)), (1, 'on_knot', 'wide', None, dict(knot_accept=True)),
            (1, 'on_knot', 'wide', None, dict(knot_accept=False)), (2, 'on_knot', 'wide', None, dict(knot_accept=False)),
            (1, 'knot_first', 'wide'), (2, 'knot_first', 'interior'), (1, 'knot_first', 'interior'), (2, 'knot_first', 'wide'),
            (1, 'knot_inner', 'wide'), (2, 'knot_inner', 'interior'), (1, 'knot_last', 'wide'), (2, 'knot_last', 'interior'),
            (1, 'inside', 'wide', None, dict(big=True)),
            (1, 'inside', 'clamp_low', None, dict(av_after=True)), (2, 'beyond', 'clamp_high', None, dict(av_after=True)),
            (1, 'mixed', 'lo_eq_hi', None, dict(av_after=True)),
            (1, 'inside', 'wide', None, dict(rebuild='same')), (2, 'beyond', 'interior', None, dict(rebuild='same')),
            (1, 'beyond', 'wide', None, dict(rebuild='other')), (2, 'inside', 'wide', None, dict(rebuild='other')),
            (2, 'mixed', 'interior', None, dict(rebuild='same', named=True)),
            (1, 'beyond', 'wide', None, dict(theta_unit='arcmin')), (2, 'inside', 'wide', None, dict(theta_unit='deg'))]


def gen_cases(seed, tier):
    for i in range(N[tier]):
        rng = case_rng(seed, PID, i)
        yield gen_case(rng, DIRECTED[i] if i < len(DIRECTED) else None)


# ----------------------------------------------------------------------------- execution

def names_of(case):
    return ['m%03d' % i for i in range(case.get('n_total') or len(case['flux'][0]))]


def full_rows(case, j, key='flux'):
    """the rows of band j for every model of the package: the distinct rows, repeated cyclically under distinct
    names when the package is larger than the set of distinct rows (the exact model is asked for the distinct rows only)"""
    rows = case[key][j]
    n = case.get('n_total') or len(rows)
    return [rows[i % len(rows)] for i in range(n)]


def ext_numbers(case):
    """the extinction table, 0.55 micron and the filter wavelengths as numbers in the law's wavelength unit
    (what Extinction.get_av interpolates in)"""
    unit = u.Unit(case.get('ext_unit', 'micron'))
    conv = lambda xs: [float(v) for v in (np.array(xs, dtype=float) * u.micron).to(unit).value]   # noqa: E731
    return unit, conv(case['tab_w']), conv([0.55])[0], conv(case['wavs'])


def write_convolved(case, d, fn, j, names):
    """convolved/<fn>.fits for band j, aperture table in the case's unit"""
    import os
    from sedfitter.convolved_fluxes import ConvolvedFluxes
    nm = len(names)
    funit = u.Unit(case.get('flux_unit', 'mJy'))
    fl = full_rows(case, j, 'flux' if case.get('flux_stored') is None else 'flux_stored')
    if case.get('ap_unit', 'au') == 'au':
        pk.write_convolved(d, fn, case['wavs'][j], names, fl, [[0.] * len(case['aps'][j])] * nm,
                           apertures_au=case['aps'][j], unit=funit)
        return
    os.makedirs(os.path.join(d, 'convolved'), exist_ok=True)
    c = ConvolvedFluxes()
    c.model_names = np.array(names)
    c.apertures = np.array(case['aps_stored'][j], dtype=float) * u.Unit(case['ap_unit'])
    c.central_wavelength = case['wavs'][j] * u.micron
    c.flux = np.array(fl, dtype=float).reshape(nm, -1) * funit
    c.error = np.zeros((nm, len(case['aps'][j]))) * funit
    c.write(os.path.join(d, 'convolved', fn + '.fits'), overwrite=True)


def make_fitter(case, d, fnames, ext, remove_resolved=False):
    from sedfitter.fit import Fitter
    apertures = np.array(case.get('thetas_given', case['thetas']), dtype=float) * u.Unit(case.get('theta_unit', 'arcsec'))
    drange = np.array(case.get('drange_in_unit') or (case['dmin'], case['dmax']), dtype=float) * u.Unit(case.get('dunit', 'kpc'))
    av = tuple(case['av'])
    # (the A_V range is NOT re-assigned on a live Fitter: the class documentation says that the fit parameters cannot
    # be changed once the object is initialised, so a change that stops honouring a later assignment breaks nothing
    # the property states; the seeded change C02_n is classified outside the quantifier)
    with common.quiet():
        f = Fitter(fnames, apertures, d, extinction_law=ext, av_range=av, distance_range=drange,
                   use_memmap=False, remove_resolved=remove_resolved)
    return f


def build(case, d):
    names = names_of(case)
    nm = len(names)
    nb = len(case['wavs'])
    eunit, etab, _, _ = ext_numbers(case)
    ext = pk.make_extinction(etab, case['tab_chi'], wav_unit=eunit)
    named = case.get('named') or [False] * nb
    if case['fmt'] == 1:
        pk.write_conf(d, True, logd_step=case['step'])
        fnames = []
        for j, w in enumerate(case['wavs']):
            fn = 'F%d' % j
            fnames.append(fn)
            write_convolved(case, d, fn, j, names)
    else:
        # cube [model][aperture][wavelength]; one extra tabulated wavelength that is not fitted
        wav = list(case['wavs']) + [max(case['wavs']) * 3.]
        nap = len(case['aps'][0])
        shared = [j for j in range(nb) if not named[j]]
        j0 = shared[0] if shared else 0
        nap = len(case['aps'][j0])
        val = np.ones((nm, nap, len(wav)))
        funit = u.Unit(case.get('flux_unit', 'mJy'))
        for j in shared:
            val[:, :, j] = np.array(full_rows(case, j, 'flux' if case.get('flux_stored') is None else 'flux_stored'), dtype=float)
        if case.get('ap_unit', 'au') == 'au':
            pk.write_cube_package(d, names, wav, val, np.zeros_like(val), apertures_au=case['aps'][j0],
                                  aperture_dependent=True, logd_step=case['step'], unit=funit)
        else:
            pk.write_conf(d, True, logd_step=case['step'], version=2)
            cube = pk.make_cube(names, wav, val, np.zeros_like(val), case['aps'][j0], unit=funit)
            cube.apertures = np.array(case['aps_stored'][j0], dtype=float) * u.Unit(case['ap_unit'])
            import os
            cube.write(os.path.join(d, 'flux.fits'), overwrite=True)
            pk.write_parameters(d, list(names), {'PAR1': [float(i) for i in range(nm)]})
        fnames = []
        for j, w in enumerate(case['wavs']):
            if named[j]:
                # a named filter in a cube package: its own convolved/<name>.fits and aperture table
                write_convolved(case, d, 'F%d' % j, j, names)
                fnames.append('F%d' % j)
            else:
                fnames.append(w * u.micron)
    return fnames, ext, names


def model_side(case):
    _, etab, ev, ewavs = ext_numbers(case)
    lb = lower_bound(case)
    line = ['fit3', rat(case['av'][0]), rat(case['av'][1]), rat(ev), str(len(etab))]
    for w, c in zip(etab, case['tab_chi']):
        line += [rat(w), rat(c)]
    line.append(rats(ewavs))
    line.append(rats(case['thetas']))
    line.append(str(len(case['wavs'])))
    for j in range(len(case['wavs'])):
        line.append(rats([lb['knots'][j]] + list(case['aps'][j][1:])))
        line.append(str(len(case['flux'][j])))
        for row in case['flux'][j]:
            line.append(rats(row))
    line += [rat(case['dmin']), rat(case['dmax']), rat(case['step'])]
    line.append(str(len(case['sources'])))
    for src in case['sources']:
        line.append(str(len(src['flags'])))
        for f, x, e in zip(src['flags'], src['flux'], src['err']):
            line += [str(f), rat(x), rat(e)]
    t = common.driver().ask(' '.join(line))
    tag = t.tok()
    if tag == 'E':
        return dict(error=t.tok())
    nd = t.nat(); ceil_m = float(t.rat()); below_m = float(t.rat())
    logd = [float(x) for x in t.rats()]
    ns = t.nat()
    srcs = []
    for _ in range(ns):
        nm = t.nat()
        rows = []
        for _ in range(nm):
            rows.append(dict(av=t.rat(), sc=t.rat(), chi2=t.rat(), bi=t.nat(), gap=float(t.rat()),
                             clamp_m=float(t.rat()), lim_m=float(t.rat()), av_scale=float(t.rat()),
                             chi_scale=float(t.rat()), nviol=t.nat(), nlim=t.nat(), fcond=float(t.rat()),
                             dchi=float(t.rat()), dav=float(t.rat()), pred=[float(x) for x in t.rats()]))
        srcs.append(rows)
    return dict(error=None, nd=nd, ceil_m=ceil_m, below_m=below_m, srcs=srcs, logd=logd)


def describe(case):
    return ('format %d (named filters %r), bands %r um, theta %r arcsec (given in %s), aperture tables in %s, fluxes stored in %s, extinction law in %s, '
            'distance range [%r, %r] kpc (given in %s), logd_step %r, A_V range %r'
            % (case['fmt'], case.get('named'), case['wavs'], case['thetas'], case.get('theta_unit', 'arcsec'),
               case.get('ap_unit', 'au'), case.get('flux_unit', 'mJy'), case.get('ext_unit', 'micron'), case['dmin'], case['dmax'],
               case.get('dunit', 'kpc'), case['step'], case['av']))


def case_ks(case):
    _, etab, ev, ewavs = ext_numbers(case)
    den = float(np.interp(ev, etab, case['tab_chi']))
    return [-0.4 * float(np.interp(w, etab, case['tab_chi'], left=0., right=0.)) / den for w in ewavs]


def decoy_of(case):
    """a different package for the same directory: other logd_step, perturbed fluxes in another model order, other
    aperture tables (same smallest aperture, so theta*dmin stays inside), same or other format version"""
    dc = dict(case)
    nb = len(case['wavs'])
    dc['step'] = float('%.3g' % (case['step'] * 2.7)) if case['step'] < 0.1 else float('%.3g' % (case['step'] / 2.7))
    dc['flux'] = [[[float('%.4g' % (v * (1.7 + 0.3 * ((i + k) % 5)))) for k, v in enumerate(row)] for i, row in enumerate(rows)][::-1]
                  for rows in case['flux']]
    dc['flux_unit'], dc['flux_stored'] = 'mJy', None
    dc['ap_unit'], dc['aps_stored'] = 'au', None
    aps = [[a[0]] + [float('%.5g' % (x * 1.37)) for x in a[1:]] for a in case['aps']]
    if case['rebuild'] == 'other':
        dc['fmt'] = 3 - case['fmt']
    if dc['fmt'] == 2:
        # one shared table for the wavelength filters: the one with the smallest first aperture
        shared = min(aps, key=lambda a: a[0])
        named = case.get('named') or [False] * nb
        aps = [aps[j] if named[j] else shared for j in range(nb)]
        dc['named'] = named
    else:
        dc['named'] = [False] * nb
    dc['aps'] = aps
    dc['rebuild'] = None
    return dc


def run_case(case):
    d = tempfile.mkdtemp(prefix='c02_')
    branches = set()
    relaxed = 0
    try:
        if case.get('rebuild'):
            dc = decoy_of(case)
            fn0, ext0, _ = build(dc, d)
            try:
                f0 = make_fitter(dc, d, fn0, ext0)
                s0 = case['sources'][0]
                with common.quiet():
                    f0.fit(pk.make_source('decoy', s0['flags'], s0['flux'], s0['err']))
                del f0
            except Exception:      # noqa: BLE001 — the decoy only has to have been read; its own result is not examined
                pass
            branches.add('rebuilt_in_place')
            branches.add('rebuilt_other_format' if case['rebuild'] == 'other' else 'rebuilt_same_format')
        fnames, ext, names = build(case, d)
        exp = model_side(case)
        branches.add('format%d' % case['fmt'])
        branches.add('flux_monotone' if case['mono'] else 'flux_arbitrary')
        lb = lower_bound(case)
        near = exp['error'] is None and abs(exp['below_m']) < MARGIN or exp['error'] == 'tooSmall' and lb['near']
        # theta*dmin on the smallest aperture: in the quantifier ('not below'); a result is due whenever the float64
        # evaluation of the radius as the property states it accepts it too - otherwise a margin case
        strict = near and lb['in_quant'] and lb['accept_ref']
        on_knot = near and not strict
        if strict:
            branches.add('theta_dmin_on_knot_strict')
        if case['dmin'] == case['dmax']:
            # a single trial distance is used as given (no 10**log10 round trip): when theta*(d*1000) IS a tabulated
            # aperture both exactly and in the code's floats, the tabulated value is expected - not a margin case
            dpc = float((case['dmin'] * u.kpc).to(u.pc).value)
            radii = [t * dpc for t in case['thetas']]
            if not on_knot and exp['error'] is None:
                for r, a in zip(radii, case['aps']):
                    if len(a) >= 3 and r in a:
                        branches.add('single_on_first_knot' if r == a[0] else 'single_on_last_knot' if r == a[-1]
                                     else 'single_on_inner_knot')
        try:
            fitter = make_fitter(case, d, fnames, ext)
        except Exception as e:      # noqa: BLE001
            if on_knot and 'too small' in str(e):
                # theta*dmin sits on the smallest aperture: 10**log10(dmin) may round below it
                return CaseResult(True, branches={'theta_dmin_on_knot'} | branches, key=common.canon_hash(case),
                                  nontrivial=True, relaxed=1)
            return CaseResult(False, detail='Fitter(...) raised %s: %s on an in-domain package (%s; smallest apertures %r AU, '
                                            'theta*dmin = %r AU)' % (type(e).__name__, e, describe(case),
                                                                      [a[0] for a in case['aps']],
                                                                      [t * (case['dmin'] * 1000.) for t in case['thetas']]),
                              violates=True, branches=branches)
        if on_knot:
            branches.add('theta_dmin_on_knot')
        if exp['error'] is not None:
            if on_knot:
                return CaseResult(True, branches=branches, key=common.canon_hash(case), nontrivial=True, relaxed=1)
            return CaseResult(False, detail='model refuses the package (%s) but the generator keeps theta*dmin above the '
                                            'smallest aperture: %s' % (exp['error'], describe(case)), violates=None)
        if exp['ceil_m'] < MARGIN:
            # the grid length depends on a ceil() within rounding of an integer: a margin case, unless the value is
            # exactly an integer both in exact arithmetic (model margin 0 to 2^-120) and in the code's own float
            # expression, in which case the minimal grid is unambiguous and is compared strictly
            x_float = 1 + (np.log10(case['dmax']) - np.log10(case['dmin'])) / case['step']
            if exp['ceil_m'] < 1e-30 and x_float == round(x_float):
                branches.add('exact_multiple')
            else:
                return CaseResult(True, branches=branches, key=common.canon_hash(case), nontrivial=True, relaxed=1)
        nd_impl = len(fitter.models.distances) if fitter.models.distances is not None else None
        nd = exp['nd']
        if case.get('dunit', 'kpc') != 'kpc':
            branches.add('range_other_unit')
        if any(case.get('named') or []):
            branches.add('named_in_cube')
        if case.get('ap_unit', 'au') != 'au':
            branches.add('ap_table_other_unit')
        if case.get('ext_unit', 'micron') != 'micron':
            branches.add('ext_other_unit')
        if case.get('flux_unit', 'mJy') != 'mJy':
            branches.add('flux_other_unit')
        if len(names) > 4096:
            branches.add('more_than_4096_models')
        if case.get('theta_unit', 'arcsec') != 'arcsec':
            branches.add('theta_other_unit')
        nbands = len(case['wavs'])
        if any(case['thetas'][i] == case['thetas'][j] and case['aps'][i][-1] != case['aps'][j][-1]
               for i in range(nbands) for j in range(i)):
            branches.add('same_theta_diff_tables')
        if case['dmin'] == case['dmax']:
            branches.add('dmin_eq_dmax')
        else:
            branches.add('multi_distance')
        rmax = [t * case['dmax'] * 1000. for t in case['thetas']]
        if any(r > a[-1] for r, a in zip(rmax, case['aps'])):
            branches.add('beyond_largest')
        if any(t * case['dmin'] * 1000. < a[-1] for t, a in zip(case['thetas'], case['aps'])):
            branches.add('inside_table')
        lo, hi = case['av']
        if lo == hi:
            branches.add('lo_eq_hi')
        name_pos = {n: i for i, n in enumerate(names)}
        for si, src in enumerate(case['sources']):
            s = pk.make_source('s%d' % si, src['flags'], src['flux'], src['err'])
            with common.quiet():
                info = fitter.fit(s)
            got = pk.fit_arrays(info)
            if sorted(got['name']) != sorted(names):
                return CaseResult(False, detail='model names differ: %r' % (got['name'],), violates=True)
            if any(f in (0, 9) for f in src['flags']):
                branches.add('flag0or9')
            if 4 in src['flags']:
                branches.add('flag4')
            for row, nme in enumerate(got['name']):
                e = exp['srcs'][si][name_pos[nme] % len(case['flux'][0])]
                c2 = float(e['chi2'])
                # rounding budget of chi2: relative part + 1e4 x eps x (sum of the magnitudes that enter the sum)
                # + the rounding of log10(model flux) when the linear interpolation cancels (fcond), propagated
                dr = 1e-13 * e['fcond']
                ctol = 1e-9 * (1. + abs(c2)) + 1e-13 * e['chi_scale'] + dr * e['dchi']
                ascale = 1. + abs(float(e['av'])) + e['av_scale'] + 1e9 * dr * e['dav']
                # the reported scale is log10 of a grid distance, whatever the margins
                if min(abs(got['sc'][row] - g) for g in exp['logd']) > 1e-9:
                    return CaseResult(False, detail='source %d model %s: reported scale %r is not log10(d/kpc) of a grid '
                                                    'distance (grid %r); %s' % (si, nme, float(got['sc'][row]),
                                                                                 exp['logd'], describe(case)),
                                      violates=True, branches=branches)
                if (e['gap'] < MARGIN * (1. + abs(c2)) + 100. * ctol or e['lim_m'] < MARGIN or
                        (lo < hi and e['clamp_m'] < MARGIN * ascale)):
                    relaxed += 1
                    # which of two (nearly) tied distances wins is within rounding, but the reported chi2 is still
                    # the grid minimum (this is also what compares rows whose chi2 is >= 1e30 at every distance)
                    if e['lim_m'] >= MARGIN and abs(got['chi2'][row] - c2) > ctol + min(e['gap'], 1e-6 * (1. + abs(c2))):
                        return CaseResult(False, detail='source %d model %s: reported chi2 %r, minimum over the grid %r '
                                                        '(two best distances differ by %.3g); %s'
                                                        % (si, nme, float(got['chi2'][row]), c2, e['gap'], describe(case)),
                                          violates=True, branches=branches)
                    if c2 >= 1e29:
                        branches.add('chi2_big_compared')
                    continue
                av_m = float(e['av'])
                if lo < hi:
                    branches.add('clamp_low' if av_m == lo else 'clamp_high' if av_m == hi else 'interior')
                if nd > 1:
                    branches.add('best_first' if e['bi'] == 0 else 'best_last' if e['bi'] == nd - 1 else 'best_inner')
                if e['nviol'] > 0:
                    branches.add('limit_violated')
                if e['nlim'] > e['nviol']:
                    branches.add('limit_ok')
                okav = abs(got['av'][row] - av_m) <= 1e-9 * ascale
                oksc = abs(got['sc'][row] - float(e['sc'])) <= 1e-9
                # the grid starts at dmin and ends at dmax: there the reported scale is log10 of that very float
                if e['bi'] == 0:
                    oksc = oksc and float(got['sc'][row]) == float(np.log10(case['dmin']))
                    branches.add('sc_at_dmin_exact')
                elif e['bi'] == nd - 1:
                    oksc = oksc and float(got['sc'][row]) == float(np.log10(case['dmax']))
                    branches.add('sc_at_dmax_exact')
                okc2 = abs(got['chi2'][row] - c2) <= ctol
                # predicted log fluxes stored with the row: av * av_law + log10(model flux at the best distance)
                mf = got['model_fluxes']
                okmf = True
                if mf is not None:
                    branches.add('pred_fluxes')
                    ptol = 1e-9 * ascale * max([1.] + [abs(k) for k in case_ks(case)]) + 1e-9 + 1e-12 * e['fcond']
                    okmf = mf.shape[1] == len(e['pred']) and all(abs(mf[row][j] - e['pred'][j]) <= ptol * (1. + abs(e['pred'][j]))
                                                                   for j in range(len(e['pred'])))
                if okav and oksc and okc2 and not okmf:
                    return CaseResult(False, detail='source %d model %s: FitInfo.model_fluxes %r, expected av*av_law + log10 of the '
                                                    'model flux at the best distance %r; %s'
                                                    % (si, nme, [float(x) for x in mf[row]], e['pred'], describe(case)),
                                      violates=True, branches=branches)
                if not (okav and oksc and okc2):
                    det = ('source %d (flags %r flux %r err %r) model %s: impl (av, sc, chi2) = (%r, %r, %r); grid optimum of the '
                           'exact model (av, log10 d, chi2) = (%r, %r, %r) at grid index %d of %d (impl grid length %r); '
                           'argmin gap %.3g; %s'
                           % (si, src['flags'], src['flux'], src['err'], nme, float(got['av'][row]), float(got['sc'][row]),
                              float(got['chi2'][row]), av_m, float(e['sc']), c2, e['bi'], nd, nd_impl, e['gap'],
                              describe(case)))
                    return CaseResult(False, detail=det, violates=True, branches=branches)
        if nd_impl != nd:
            return CaseResult(False, detail='grid length: impl %r, minimal grid with spacing <= step has %d points (%s)'
                                            % (nd_impl, nd, describe(case)), violates=True, branches=branches)
        key = common.canon_hash(case)
        sample = dict(fmt=case['fmt'], range_kind=case['rkind'], av_kind=case['akind'], n_distances=nd,
                      n_models=len(names), n_bands=len(case['wavs']), n_apertures=len(case['aps'][0]),
                      distance_range=[case['dmin'], case['dmax']], step=case['step'], av_range=case['av'],
                      source0=case['sources'][0])
        nontriv = nd > 1 or 'beyond_largest' in branches
        return CaseResult(True, branches=branches, key=key, nontrivial=nontriv, sample=sample, relaxed=relaxed)
    finally:
        shutil.rmtree(d, ignore_errors=True)


# ----------------------------------------------------------------------------- falsifier

def direct_check(case):
    """the property's statement evaluated with plain numpy on the package arrays (no Lean model):
    grid = fewest log-uniform points with spacing <= step including both ends; per grid point the flux is
    the clamped linear interpolant x d^-2; reported chi2 = min over the grid, A_V = clipped optimum there"""
    d = tempfile.mkdtemp(prefix='c02f_')
    try:
        fnames, ext, names = build(case, d)
        try:
            fitter = make_fitter(case, d, fnames, ext)
        except Exception as e:      # noqa: BLE001
            lb = lower_bound(case)
            if lb['near'] and not (lb['in_quant'] and lb['accept_ref']):
                return None
            return 'Fitter(...) raised %s: %s (%s)' % (type(e).__name__, e, describe(case))
        lo, hi = case['av']
        if case['dmin'] == case['dmax']:
            grid = np.array([math.log10(case['dmin'])])
        else:
            x = 1 + (math.log10(case['dmax']) - math.log10(case['dmin'])) / case['step']
            if abs(x - round(x)) < 1e-7 and x != round(x):
                return None
            n = int(math.ceil(x))
            grid = math.log10(case['dmin']) + np.arange(n) * (math.log10(case['dmax']) - math.log10(case['dmin'])) / (n - 1)
        dist = 10. ** grid
        if len(fitter.models.distances) != len(grid):
            return 'grid has %d points, the minimal grid has %d (%s)' % (len(fitter.models.distances), len(grid), describe(case))
        ks = np.array([-0.4 * np.interp(w, case['tab_w'], case['tab_chi'], left=0., right=0.) /
                       np.interp(0.55, case['tab_w'], case['tab_chi']) for w in case['wavs']])
        nb = len(case['wavs'])
        for si, src in enumerate(case['sources']):
            s = pk.make_source('s%d' % si, src['flags'], src['flux'], src['err'])
            with common.quiet():
                got = pk.fit_arrays(fitter.fit(s))
            fl = np.array(src['flags']); f = np.array(src['flux'], dtype=float); e = np.array(src['err'], dtype=float)
            lf = np.zeros(nb); w = np.zeros(nb); le = np.zeros(nb)
            for j in range(nb):
                if fl[j] == 1:
                    le[j] = abs(e[j] / f[j]) / math.log(10.)
                    lf[j] = math.log10(f[j]) - 0.5 * (e[j] / f[j]) ** 2 / math.log(10.)
                    w[j] = 1. / le[j] ** 2
                elif fl[j] in (2, 3):
                    lf[j] = math.log10(f[j]); le[j] = e[j]
                elif fl[j] == 4:
                    lf[j] = f[j]; le[j] = e[j]; w[j] = 1. / e[j] ** 2
            for row, nme in enumerate(got['name']):
                mi = names.index(nme) % len(case['flux'][0])
                chis, avs = [], []
                for dk in dist:
                    mf = np.array([np_interp_row(case['aps'][j], case['flux'][j][mi], case['thetas'][j] * dk * 1000.) / dk ** 2
                                   for j in range(nb)])
                    r = lf - np.log10(mf)
                    a = min(max(np.sum(r * ks * w) / np.sum(ks * ks * w), lo), hi)
                    c = 0.
                    for j in range(nb):
                        m = a * ks[j]
                        if fl[j] == 0:
                            continue
                        if fl[j] == 2 and m < r[j] or fl[j] == 3 and m > r[j]:
                            c += 1e30 if le[j] == 1. else -2. * math.log(1. - le[j])
                        else:
                            c += (r[j] - m) ** 2 * w[j]
                    chis.append(c); avs.append(a)
                chis = np.array(chis)
                cmin = chis.min()
                tol = 1e-6 * (1. + abs(cmin))
                if abs(got['chi2'][row] - cmin) > tol:
                    return ('source %d model %s: reported chi2 %r, minimum over the %d grid distances %r (%s)'
                            % (si, nme, float(got['chi2'][row]), len(grid), float(cmin), describe(case)))
                j = int(np.argmin(np.abs(grid - got['sc'][row])))
                if abs(grid[j] - got['sc'][row]) > 1e-9:
                    return 'source %d model %s: reported scale %r is not log10 of a grid distance (%s)' % (
                        si, nme, float(got['sc'][row]), describe(case))
                near = [i for i in range(len(grid)) if abs(chis[i] - cmin) <= tol]
                if len(near) == 1 and abs(got['av'][row] - avs[near[0]]) > 1e-6 * (1 + abs(avs[near[0]])):
                    return 'source %d model %s: reported A_V %r, clipped optimum at the best distance %r (%s)' % (
                        si, nme, float(got['av'][row]), float(avs[near[0]]), describe(case))
        return None
    finally:
        shutil.rmtree(d, ignore_errors=True)


def search(seed, tier, disagreeing):
    found = []
    tried = 0
    cases = list(disagreeing)
    for i in range(40 if tier == 'quick' else 200):
        cases.append(gen_case(case_rng(seed, PID + '-search', i)))
    for case in cases:
        tried += 1
        try:
            det = direct_check(case)
        except Exception as e:      # noqa: BLE001
            det = None
        if det:
            found.append((case, det))
            if len(found) >= 3:
                break
    return found, tried


def shrink(case):
    cur = case

    def fails(c):
        try:
            return not run_case(c).ok
        except Exception:      # noqa: BLE001
            return True
    changed = True
    while changed:
        changed = False
        for i in range(len(cur['sources'])):
            if len(cur['sources']) > 1:
                c = dict(cur); c['sources'] = cur['sources'][:i] + cur['sources'][i + 1:]
                if fails(c):
                    cur = c; changed = True; break
        if changed:
            continue
        nm = len(cur['flux'][0])
        for i in range(nm if not cur.get('n_total') else 0):      # repeated-row grids are not shrunk model by model
            if nm > 1:
                c = dict(cur); c['flux'] = [rows[:i] + rows[i + 1:] for rows in cur['flux']]
                if fails(c):
                    cur = c; changed = True; break
    return cur
