"""C10 — fit() writes one faithful record per eligible source and reads back unchanged; the three
input forms of the post-processing functions are interchangeable and the results handed in are never
modified.

Three kinds of cases:

* ``fit``  data file (1–12 lines, eligible / ineligible mixed, >= 1 eligible) -> ``sedfitter.fit`` ->
  ``FitInfoFile(out, 'r')``.  Records are compared NaN-aware, field by field and exactly, with
  ``Fitter.fit(Source.from_ascii(line))`` + ``model_fluxes = None`` unless requested + ``keep(selector)``;
  count and order with the driver op ``records`` (Lean ``fitMany`` + ``serialize`` + ``readAll``);
  metadata (model_dir, filters, extinction law) with what was passed in.
* ``rw``   1–5 arbitrary records (NaN / +-inf chi², 0..6 fits, with / without predicted fluxes) written
  with ``FitInfoFile.write`` and read back; in part of the cases the records SHARE objects that are
  changed between the writes (one Source instance re-used as a buffer; the same FitInfo written, cut
  with keep(), written again; numpy arrays shared between records and modified in place) — every
  record read back must equal the snapshot the harness took of it at the moment it was written.
* ``hist`` results R (from ``fit``) held as a file, as one FitInfo, as a list of FitInfo; sequences of
  <= 3 calls of write_parameters / write_parameter_ranges / extract_parameters / plot(output_dir=None)
  / plot(output_dir=None, show_convolved=True) (when the results carry predicted fluxes) /
  filter_output with different selectors.  After *every* call the deep digest of every caller
  object (and of the input file) must be what it was before; the outputs must be identical across
  the input forms; and they must be the rows the driver op ``history`` (Lean heap machine, copy
  mode) predicts.  thorough: all sequences of length <= 3 over a 15-call alphabet
  (4 selector ops x 3 selectors + filter_output x 2 thresholds + plot(show_convolved=True)) for each form.
"""
import hashlib
import itertools
import os
import shutil
import tempfile

os.environ.setdefault('MPLBACKEND', 'Agg')

import numpy as np

from . import common
from .common import CaseResult, rat, case_rng, nice
from . import packages as pk

PID = 'C10'
RULE = ('cases are drawn from the quantifier of C10: (fit) data files of 1..12 lines mixing eligible and '
        'ineligible sources with at least one eligible, n_data_min in 0..n_filters+1, all six selector forms, '
        'output_convolved yes/no, file ending at EOF (with / without newline) or at a blank line; (rw) 1..5 '
        'arbitrary records incl. NaN/inf chi2 written and read back, partly sharing objects that are mutated between the writes (compared with snapshots taken at write time); (hist) sequences of <=3 post-processing '
        'calls (all seven consumers incl. plot_params_1d/2d; additional=; filter_output chi= / cpd=) with different selectors on results passed as file / object / list; fit cases use distance-independent, distance-dependent and cube packages (wavelength-type filters), data as path or open file; a fit case may hold duplicated photometry under other names / positions and 1-2 further fit() calls on the same package in the same process with varied arguments (same aperture / distance numbers in other units, other av_range, n_data_min / selector, filter subset), each output compared with a new Fitter for its own arguments.  A fit case is non-trivial '
        'when it holds at least one ineligible line or more than one record; a hist case when at least one call '
        'cuts a record (k < n_fits); distinct = distinct canonical hash of the generated case')
REQUIRED_BRANCHES = ['ineligible_skipped', 'all_eligible', 'nmin_zero', 'conv_yes', 'conv_no',
                     'sel_A', 'sel_N', 'sel_C', 'sel_D', 'sel_E', 'sel_F',
                     'end_eof_newline', 'end_eof_no_newline', 'end_blank_line',
                     'record_zero_fits', 'singular_source_fitted',
                     'law_wav_micron', 'law_wav_other_unit', 'law_chi_cm2_g', 'law_chi_other_unit',
                     'consecutive_fits', 'refit_aps_unit', 'refit_dist_unit', 'refit_av', 'refit_nmin_sel', 'refit_subset',
                     'duplicate_photometry', 'duplicate_adjacent', 'duplicate_apart',
                     'model_dir_absolute', 'model_dir_relative', 'model_dir_unnormalised',
                     'long_model_names', 'pkg_indep', 'pkg_dep', 'pkg_cube', 'pkg_cube_single_aperture', 'pkg_cube_aperture_dependent', 'filter_by_wavelength', 'data_path', 'data_handle',
                     'rw_nan', 'rw_inf', 'rw_zero_fits', 'rw_fluxes', 'rw_no_fluxes',
                     'rw_share_source_buffer', 'rw_share_same_info_keep', 'rw_share_array_inplace',
                     'form_file', 'form_obj', 'form_list',
                     'op_wp', 'op_wr', 'op_ex', 'op_pl', 'op_pc', 'op_p1', 'op_p2', 'op_fo', 'op_fc', 'additional',
                     'keep_cuts', 'filter_good', 'filter_bad', 'mem_from_fit', 'mem_from_read', 'seq_len3', 'special_source_name']
ASSUMPTIONS = ['pickle\'s byte encoding is not modelled: the Lean read-back theorems assume the two codec laws '
               '(load(dump(s)+rest) = (s, rest); load at end of stream = EOFError) for STATES only; the repo\'s own '
               '__getstate__/__setstate__ of FitInfo / Source / Extinction are modelled and proved to round-trip '
               '(C10_state_roundtrip*); the correspondence observes the byte level on every case',
               'the heap model has two levels (object -> attribute references -> cells): a shallow copy is a fresh '
               'object pointing at the caller\'s own cells, keep() rebinds views and writes nothing; the theorem holds for '
               'the ops the repo has and is false for an op that writes in place (negative control); that no consumer '
               'writes in place is observed by the digests the harness takes of every array after every call',
               'post-processing outputs go to fresh paths (never onto the input file)',
               'data lines after a blank line are outside the quantifier (the blank line is the last line)',
               'history selectors are reduced for the model to "keep the first k rows" with k computed by the '
               'harness from the caller object\'s chi2 (finite, sorted) — the selector arithmetic itself is C05']
EXHAUSTIVE = {'quick': False, 'thorough': True}
TRUSTED_EXTRA = ['CPython pickle (protocol 2) round trip of FitInfo / Source / Extinction / Quantity objects',
                 'matplotlib LineCollection as the carrier of plot(output_dir=None) output']

N_FIT = {'quick': 60, 'thorough': 900}
N_RW = {'quick': 25, 'thorough': 300}
N_HIST = {'quick': 18, 'thorough': 120}
N_SEQ = {'quick': 9, 'thorough': 14}
SEL_FORMS = ['A', 'N', 'C', 'D', 'E', 'F']
ENDINGS = ['eof_newline', 'eof_no_newline', 'blank_line', 'spaces_line']
SEL_OPS = ['wp', 'wr', 'ex', 'pl']
SHARES = ['source_buffer', 'same_info_keep', 'array_inplace']


# ----------------------------------------------------------------------------- generation

def gen_pkg(rng, variant='indep', cube_dep=None, long_names=None):
    """variant: 'indep' distance-independent version-1 package (convolved files, one aperture);
    'dep' distance-dependent version-1 package (convolved files tabulated at several apertures);
    'cube' version-2 package (flux.fits) fitted at bare wavelengths (filters given as Quantity)"""
    nm = rng.randint(2, 5)
    nb = rng.randint(3, 5)
    wavs = set()
    while len(wavs) < nb:
        wavs.add(nice(rng, 0.4, 90., 3))
    wavs = list(wavs)
    rng.shuffle(wavs)
    tw = sorted({0.1, 0.55, 200.} | {nice(rng, 0.2, 150., 2) for _ in range(rng.randint(1, 6))})
    chi = sorted([nice(rng, 1., 1e4, 3) for _ in tw], reverse=True)
    models = [[nice(rng, 1e-2, 1e3, 4) for _ in range(nb)] for _ in range(nm)]
    ids = rng.sample(range(100, 1000), nm)
    names = ['mod%d' % i for i in ids]
    order = list(range(nm))
    rng.shuffle(order)
    par1 = [nice(rng, 0.1, 100., 3) for _ in range(nm)]
    par2 = [nice(rng, 1e-3, 10., 3) for _ in range(nm)]
    av_lo = rng.choice([0., 0., round(rng.uniform(0, 3), 1)])
    av = [av_lo, round(av_lo + rng.uniform(1, 40), 1)]
    d1 = nice(rng, 0.1, 5., 2)
    dist = [d1, round(d1 * rng.uniform(1.2, 4.), 2)]
    aps = [nice(rng, 0.5, 20., 2) for _ in range(nb)]
    pkg = dict(names=names, wavs=wavs, tab_w=tw, tab_chi=chi, models=models, table_order=order,
               par1=par1, par2=par2, av=av, dist=dist, aps=aps, variant=variant,
               # units the extinction law is tabulated in (tab_w / tab_chi are its micron / cm2/g numbers)
               law_units=[rng.choice(['micron', 'micron', 'AA', 'nm', 'cm']), rng.choice(['cm2/g', 'cm2/g', 'm2/kg'])])
    if variant == 'dep':
        # apertures (AU) bracketing aperture["] x distance[pc] for every filter and distance
        pkg['ap_au'] = [1., 1e3, 3e4, 1e7][:rng.choice([3, 4])] if rng.random() < 0.5 else [0.5, 2e2, 1e8]
        pkg['ap_gain'] = [round(1. + 0.3 * a + rng.uniform(0, 0.2), 2) for a in range(len(pkg['ap_au']))]
        pkg['logd_step'] = rng.choice([0.05, 0.1, 0.2])
        if rng.random() < 0.2:
            pkg['dist'] = [d1, d1]
    if variant == 'cube':
        cw = sorted(set(wavs) | {nice(rng, 0.2, 200., 3) for _ in range(rng.randint(1, 4))})
        if rng.random() < 0.5:
            cw = cw[::-1]
        pkg['cube_wav'] = cw
        # the cube holds the model fluxes at the filters' wavelengths and arbitrary values elsewhere
        pkg['cube_val'] = [[[models[i][wavs.index(w)] if w in wavs else nice(rng, 1e-2, 1e3, 4) for w in cw]]
                           for i in range(nm)]
        # wavelengths asked for: slightly off the cube's own (nearest-wavelength look-up)
        pkg['ask_wav'] = [float('%.4g' % (w * rng.choice([1., 1., 1.002, 0.999]))) for w in wavs]
        pkg['named'] = [rng.random() < 0.25 for _ in wavs]    # some filters by name (convolved file), the rest by wavelength
        if long_names or (long_names is None and rng.random() < 0.4):
            # cube names are not limited to 30 characters: 31..60 characters that share their first 30
            stem = 'grid_v2_' + 'x' * 22
            pkg['names'] = names = [stem + ('_%d' % i) + 'y' * rng.randint(0, 26) for i in ids]
            pkg['named'] = [False for _ in wavs]
        if cube_dep or (cube_dep is None and rng.random() < 0.4):
            # aperture-dependent cube (distance-dependent fits from a version-2 package)
            pkg['ap_au'] = [1., 1e3, 3e4, 1e7]
            pkg['ap_gain'] = [round(1. + 0.3 * a + rng.uniform(0, 0.2), 2) for a in range(4)]
            pkg['logd_step'] = rng.choice([0.1, 0.2])
            pkg['cube_val'] = [[[v * g for v in pkg['cube_val'][i][0]] for g in pkg['ap_gain']] for i in range(nm)]
    return pkg


def gen_source(rng, pkg, idx, n_data):
    nb = len(pkg['wavs'])
    pos = list(range(nb))
    rng.shuffle(pos)
    flags = [0] * nb
    for j in range(nb):
        if j < n_data:
            flags[pos[j]] = rng.choice([1, 1, 1, 4])
        else:
            flags[pos[j]] = rng.choice([0, 2, 3, 9, 0])
    m = rng.randrange(len(pkg['models']))
    sc0 = rng.uniform(-0.5, 0.5)
    flux, err = [], []
    for j in range(nb):
        f = float('%.4g' % (pkg['models'][m][j] * 10 ** (-2 * sc0) * 10 ** rng.uniform(-0.2, 0.2)))
        if flags[j] == 4:
            flux.append(float('%.3f' % np.log10(f)))
            err.append(nice(rng, 0.01, 0.3, 2))
        elif flags[j] in (2, 3):
            flux.append(f)
            err.append(rng.choice([0., 0.5, 0.9]))
        elif flags[j] == 0:
            flux.append(rng.choice([0., f]))
            err.append(0.)
        else:
            flux.append(f)
            err.append(float('%.3g' % (f * nice(rng, 0.01, 0.4, 2))))
    return dict(name='s%02d' % idx, x=round(rng.uniform(0, 360), 5), y=round(rng.uniform(-90, 90), 5),
                flags=flags, flux=flux, err=err)


def gen_selector(rng, form=None, nm=4):
    form = form or rng.choice(SEL_FORMS)
    if form == 'A':
        return ['A', rng.choice([0, 1, 99])]
    if form == 'N':
        return ['N', rng.randint(0, nm + 1)]
    if form == 'C':
        return ['C', nice(rng, 0.5, 5e3, 2)]
    if form == 'D':
        return ['D', nice(rng, 0.5, 5e3, 2)]
    if form == 'E':
        return ['E', nice(rng, 0.1, 1e3, 2)]
    return ['F', nice(rng, 0.1, 1e3, 2)]


def gen_fit_case(rng, directed=None):
    directed = directed or {}
    pkg = gen_pkg(rng, directed.get('variant') or rng.choice(['indep', 'indep', 'dep', 'cube']), cube_dep=directed.get('cube_dep'), long_names=directed.get('long_names'))
    if directed.get('law_units'):
        pkg['law_units'] = list(directed['law_units'])
    nb = len(pkg['wavs'])
    nl = directed.get('n_lines') or rng.randint(1, 12)
    n_min = directed['n_min'] if 'n_min' in directed else rng.choice([0, 1, 2, 3, 3, 3, nb - 1, nb, nb + 1])
    n_min = max(0, min(n_min, nb + 1))
    if directed.get('all_eligible'):
        nds = [rng.randint(max(n_min, 2), nb) if n_min <= nb else nb for _ in range(nl)]
        n_min = min(n_min, nb)
    else:
        nds = [rng.randint(0, nb) for _ in range(nl)]
    if not any(n >= n_min for n in nds):
        n_min = min(n_min, nb)
        nds[rng.randrange(nl)] = rng.randint(max(n_min, min(2, nb)), nb)
    if directed.get('force_ineligible') and nl > 1 and n_min > 0:
        nds[0] = n_min - 1
        nds[1] = max(nds[1], n_min)
    if directed.get('force_singular') and n_min <= 1:
        nds[0] = rng.choice([0, 1]) if n_min == 0 else 1
    sources = [gen_source(rng, pkg, i, nds[i]) for i in range(nl)]
    # duplicated photometry: byte-identical flags / fluxes / errors under another name and position,
    # adjacent or further down, 1-2 extra copies
    dup = directed['dup'] if 'dup' in directed else (rng.random() < 0.3)
    if dup and len(sources) <= 10:
        cand = [i for i, n in enumerate(nds) if n >= n_min] or [0]
        i0 = rng.choice(cand)
        for c in range(rng.choice([1, 1, 2])):
            cp = dict(sources[i0])
            cp['name'] = 'dup%d_of_%s' % (c, sources[i0]['name'])
            cp['x'] = round(rng.uniform(0, 360), 5)
            cp['y'] = round(rng.uniform(-90, 90), 5)
            if dup == 'adjacent' or (dup is True and rng.random() < 0.5):
                pos = i0 + 1
            else:
                pos = rng.randint(min(i0 + 2, len(sources)), len(sources))
            sources.insert(pos, cp)
    sel = directed.get('sel') or gen_selector(rng, nm=len(pkg['models']))
    case = dict(kind='fit', pkg=pkg, sources=sources, n_min=n_min, sel=sel,
                conv=directed['conv'] if 'conv' in directed else rng.random() < 0.5,
                ending=directed.get('ending') or rng.choice(ENDINGS),
                data_as=directed.get('data_as') or rng.choice(['path', 'path', 'handle']), dup=bool(dup),
                dir_spelling=directed.get('dir_spelling') or rng.choice(['abs', 'abs'] + SPELLINGS))
    # 1-2 further fit() calls on the SAME package in the same process, with varied arguments
    nfu = directed['followups'] if 'followups' in directed else rng.choice([0, 0, 1, 2])
    fus = []
    kinds = list(directed.get('fu_kinds') or [])
    for j in range(nfu):
        kind = kinds[j] if j < len(kinds) else rng.choice(['aps_unit', 'dist_unit', 'av', 'nmin_sel', 'subset', 'same'])
        fu = dict(kind=kind)
        if kind == 'aps_unit':
            fu['aps_unit'] = rng.choice(['arcmin', 'deg'])           # same numbers, other unit
        elif kind == 'dist_unit':
            fu['dist_unit'] = 'Mpc'                                  # (pc would fall below the aperture table: C13's domain)
        elif kind == 'av':
            fu['av'] = [pkg['av'][0] + 1., round(pkg['av'][1] + rng.uniform(1, 9), 1)]
        elif kind == 'nmin_sel':
            fu['n_min'] = rng.choice([0, 1, 2, 3])
            fu['sel'] = gen_selector(rng, nm=len(pkg['models']))
            fu['conv'] = rng.random() < 0.5
        elif kind == 'subset':
            keep = sorted(rng.sample(range(nb), rng.randint(2, nb - 1)))
            fu['subset'] = keep
            fu['n_min'] = rng.choice([0, 1, 2])
        fus.append(fu)
    if fus:
        case['followups'] = fus
    return case


def _sp(x):
    """JSON-safe float"""
    x = float(x)
    if x != x:
        return 'nan'
    if x in (float('inf'), float('-inf')):
        return 'inf' if x > 0 else '-inf'
    return x


def gen_rw_case(rng, directed=None):
    directed = directed or {}
    pkg = gen_pkg(rng)
    if directed.get('law_units'):
        pkg['law_units'] = list(directed['law_units'])
    nb = len(pkg['wavs'])
    nrec = rng.randint(1, 5)
    recs = []
    share = directed['share'] if 'share' in directed else rng.choice([None, None, None] + SHARES)
    long_rw = directed['long_names'] if 'long_names' in directed else rng.random() < 0.35
    if share == 'source_buffer':
        nrec = max(nrec, 2)
    for i in range(nrec):
        n = rng.choice([0, 1, 2, 3, 4, 5, 6]) if not directed.get('zero') or i else 0
        special = directed.get('special')
        if special and i == 0:
            n = max(n, 2)
        if share and i == 0:
            n = rng.randint(3, 6)
        chi2 = []
        for j in range(n):
            r = rng.random() if not (special and i == 0 and j == 0) else 0.4
            if r < 0.15 or (special == 'nan' and r < 0.5):
                chi2.append('nan')
            elif r < 0.3 or (special == 'inf' and r < 0.6):
                chi2.append(rng.choice(['inf', '-inf', 'inf']))
            else:
                chi2.append(nice(rng, 1e-3, 1e5, 4))
        with_flux = directed['fluxes'] if 'fluxes' in directed else rng.random() < 0.5
        recs.append(dict(name='r%02d' % i, n=n, chi2=chi2,
                         av=[_sp(rng.choice([round(rng.uniform(0, 30), 3), float('nan')]) if rng.random() < 0.1
                                 else round(rng.uniform(0, 30), 3)) for _ in range(n)],
                         sc=[round(rng.uniform(-2, 2), 4) for _ in range(n)],
                         flags=[rng.choice([0, 1, 2, 3, 4, 9]) for _ in range(nb)],
                         fluxes=[[round(rng.uniform(-3, 3), 4) for _ in range(nb)] for _ in range(n)] if with_flux else None,
                         sort=rng.random() < 0.7,
                         names=[(('long_model_name_' + 'z' * 14 + '_%d' + 'w' * rng.randint(0, 25)) if long_rw else 'm%d') % k
                                for k in rng.sample(range(1000), n)]))
    case = dict(kind='rw', pkg=pkg, recs=recs, dir_spelling=directed.get('dir_spelling') or rng.choice(['abs', 'abs'] + SPELLINGS))
    if share:
        # objects shared between records and changed between the writes (see `write_shared`)
        case['share'] = share
        case['inplace'] = rng.random() < 0.5
        case['keeps'] = sorted([rng.randint(0, recs[0]['n'] - 1) for _ in range(rng.randint(1, 3))], reverse=True)
        case['deltas'] = [round(rng.uniform(0.5, 9.), 2) for _ in range(rng.randint(1, 3))]
        case['via_copy'] = rng.random() < 0.5
    return case


def gen_hist_case(rng, tier, directed=None):
    directed = directed or {}
    pkg = gen_pkg(rng)
    if directed.get('law_units'):
        pkg['law_units'] = list(directed['law_units'])
    nb = len(pkg['wavs'])
    nm = len(pkg['models'])
    k = directed.get('k') or rng.choice([1, 1, 2, 3, 4])
    sources = []
    for i in range(k):
        s = gen_source(rng, pkg, i, rng.randint(3, nb))
        # names as catalogues have them, with characters that are special in file names on some systems
        # (':' '?' '*' '"' '<' '>' '|' and a backslash; not '/', which would change the output path)
        pats = ['s%d', 'G01%d.5:a', 'IRAS?18%d', 'src*%d', 'HD"%d"', 'l<%d>m', 'a|b%d', 'n\\%d', 's%d']
        s['name'] = rng.choice(pats[1:8] if (directed and i == 0) else pats) % i
        sources.append(s)
    out_sel = directed.get('out_sel') or rng.choice([['A', 0], ['N', nm], ['N', max(2, nm - 1)], ['F', 1e6],
                                                      ['C', nice(rng, 5., 5e3, 2)]])
    sels = [['N', 1], ['N', rng.randint(2, nm)], rng.choice([['A', 0], gen_selector(rng, rng.choice(['C', 'D', 'E', 'F']), nm)])]
    if rng.random() < 0.3 and not directed:
        sels[0] = gen_selector(rng, rng.choice(['C', 'D', 'E', 'F', 'N']), nm)
    thrs = directed.get('thrs') or [nice(rng, 0.5, 50., 2), nice(rng, 50., 5e4, 2)]
    alphabet = [[op, s] for op in SEL_OPS for s in sels] + [['fo', t] for t in thrs]
    conv = directed['conv'] if 'conv' in directed else rng.random() < 0.6
    if conv:
        # the results carry the predicted fluxes: plot(show_convolved=True) reads them
        alphabet += [['pc', sels[1]]] if 'first' in directed else [['pc', s] for s in sels]
    pp = directed['pp'] if 'pp' in directed else ('first' not in directed and not directed and rng.random() < 0.04)
    if 'first' not in directed:
        alphabet += [['fc', nice(rng, 0.5, 3e3, 2)]]           # filter_output(cpd=...)
    case = dict(kind='hist', pkg=pkg, sources=sources, out_sel=out_sel, conv=conv,
                mem_from=directed.get('mem_from') or rng.choice(['fit', 'read']), alphabet=alphabet,
                additional=directed['additional'] if 'additional' in directed else rng.random() < 0.3,
                dir_spelling=directed.get('dir_spelling') or rng.choice(['abs', 'abs'] + SPELLINGS))
    if 'first' in directed:
        case['exhaustive_first'] = directed['first']
    elif pp:
        # plot_params_1d / plot_params_2d write one figure per source (slow): a few short sequences only
        n0 = len(alphabet)
        alphabet += [['p1', sels[0]], ['p1', sels[1]], ['p2', sels[1]], ['p2', sels[2]]]
        case['seqs'] = [[n0, n0 + 3, 1], [0, n0 + 1, 12]]
        case['pp'] = True
    else:
        seqs = [[0, 11], [0, 5, 8], [3, 0, 3], [12, 9, 2], [6, 13, 7]][:5]   # cut-then-wider directed sequences
        if conv:
            seqs += [[15, 12], [14, 16, 13], [16, 15, 1]]   # convolved-flux plot, then something that reads the fluxes again
        seqs += [[len(alphabet) - 1], [0, len(alphabet) - 1, 12]]      # cpd threshold
        while len(seqs) < N_SEQ[tier] + (5 if conv else 2):
            seqs.append([rng.randrange(len(alphabet)) for _ in range(rng.choice([1, 2, 3, 3]))])
        case['seqs'] = seqs
    return case


def gen_cases(seed, tier):
    # directed block: every branch the quantifier names
    i = 0
    directed_fit = ([dict(sel=gen_sel, conv=(j % 2 == 0), ending=ENDINGS[j % 4])
                     for j, gen_sel in enumerate([['A', 0], ['N', 2], ['C', 30.], ['D', 50.], ['E', 8.], ['F', 6.]])] +
                    [dict(n_min=0), dict(all_eligible=True, n_min=2), dict(n_lines=1, n_min=3, all_eligible=True),
                     dict(n_lines=12, n_min=3, force_ineligible=True), dict(sel=['C', 1e-6], n_min=2, all_eligible=True),
                     dict(n_min=1, n_lines=5, force_singular=True), dict(n_min=0, n_lines=8, sel=['A', 0], force_singular=True),
                     dict(variant='dep', n_min=3, data_as='handle', conv=True), dict(variant='dep', n_min=2, sel=['N', 3], conv=False),
                     dict(variant='cube', n_min=3, data_as='path', conv=True), dict(variant='cube', n_min=2, sel=['F', 9.], data_as='handle'),
                     dict(variant='indep', n_min=3, data_as='handle', law_units=['AA', 'm2/kg']),
                     dict(variant='dep', n_min=3, law_units=['nm', 'cm2/g']), dict(variant='cube', n_min=3, law_units=['cm', 'm2/kg']),
                     dict(variant='indep', n_min=2, law_units=['micron', 'cm2/g']),
                     dict(variant='dep', n_min=2, followups=2, fu_kinds=['aps_unit', 'dist_unit'], all_eligible=True),
                     dict(variant='indep', n_min=2, followups=2, fu_kinds=['aps_unit', 'av'], all_eligible=True),
                     dict(variant='dep', n_min=2, followups=2, fu_kinds=['nmin_sel', 'subset'], all_eligible=True),
                     dict(variant='cube', n_min=2, followups=2, fu_kinds=['dist_unit', 'same'], all_eligible=True),
                     dict(variant='indep', n_min=2, dir_spelling='rel'), dict(variant='dep', n_min=2, dir_spelling='rel_dotdot', followups=1, fu_kinds=['same']),
                     dict(variant='cube', n_min=2, dir_spelling='abs_trailing', cube_dep=True, long_names=True), dict(variant='indep', n_min=3, dir_spelling='rel_trailing', data_as='handle'),
                     dict(variant='cube', n_min=2, dir_spelling='rel_dot', conv=True, cube_dep=False, long_names=True, sel=['A', 0]), dict(variant='dep', n_min=2, dir_spelling='abs_dotdot'),
                     dict(variant='indep', n_min=2, n_lines=4, all_eligible=True, dup='adjacent'),
                     dict(variant='indep', n_min=2, n_lines=6, all_eligible=True, dup='apart'),
                     dict(variant='dep', n_min=2, n_lines=3, all_eligible=True, dup='adjacent', followups=1, fu_kinds=['same'])])
    for dsp in directed_fit:
        dsp.setdefault('dir_spelling', 'abs')
        dsp.setdefault('variant', 'indep')
        dsp.setdefault('data_as', 'path')
        dsp.setdefault('followups', 0)
        dsp.setdefault('dup', False)
    for dsp in directed_fit:
        yield gen_fit_case(case_rng(seed, PID, i), dsp)
        i += 1
    for dsp in [dict(special='nan', share=None), dict(special='inf', share=None), dict(zero=True, share=None),
                dict(fluxes=True, share=None), dict(fluxes=False, share=None),
                dict(share='source_buffer'), dict(share='same_info_keep'), dict(share='array_inplace', fluxes=True),
                dict(share='source_buffer', fluxes=True, law_units=['AA', 'm2/kg']),
                dict(share='array_inplace', fluxes=False, law_units=['micron', 'cm2/g']), dict(share=None, law_units=['nm', 'm2/kg']),
                dict(share=None, dir_spelling='rel_dot', long_names=True), dict(share='same_info_keep', long_names=True), dict(share='same_info_keep', dir_spelling='abs_dslash'), dict(share=None, dir_spelling='rel')]:
        yield gen_rw_case(case_rng(seed, PID, i), dsp)
        i += 1
    for dsp in [dict(k=1, mem_from='fit', out_sel=['A', 0], thrs=[1e-9, 1e12], conv=True),
                dict(k=3, mem_from='read', out_sel=['A', 0], conv=True),
                dict(k=1, mem_from='read', out_sel=['N', 2], conv=False),
                dict(k=2, mem_from='fit', out_sel=['A', 0], thrs=[1e-9, 1e12], conv=False, additional=True),
                dict(k=1, mem_from='fit', out_sel=['A', 0], conv=True, pp=True, additional=False),
                dict(k=2, mem_from='read', out_sel=['A', 0], conv=False, pp=True, additional=True, law_units=['AA', 'm2/kg']),
                dict(k=1, mem_from='read', out_sel=['A', 0], conv=True, law_units=['micron', 'cm2/g'], dir_spelling='rel'),
                dict(k=2, mem_from='fit', out_sel=['A', 0], conv=True, dir_spelling='rel_trailing'),
                dict(k=1, mem_from='fit', out_sel=['A', 0], conv=False, dir_spelling='abs_dotdot')]:
        yield gen_hist_case(case_rng(seed, PID, i), tier, dsp)
        i += 1
    # thorough, exhaustive: all sequences of length <= 3 over the 15-call alphabet, one case per first call,
    # for a 1-record result (file / obj / list) and a 3-record result (file / list, + obj on record 0);
    # the 30 shards are interleaved with the random cases so that the pool spreads them over the workers
    shards = []
    if tier == 'thorough':
        for k, mem in [(1, 'fit'), (3, 'read')]:
            for first in range(15):
                # same generator stream for the 15 shards so that they share package and sources
                shards.append(gen_hist_case(case_rng(seed, PID, 'exh%d' % k), tier,
                                            dict(k=k, mem_from=mem, out_sel=['A', 0], first=first, conv=True)))
    rest = ([('fit', None)] * N_FIT[tier]) + ([('rw', None)] * N_RW[tier]) + ([('hist', None)] * N_HIST[tier])
    case_rng(seed, PID, 'order').shuffle(rest)
    every = max(1, len(rest) // 31)
    for j, (kind, _) in enumerate(rest):
        if shards and j % every == 0:
            yield shards.pop(0)
        rng = case_rng(seed, PID, i)
        yield gen_fit_case(rng) if kind == 'fit' else gen_rw_case(rng) if kind == 'rw' else gen_hist_case(rng, tier)
        i += 1
    for sh in shards:
        yield sh


# ----------------------------------------------------------------------------- building inputs

LAW_WAV = {'micron': 1., 'AA': 1e4, 'nm': 1e3, 'cm': 1e-4}
LAW_CHI = {'cm2/g': 1., 'm2/kg': 0.1}


def make_law(pkg):
    """the extinction law of the case, tabulated in the case's own units (wavelengths in micron / Angstrom /
    nm / cm, opacities in cm2/g or m2/kg)"""
    from astropy import units as u
    wu, cu = pkg.get('law_units', ['micron', 'cm2/g'])
    wav = [float('%.6g' % (w * LAW_WAV[wu])) for w in pkg['tab_w']]
    chi = [float('%.6g' % (c * LAW_CHI[cu])) for c in pkg['tab_chi']]
    law = pk.make_extinction(wav, chi, wav_unit={'micron': u.micron, 'AA': u.AA, 'nm': u.nm, 'cm': u.cm}[wu])
    if cu == 'm2/kg':
        law.chi = np.array(chi, dtype=float) * u.m ** 2 / u.kg
    return law


def law_branches(pkg):
    wu, cu = pkg.get('law_units', ['micron', 'cm2/g'])
    b = set()
    b.add('law_wav_micron' if wu == 'micron' else 'law_wav_other_unit')
    b.add('law_chi_cm2_g' if cu == 'cm2/g' else 'law_chi_other_unit')
    return b


def diff_law(got, passed):
    """EXACT comparison of an extinction law with the one that was handed in: units and values bit for bit"""
    for f in ('wav', 'chi'):
        g, e = getattr(got, f), getattr(passed, f)
        if not hasattr(g, 'unit'):
            return 'extinction_law.%s is a %s, not a Quantity' % (f, type(g).__name__)
        if g.unit != e.unit or str(g.unit) != str(e.unit):
            return 'extinction_law.%s unit %s, passed in %s' % (f, g.unit, e.unit)
        if not (np.asarray(g.value).dtype == np.asarray(e.value).dtype and same_array(g.value, e.value)):
            return 'extinction_law.%s values %r, passed in %r (%s)' % (f, np.asarray(g.value), np.asarray(e.value), e.unit)
    return None


def build_pkg(pkg, d, full):
    """model package of the case: models.conf + convolved/*.fits (+ seds/ and parameters.fits when `full`),
    or flux.fits for the cube variant.  Returns (filter specification for fit()/Fitter, extinction law)."""
    from astropy import units as u
    names = pkg['names']
    nm = len(names)
    nb = len(pkg['wavs'])
    variant = pkg.get('variant', 'indep')
    if variant == 'cube':
        pk.write_cube_package(d, names, pkg['cube_wav'], pkg['cube_val'], np.array(pkg['cube_val']) * 0.1,
                              apertures_au=pkg.get('ap_au'), params={'PAR1': pkg['par1'], 'PAR2': pkg['par2']},
                              aperture_dependent=('ap_au' in pkg), logd_step=pkg.get('logd_step', 0.02))
    elif full:
        swav = sorted({0.05, 500.} | set(pkg['wavs']))
        sflux = [[[pkg['models'][i][pkg['wavs'].index(w)] if w in pkg['wavs'] else pkg['models'][i][0] for w in swav]]
                 for i in range(nm)]
        order = [names[j] for j in pkg['table_order']]
        pk.write_sed_package(d, names, swav, sflux, np.array(sflux) * 0.1, apertures_au=None, table_order=order,
                             params={'PAR1': [pkg['par1'][j] for j in pkg['table_order']],
                                     'PAR2': [pkg['par2'][j] for j in pkg['table_order']]},
                             aperture_dependent=False)
    elif variant == 'dep':
        pk.write_conf(d, aperture_dependent=True, logd_step=pkg['logd_step'])
    else:
        pk.write_conf(d, aperture_dependent=False)
    fnames = []
    for j, w in enumerate(pkg['wavs']):
        fn = 'B%d' % j
        if variant == 'cube' and not pkg['named'][j]:
            fnames.append(pkg['ask_wav'][j] * u.micron)       # wavelength-type filter
            continue
        fnames.append(fn)
        if variant == 'dep' or (variant == 'cube' and 'ap_au' in pkg):
            pk.write_convolved(d, fn, w, names, [[pkg['models'][i][j] * g for g in pkg['ap_gain']] for i in range(nm)],
                               [[0.] * len(pkg['ap_au']) for _ in range(nm)], apertures_au=pkg['ap_au'])
        else:
            pk.write_convolved(d, fn, w, names, [[pkg['models'][i][j]] for i in range(nm)], [[0.] for _ in range(nm)])
    ext = make_law(pkg)
    return fnames, ext


def make_expected_fitter(pkg, d, fnames, ext, cp=None):
    """the object interface with its DEFAULT options, for either package format (the default `use_memmap=True`
    matters for version-2 packages: model fluxes are then held in float32); a NEW Fitter for every call"""
    from sedfitter.fit import Fitter
    aps, dist, av, idx = call_quantities(pkg, cp)
    with common.quiet():
        return Fitter([fnames[j] for j in idx], aps, d, extinction_law=ext, av_range=av, distance_range=dist)


def source_line(s):
    return pk.make_source(s['name'], s['flags'], s['flux'], s['err'], x=s['x'], y=s['y']).to_ascii()


def write_data(path, lines, ending):
    text = '\n'.join(lines)
    text += {'eof_newline': '\n', 'eof_no_newline': '', 'blank_line': '\n\n', 'spaces_line': '\n   \n'}[ending]
    with open(path, 'w') as f:
        f.write(text)


def call_quantities(pkg, cp=None):
    """(apertures, distance_range, av_range, filter subset) of one fit()/Fitter call; `cp` varies the base call:
    same aperture / distance NUMBERS in another unit, another av_range, a subset of the filters"""
    from astropy import units as u
    cp = cp or {}
    idx = cp.get('subset') or list(range(len(pkg['aps'])))
    aps = np.array([pkg['aps'][j] for j in idx], dtype=float) * getattr(u, cp.get('aps_unit', 'arcsec'))
    dist = np.array(pkg['dist'], dtype=float) * getattr(u, cp.get('dist_unit', 'kpc'))
    return aps, dist, tuple(cp.get('av', pkg['av'])), idx


def run_fit(pkg, d, fnames, ext, data, out, n_min, sel, conv, data_as='path', cp=None):
    import sedfitter
    if data_as == 'handle':
        with open(data, 'r') as fh:
            return run_fit(pkg, d, fnames, ext, fh, out, n_min, sel, conv, cp=cp)
    aps, dist, av, idx = call_quantities(pkg, cp)
    with common.quiet():
        sedfitter.fit(data, [fnames[j] for j in idx], aps, d, out, n_data_min=n_min,
                      extinction_law=ext, av_range=av, distance_range=dist,
                      output_format=(sel[0], sel[1]), output_convolved=conv)


# ----------------------------------------------------------------------------- comparing records

def _arr(x):
    return None if x is None else np.asarray(x)


def same_array(a, b):
    """NaN-aware exact equality of two array-likes (None only equals None)"""
    if a is None or b is None:
        return a is None and b is None
    a = np.asarray(a)
    b = np.asarray(b)
    if a.shape != b.shape:
        return False
    if a.dtype.kind in 'fc' or b.dtype.kind in 'fc':
        return bool(np.array_equal(np.asarray(a, dtype=float), np.asarray(b, dtype=float), equal_nan=True))
    return bool(np.array_equal(a, b))


def diff_info(got, exp):
    """first differing field of two FitInfo objects, or None"""
    gs, es = got.source, exp.source
    if gs.name != es.name:
        return 'source.name %r != %r' % (gs.name, es.name)
    for f in ('x', 'y'):
        if not same_array(getattr(gs, f), getattr(es, f)):
            return 'source.%s %r != %r' % (f, getattr(gs, f), getattr(es, f))
    for f in ('valid', 'flux', 'error'):
        if not same_array(getattr(gs, f), getattr(es, f)):
            return 'source.%s %r != %r' % (f, getattr(gs, f), getattr(es, f))
    for f in ('av', 'sc', 'chi2', 'model_id', 'model_fluxes'):
        if not same_array(getattr(got, f), getattr(exp, f)):
            return '%s: read back %r, expected %r' % (f, _arr(getattr(got, f)), _arr(getattr(exp, f)))
    gn = [str(n).strip() for n in np.asarray(got.model_name).tolist()]
    en = [str(n).strip() for n in np.asarray(exp.model_name).tolist()]
    if gn != en:
        return 'model_name: read back %r, expected %r' % (gn, en)
    if got.n_fits != exp.n_fits:
        return 'n_fits %r != %r' % (got.n_fits, exp.n_fits)
    return None


def diff_meta(meta, model_dir, fnames, aps, wavs, ext):
    from astropy import units as u
    if meta.model_dir != model_dir:
        return 'meta.model_dir %r != %r' % (meta.model_dir, model_dir)
    fl = meta.filters
    if len(fl) != len(fnames):
        return 'meta.filters has %d entries, expected %d' % (len(fl), len(fnames))
    for f, n, a, w in zip(fl, fnames, aps, wavs):
        if isinstance(n, str):
            if f.get('name') != n:
                return 'filter name %r != %r' % (f.get('name'), n)
            if not common.close(f['wav'].to(u.micron).value, w, 1e-12):
                return 'filter wavelength %r != %r micron' % (f['wav'], w)
        else:
            # wavelength-type filter: no name, and the Quantity that was passed in
            if 'name' in f:
                return 'wavelength-type filter came back with a name: %r' % (f,)
            if not (isinstance(f.get('wav'), u.Quantity) and f['wav'].unit == n.unit and float(f['wav'].value) == float(n.value)):
                return 'filter wavelength %r != %r' % (f.get('wav'), n)
        if not common.close(float(f['aperture_arcsec']), float(a), 1e-12):
            return 'filter aperture %r arcsec != %r arcsec' % (f['aperture_arcsec'], a)
        if not (isinstance(f['wav'], u.Quantity) and f['wav'].unit == u.micron):
            return 'filter wavelength %r is not a Quantity in micron' % (f['wav'],)
    return diff_law(meta.extinction_law, ext)


def meta_diff_by_value(a, b):
    """first difference between two FitInfoMeta objects compared BY VALUE (not identity), or None"""
    if a.model_dir != b.model_dir:
        return 'model_dir %r != %r' % (a.model_dir, b.model_dir)
    if len(a.filters) != len(b.filters):
        return 'number of filters %d != %d' % (len(a.filters), len(b.filters))
    for fa, fb in zip(a.filters, b.filters):
        if sorted(fa.keys()) != sorted(fb.keys()):
            return 'filter keys %r != %r' % (sorted(fa.keys()), sorted(fb.keys()))
        for k in fa:
            va, vb = fa[k], fb[k]
            ua, ub = str(getattr(va, 'unit', '')), str(getattr(vb, 'unit', ''))
            if k == 'name':
                same = va == vb
            else:
                same = ua == ub and float(getattr(va, 'value', va)) == float(getattr(vb, 'value', vb))
            if not same:
                return 'filter[%s] %r != %r' % (k, va, vb)
    for f in ('wav', 'chi'):
        qa, qb = getattr(a.extinction_law, f), getattr(b.extinction_law, f)
        if (str(getattr(qa, 'unit', None)) != str(getattr(qb, 'unit', None))
                or not same_array(getattr(qa, 'value', qa), getattr(qb, 'value', qb))):
            return 'extinction_law.%s %r != %r' % (f, qa, qb)
    return None


def read_fit_file(path):
    """(meta, records) of a fit file; a zero-byte file holds nothing"""
    from sedfitter.fit_info import FitInfoFile
    if os.path.getsize(path) == 0:
        return None, []
    fin = FitInfoFile(path, 'r')
    recs = list(fin)
    meta = fin.meta
    fin.close()
    return meta, recs


def ask_records(n_min, conv, toks):
    """driver `records` -> dict(status, nhdr, written=[(idx, flux)], read=[(idx, flux)])"""
    t = common.driver().ask('records %d %d %d %s' % (n_min, 1 if conv else 0, len(toks), ' '.join(str(x) for x in toks)))
    st = t.tok()
    if st in ('empty',):
        return dict(status='empty', written=[], read=[], nhdr=0)
    if st == 'error':
        return dict(status='error', err=t.tok())
    nh = t.nat()
    k = t.nat()
    wr = [(t.nat(), t.nat()) for _ in range(k)]
    tag = t.tok()
    if tag != 'read':
        return dict(status='readerror', err=t.tok(), nhdr=nh, written=wr)
    k2 = t.nat()
    rd = [(t.nat(), t.nat()) for _ in range(k2)]
    return dict(status='file', nhdr=nh, written=wr, read=rd)


# ----------------------------------------------------------------------------- kind: fit

ARCSEC = {'arcsec': 1., 'arcmin': 60., 'deg': 3600.}
SPELLINGS = ['abs', 'abs_trailing', 'abs_dotdot', 'abs_dslash', 'rel', 'rel_dot', 'rel_trailing', 'rel_dotdot']


def spell_dir(d, how):
    """(directory to chdir into or None, the way the directory `d` is written down).  Relative spellings are
    relative to the parent of `d`; the non-normalised ones carry a trailing slash, a `..` or a double slash."""
    parent, base = os.path.split(d)
    return {'abs': (None, d),
            'abs_trailing': (None, d + '/'),
            'abs_dotdot': (None, d + '/../' + base),
            'abs_dslash': (None, parent + '//' + base),
            'rel': (parent, base),
            'rel_dot': (parent, './' + base),
            'rel_trailing': (parent, base + '/'),
            'rel_dotdot': (parent, base + '/../' + base)}[how]


def spelling_branches(how):
    b = {'model_dir_relative' if how.startswith('rel') else 'model_dir_absolute'}
    if how not in ('abs', 'rel'):
        b.add('model_dir_unnormalised')
    return b


def run_fit_case(case, use_model=True):
    """the base fit() call of the case and then its follow-up calls, all in this process on ONE package"""
    pkg = case['pkg']
    d = tempfile.mkdtemp(prefix='c10f_')
    branches = set()
    cwd0 = os.getcwd()
    try:
        fnames, ext = build_pkg(pkg, d, full=False)
        # model directory, data file and output file as the user writes them: absolute, relative to the
        # working directory, normalised or not
        how = case.get('dir_spelling', 'abs')
        chd, md = spell_dir(d, how)
        if chd:
            os.chdir(chd)
        branches |= spelling_branches(how)
        base = dict(n_min=case['n_min'], sel=case['sel'], conv=case['conv'])
        calls = [base]
        for fu in case.get('followups', []):
            cp = dict(base)
            cp.update(fu)
            calls.append(cp)
        first = None
        n_done = 0
        for ci, cp in enumerate(calls):
            r = one_fit_call(case, cp, ci, md, fnames, ext, use_model, branches)
            if r is None:
                continue                      # this follow-up has no eligible source: nothing is claimed
            if not r.ok:
                if ci:
                    r.detail = ('fit() call %d of %d on the same package in one process (%s; earlier calls: %r): '
                                % (ci + 1, len(calls), _short(cp, 300), [_short(c, 200) for c in calls[:ci]])) + r.detail
                return r
            n_done += 1
            if first is None:
                first = r
            if ci:
                branches.add('refit_' + cp.get('kind', 'same'))
        if first is None:
            return CaseResult(True, detail='outside the quantifier (no eligible source)', nontrivial=False,
                              key=common.canon_hash(case))
        if n_done > 1:
            branches.add('consecutive_fits')
        first.branches = sorted(branches)
        if first.sample is not None:
            first.sample['fit_calls'] = n_done
        return first
    finally:
        os.chdir(cwd0)
        shutil.rmtree(d, ignore_errors=True)


def one_fit_call(case, cp, ci, d, fnames_all, ext, use_model, branches):
    """one fit() call (parameters `cp`) -> read back -> compared with a NEW Fitter's results for these very
    arguments, record by record, and with the header these arguments imply.  None when no line is eligible."""
    from sedfitter.source import Source
    pkg = case['pkg']
    if True:
        aps_q, dist_q, av, idx = call_quantities(pkg, cp)
        fnames = [fnames_all[j] for j in idx]
        srcs = case['sources']
        if cp.get('subset'):
            srcs = [dict(s, flags=[s['flags'][j] for j in idx], flux=[s['flux'][j] for j in idx],
                         err=[s['err'][j] for j in idx]) for s in srcs]
        lines = [source_line(s) for s in srcs]
        data = os.path.join(d, 'data%d.txt' % ci)
        out = os.path.join(d, 'out%d.fitinfo' % ci)
        write_data(data, lines, case['ending'])
        n_min, sel, conv = cp['n_min'], cp['sel'], cp['conv']
        nds = [sum(1 for f in s['flags'] if f in (1, 4)) for s in srcs]
        elig = [i for i, n in enumerate(nds) if n >= n_min]
        if not elig:
            return None
        # ---- implementation
        try:
            run_fit(pkg, d, fnames_all, ext, data, out, n_min, sel, conv, data_as=case.get('data_as', 'path'), cp=cp)
            meta, recs = read_fit_file(out)
        except Exception as e:
            return CaseResult(False, violates=True, branches=branches,
                              detail='fit()/FitInfoFile raised %s: %s on %d lines, n_data=%r, n_data_min=%d, selector=%r'
                                     % (type(e).__name__, e, len(lines), nds, n_min, sel))
        # ---- the property's right-hand side: object interface on the same lines
        fitter = make_expected_fitter(pkg, d, fnames_all, ext, cp)
        exp = []
        for i in elig:
            s = Source.from_ascii(lines[i])
            with common.quiet():
                info = fitter.fit(s)
            if not conv:
                info.model_fluxes = None
            info.keep((sel[0], sel[1]))
            exp.append(info)
        got_names = [r.source.name for r in recs]
        exp_names = [srcs[i]['name'] for i in elig]
        setting = ('n_data per line=%r n_data_min=%d selector=%r output_convolved=%r ending=%s apertures=%s distance_range=%s av_range=%r'
                   % (nds, n_min, sel, conv, case['ending'], aps_q, dist_q, av))
        if got_names != exp_names:
            return CaseResult(False, violates=True, branches=branches,
                              detail='records in the file: %r; eligible lines in input order: %r; %s' % (got_names, exp_names, setting))
        for r, e in zip(recs, exp):
            dd = diff_info(r, e)
            if dd:
                return CaseResult(False, violates=True, branches=branches,
                                  detail='record of %s differs from Fitter.fit+keep: %s; %s' % (e.source.name, dd, setting))
            if (r.model_fluxes is None) != (not conv):
                return CaseResult(False, violates=True, branches=branches,
                                  detail='record of %s: predicted fluxes present=%r but output_convolved=%r'
                                         % (e.source.name, r.model_fluxes is not None, conv))
        aps_arcsec = [pkg['aps'][j] * ARCSEC[cp.get('aps_unit', 'arcsec')] for j in idx]
        dm = diff_meta(meta, d, fnames, aps_arcsec, [pkg['wavs'][j] for j in idx], ext)
        if not dm and exp:
            # exactly the metadata the object interface attaches (filter wavelengths / apertures / law: units and values)
            dm = meta_diff_by_value(meta, exp[0].meta)
        if dm:
            return CaseResult(False, violates=True, branches=branches, detail='metadata read back differs from the arguments of this call: ' + dm + '; ' + setting)
        for r in recs:
            dmv = meta_diff_by_value(r.meta, meta)
            if dmv:
                return CaseResult(False, violates=True, branches=branches,
                                  detail='record %s does not carry the shared metadata: %s' % (r.source.name, dmv))
        # ---- model
        if use_model:
            toks = [str(n) for n in nds]
            if case['ending'] in ('blank_line', 'spaces_line'):
                toks.append('e')
            m = ask_records(n_min, conv, toks)
            if m['status'] != 'file' or m['nhdr'] != 1 or m['written'] != m['read']:
                return CaseResult(False, detail='model: %r' % (m,), branches=branches)
            if [i for i, _ in m['read']] != elig or any(fl != (1 if conv else 0) for _, fl in m['read']):
                return CaseResult(False, detail='model records %r but eligible lines are %r (conv=%r)' % (m['read'], elig, conv),
                                  branches=branches)
        # ---- branches
        branches.add('ineligible_skipped' if len(elig) < len(nds) else 'all_eligible')
        if n_min == 0:
            branches.add('nmin_zero')
        branches.add('conv_yes' if conv else 'conv_no')
        branches.add('sel_' + sel[0])
        branches.add({'eof_newline': 'end_eof_newline', 'eof_no_newline': 'end_eof_no_newline'}.get(case['ending'], 'end_blank_line'))
        if any(r.n_fits == 0 for r in recs):
            branches.add('record_zero_fits')
        if any(nds[i] < 2 for i in elig):
            branches.add('singular_source_fitted')
        branches.add('pkg_' + pkg.get('variant', 'indep'))
        if any(len(str(n).strip()) > 30 for r in recs for n in np.asarray(r.model_name).tolist()):
            branches.add('long_model_names')
        if pkg.get('variant') == 'cube':
            branches.add('pkg_cube_aperture_dependent' if 'ap_au' in pkg else 'pkg_cube_single_aperture')
        branches |= law_branches(pkg)
        if any(not isinstance(f, str) for f in fnames):
            branches.add('filter_by_wavelength')
        branches.add('data_' + case.get('data_as', 'path'))
        phot = [(tuple(srcs[i]['flags']), tuple(srcs[i]['flux']), tuple(srcs[i]['err'])) for i in elig]
        if len(set(phot)) < len(phot):
            branches.add('duplicate_photometry')
            if any(phot[j] == phot[j + 1] for j in range(len(phot) - 1)):
                branches.add('duplicate_adjacent')
            if any(phot[j] == phot[l] for j in range(len(phot)) for l in range(j + 2, len(phot))):
                branches.add('duplicate_apart')
        sample = dict(kind='fit', package=pkg.get('variant', 'indep'), data_as=case.get('data_as', 'path'), n_lines=len(nds), n_data=nds, n_data_min=n_min, selector=sel, output_convolved=conv,
                      ending=case['ending'], records=got_names, n_fits=[int(r.n_fits) for r in recs])
        return CaseResult(True, branches=branches, key=common.canon_hash(case),
                          nontrivial=(len(elig) < len(nds) or len(elig) > 1), sample=sample)


# ----------------------------------------------------------------------------- kind: rw

def _fl(x):
    return float(x)


def freeze(info):
    """deep copy of everything a record holds, taken at the moment it is handed to write()"""
    import types

    def cp(x):
        return None if x is None else np.array(x, copy=True)
    src = info.source
    return types.SimpleNamespace(
        source=types.SimpleNamespace(name=str(src.name), x=float(src.x), y=float(src.y),
                                     valid=cp(src.valid), flux=cp(src.flux), error=cp(src.error)),
        av=cp(info.av), sc=cp(info.sc), chi2=cp(info.chi2), model_id=cp(info.model_id),
        model_name=cp(info.model_name), model_fluxes=cp(info.model_fluxes), n_fits=int(info.n_fits))


def write_shared(fout, infos, case):
    """write the records to one FitInfoFile; returns the snapshot of each record at write time.
    With case['share'] the records share objects that are changed between the writes:
      source_buffer   one Source instance is re-used for every record (fields re-assigned, or its arrays
                      overwritten in place)
      same_info_keep  the first FitInfo is written, cut with keep(('N', k)), written again, ...
      array_inplace   the first FitInfo (or shallow copies of it, sharing every array and the Source) is
                      written again after its numpy arrays were modified in place"""
    import copy
    from sedfitter.source import Source
    share = case.get('share')
    snaps = []

    def put(info):
        snaps.append(freeze(info))
        fout.write(info)
    if share == 'source_buffer':
        buf = Source()
        for j, info in enumerate(infos):
            src = info.source
            buf.name = src.name
            buf.x = src.x + j
            buf.y = src.y - j
            if case['inplace'] and j > 0:
                buf.valid[:] = src.valid
                buf.flux[:] = src.flux * (j + 1)
                buf.error[:] = src.error * (j + 2)
            else:
                buf.valid = np.array(src.valid)
                buf.flux = np.array(src.flux) * (j + 1)
                buf.error = np.array(src.error) * (j + 2)
            info.source = buf
            put(info)
        return snaps
    if share == 'same_info_keep':
        first = infos[0]
        put(first)
        for kk in case['keeps']:
            first.keep(('N', kk))
            put(first)
        for info in infos[1:]:
            put(info)
        return snaps
    if share == 'array_inplace':
        first = infos[0]
        put(first)
        for t, dl in enumerate(case['deltas']):
            obj = first
            if case['via_copy']:
                obj = copy.copy(first)
                obj.meta = first.meta
            first.chi2[t % len(first.chi2)] += dl
            first.av[:] = first.av + dl
            first.sc[-1] = -dl
            first.model_id[0] = first.model_id[0] + 1
            if first.model_fluxes is not None:
                first.model_fluxes[0, :] -= dl
            first.source.flux[0] = first.source.flux[0] * 2
            first.source.error[:] = first.source.error + dl
            put(obj)
        for info in infos[1:]:
            put(info)
        return snaps
    for info in infos:
        put(info)
    return snaps


def run_rw_case(case, use_model=True):
    from astropy import units as u
    from sedfitter.fit_info import FitInfoFile
    pkg = case['pkg']
    d = tempfile.mkdtemp(prefix='c10w_')
    branches = set()
    try:
        ext = make_law(pkg)
        filters = [{'aperture_arcsec': float(a), 'name': 'B%d' % j, 'wav': w * u.micron}
                   for j, (a, w) in enumerate(zip(pkg['aps'], pkg['wavs']))]
        how = case.get('dir_spelling', 'abs')
        meta = (spell_dir(os.path.join(d, 'models'), how)[1], filters, ext)
        branches |= spelling_branches(how)
        infos = []
        for r in case['recs']:
            nb = len(r['flags'])
            info = pk.make_fitinfo(r['names'], [_fl(c) for c in r['chi2']], av=[_fl(a) for a in r['av']], sc=r['sc'],
                                   flags=r['flags'], source_name=r['name'],
                                   model_fluxes=(np.array(r['fluxes'], dtype=float).reshape(r['n'], nb)
                                                 if r['fluxes'] is not None else None),
                                   sort=r['sort'], meta=meta)
            infos.append(info)
        path = os.path.join(d, 'rw.fitinfo')
        share = case.get('share')
        try:
            fout = FitInfoFile(path, 'w')
            written = write_shared(fout, infos, case)     # snapshots taken at the moment of each write
            fout.close()
            rmeta, recs = read_fit_file(path)
        except Exception as e:
            return CaseResult(False, violates=True,
                              detail='write/read of %d records raised %s: %s' % (len(infos), type(e).__name__, e))
        infos = written
        how = '' if not share else ' (objects shared between the records and changed between the writes: %s)' % share
        if len(recs) != len(infos):
            return CaseResult(False, violates=True, detail='%d records written, %d read back%s' % (len(infos), len(recs), how))
        for ri, (r, e) in enumerate(zip(recs, infos)):
            dd = diff_info(r, e)
            if dd:
                return CaseResult(False, violates=True,
                                  detail='record %d (%s) read back differs from the object as it was when written%s: %s'
                                         % (ri, e.source.name, how, dd))
        dm = diff_meta(rmeta, meta[0], ['B%d' % j for j in range(len(filters))], pkg['aps'], pkg['wavs'], ext)
        if dm:
            return CaseResult(False, violates=True, detail='metadata changed in write->read: ' + dm)
        if use_model:
            m = ask_records(0, 1, ['3'] * len(infos))
            if m['status'] != 'file' or m['nhdr'] != 1 or [i for i, _ in m['read']] != list(range(len(infos))):
                return CaseResult(False, detail='model: %r' % (m,))
        allchi = [c for r in case['recs'] for c in r['chi2']]
        if 'nan' in allchi:
            branches.add('rw_nan')
        if 'inf' in allchi or '-inf' in allchi:
            branches.add('rw_inf')
        if any(r['n'] == 0 for r in case['recs']):
            branches.add('rw_zero_fits')
        branches.add('rw_fluxes' if any(r['fluxes'] is not None for r in case['recs']) else 'rw_no_fluxes')
        if share:
            branches.add('rw_share_' + share)
        if any(len(n) > 30 for r in case['recs'] for n in r['names']):
            branches.add('long_model_names')
        branches |= law_branches(pkg)
        if any(r['fluxes'] is None for r in case['recs']):
            branches.add('rw_no_fluxes')
        sample = dict(kind='rw', n_records=len(infos), share=share, chi2=[r['chi2'] for r in case['recs']][:3])
        return CaseResult(True, branches=branches, key=common.canon_hash(case), nontrivial=True, sample=sample)
    finally:
        shutil.rmtree(d, ignore_errors=True)


# ----------------------------------------------------------------------------- kind: hist

def _h(hh, x):
    if x is None:
        hh.update(b'<None>')
        return
    try:
        unit = str(x.unit)
    except AttributeError:
        unit = ''
    a = np.asarray(x)
    hh.update(('%s|%s|%s|%s|' % (type(x).__name__, a.dtype, a.shape, unit)).encode())
    hh.update(repr(a.tolist()).encode() if a.dtype == object else np.ascontiguousarray(a).tobytes())


def snapshot(info):
    """deep digest of one FitInfo: every array (type, dtype, shape, unit, bytes), n_fits, source, metadata"""
    hh = hashlib.sha256()
    for f in ('av', 'sc', 'chi2', 'model_id', 'model_name', 'model_fluxes'):
        _h(hh, getattr(info, f))
    hh.update(('n_fits=%d|' % info.n_fits).encode())
    s = info.source
    hh.update(('%r|%r|%r|' % (s.name, float(s.x), float(s.y))).encode())
    for f in ('valid', 'flux', 'error'):
        _h(hh, getattr(s, f))
    m = info.meta
    hh.update(repr(m.model_dir).encode())
    for f in m.filters:
        hh.update(repr(sorted((k, str(v)) for k, v in f.items())).encode())
    _h(hh, m.extinction_law.wav)
    _h(hh, m.extinction_law.chi)
    return hh.hexdigest() + ':%d' % info.n_fits


def file_digest(path):
    with open(path, 'rb') as f:
        return hashlib.sha256(f.read()).hexdigest()


def n_keep(sel, chi2, n_data):
    """number of rows `keep(sel)` leaves on a record with finite chi2 sorted increasingly"""
    form, num = sel
    n = len(chi2)
    if n == 0:
        return 0
    if form == 'A':
        return n
    if form == 'N':
        return min(int(num), n)
    if form == 'C':
        return int(np.sum(chi2 <= num))
    if form == 'D':
        return int(np.sum(chi2 - chi2[0] <= num))
    if form == 'E':
        return int(np.sum(chi2 / n_data <= num))
    if form == 'F':
        return int(np.sum((chi2 - chi2[0]) / n_data <= num))
    raise ValueError(form)


def canon_rec(info):
    hh = hashlib.sha256()
    for f in ('av', 'sc', 'chi2', 'model_id', 'model_fluxes'):
        x = getattr(info, f)
        _h(hh, None if x is None else np.asarray(x, dtype=float))
    return [info.source.name, [str(n).strip() for n in np.asarray(info.model_name).tolist()], hh.hexdigest()]


def do_call(call, inp, workdir, tag, additional=None):
    """run one post-processing call; returns (canonical output for cross-form comparison,
    view = list of (source name, model names or None, n_rows or None) for the model, or ('x', exception name))"""
    import sedfitter
    op, arg = call
    add = {} if additional is None else additional
    try:
        with common.quiet():
            if op in ('wp', 'wr'):
                path = os.path.join(workdir, '%s_%s.txt' % (op, tag))
                fn = sedfitter.write_parameters if op == 'wp' else sedfitter.write_parameter_ranges
                fn(inp, path, select_format=(arg[0], arg[1]), additional=add)
                text = open(path).read()
                return text, (parse_wp(text) if op == 'wp' else parse_wr(text))
            if op == 'ex':
                sub = os.path.join(workdir, 'ex_%s' % tag)
                os.makedirs(sub)
                sedfitter.extract_parameters(input=inp, output_prefix=sub + '/x_', select_format=(arg[0], arg[1]))
                files = {f: open(os.path.join(sub, f)).read() for f in sorted(os.listdir(sub))}
                return files, parse_ex(files)
            if op in ('pl', 'pc'):
                figs = sedfitter.plot(inp, output_dir=None, select_format=(arg[0], arg[1]), show_convolved=(op == 'pc'))
                canon = {}
                view = []
                for name in figs:
                    segs = figs[name]['lines'].get_segments() if 'lines' in figs[name] else []
                    hh = hashlib.sha256()
                    for sg in segs:
                        _h(hh, np.asarray(sg, dtype=float))
                    canon[name] = [len(segs), hh.hexdigest()]
                    view.append((name, None, len(segs)))
                return canon, ('dict', view)
            if op in ('p1', 'p2'):
                # always a fresh output directory (io.create_dir prompts when it exists)
                sub = os.path.join(workdir, '%s_%s' % (op, tag))
                if op == 'p1':
                    sedfitter.plot_params_1d(inp, 'PAR1', output_dir=sub, select_format=(arg[0], arg[1]), log_x=True,
                                             additional=add, format='png', dpi=30, bins=8)
                else:
                    sedfitter.plot_params_2d(inp, 'PAR1', 'PAR2', output_dir=sub, select_format=(arg[0], arg[1]),
                                             log_x=True, log_y=True, format='png', dpi=30)
                files = sorted(os.listdir(sub))
                empty = [f for f in files if os.path.getsize(os.path.join(sub, f)) == 0]
                canon = [files, empty]
                return canon, ('dict', [(f[:-4], None, None) for f in files if f.endswith('.png') and f not in empty])
            if op in ('fo', 'fc'):
                g = os.path.join(workdir, 'good_%s' % tag)
                b = os.path.join(workdir, 'bad_%s' % tag)
                if op == 'fo':
                    sedfitter.filter_output(inp, output_good=g, output_bad=b, chi=float(arg))
                else:
                    sedfitter.filter_output(inp, output_good=g, output_bad=b, cpd=float(arg))
                rg = read_fit_file(g)[1]
                rb = read_fit_file(b)[1]
                canon = [[canon_rec(r) for r in rg], [canon_rec(r) for r in rb]]
                return canon, ('split', [(r.source.name, canon_rec(r)[1], r.n_fits) for r in rg],
                               [(r.source.name, canon_rec(r)[1], r.n_fits) for r in rb])
    except Exception as e:   # the model knows one exception: filter_output on a record without fits
        return ('exception', type(e).__name__), ('x', type(e).__name__, str(e)[:200])
    raise ValueError(op)


def parse_wp(text):
    out = []
    for line in text.splitlines()[3:]:
        t = line.split()
        if len(t) == 3:
            out.append((t[0], [], int(t[2])))
        elif len(t) >= 5:
            out[-1][1].append(t[1])
    return ('list', out)


def parse_wr(text):
    out = []
    for line in text.splitlines()[3:]:
        t = line.split()
        if t:
            out.append((t[0], None, int(t[2])))
    return ('list', out)


def parse_ex(files):
    out = []
    for f, text in files.items():
        rows = [l.split() for l in text.splitlines()[1:] if l.strip()]
        out.append((f[2:], [r[3] for r in rows], len(rows)))
    return ('dict', out)


def model_history(objs, calls):
    """driver `history` in copy mode (two-level heap: objects -> attribute cells).
    objs: [(n_rows, best chi2, best chi2 per data point)], calls: [(op, arg, input tokens)]"""
    line = ['history', 'copy', str(len(objs))]
    for n, b, c in objs:
        line += [str(n), rat(b), rat(c)]
    line.append(str(len(calls)))
    for op, arg, inp in calls:
        line.append(op)
        if op in ('fo', 'fc'):
            line.append(rat(arg))
        else:
            line += [str(len(arg))] + [str(k) for k in arg]
        line += inp
    t = common.driver().ask(' '.join(line))
    outs = []

    def views():
        n = t.nat()
        vs = []
        for _ in range(n):
            src = t.nat()
            vs.append((src, t.nats()))
        return vs
    for _ in calls:
        tag = t.tok()
        if tag == 'p':
            outs.append(('p', views()))
        elif tag == 's':
            g = views()
            b = views()
            outs.append(('s', g, b))
        else:
            outs.append(('x', t.tok()))
    if t.tok() != 'heap':
        raise common.DriverError('history: expected heap')
    n = t.nat()
    heap = []
    for _ in range(n):
        k = t.tok()
        heap.append(None if k == '-1' else [t.nat() for _ in range(int(k))])
    if t.tok() != 'cells':
        raise common.DriverError('history: expected cells')
    cells_same = t.nat()
    if t.tok() != 'objs':
        raise common.DriverError('history: expected objs')
    objs_same = t.nat()
    if not (cells_same and objs_same):
        heap = ('changed', cells_same, objs_same, heap)     # the model itself saw the caller's arrays / objects change
    return outs, heap


def view_matches(view, mout, objs_names, src_index):
    """compare the parsed output of one real call with the model's output of the same call"""
    if view[0] == 'x':
        return mout[0] == 'x' and view[1] == 'IndexError' and mout[1] == 'noFits'
    if mout[0] == 'x':
        return False

    def conv(entries):
        res = []
        for name, mnames, n in entries:
            i = src_index.get(name)
            if i is None:
                return None
            rows = None if mnames is None else [objs_names[i].index(m) if m in objs_names[i] else -1 for m in mnames]
            res.append((i, rows, n))
        return res

    def same(entries, mviews, ordered):
        ent = conv(entries)
        if ent is None or len(ent) != len(mviews):
            return False
        if not ordered:
            ent = sorted(ent, key=lambda e: e[0])
            mviews = sorted(mviews, key=lambda e: e[0])
        for (i, rows, n), (mi, mrows) in zip(ent, mviews):
            if i != mi or (n is not None and n != len(mrows)) or (rows is not None and rows != mrows):
                return False
        return True
    if view[0] == 'split':
        return mout[0] == 's' and same(view[1], mout[1], True) and same(view[2], mout[2], True)
    return mout[0] == 'p' and same(view[1], mout[1], view[0] == 'list')


def hist_sequences(case):
    if 'exhaustive_first' in case:
        n = len(case['alphabet'])
        f = case['exhaustive_first']
        seqs = [[f]] + [[f, a] for a in range(n)] + [[f, a, b] for a in range(n) for b in range(n)]
        return seqs
    return case['seqs']


def run_hist_case(case, use_model=True):
    from sedfitter.source import Source
    from sedfitter.fit_info import FitInfoFile
    pkg = case['pkg']
    d = tempfile.mkdtemp(prefix='c10h_')
    branches = set()
    cwd0 = os.getcwd()
    try:
        fnames, ext = build_pkg(pkg, d, full=True)
        how = case.get('dir_spelling', 'abs')
        chd, md = spell_dir(d, how)
        if chd:
            os.chdir(chd)
        branches |= spelling_branches(how)
        lines = [source_line(s) for s in case['sources']]
        data = os.path.join(md, 'data.txt')
        out = os.path.join(md, 'out.fitinfo')
        write_data(data, lines, 'eof_newline')
        sel0 = case['out_sel']
        try:
            run_fit(pkg, md, fnames, ext, data, out, 3, sel0, case['conv'])
            hmeta, from_file = read_fit_file(out)
        except Exception as e:
            return CaseResult(False, violates=True, detail='fit()/read raised %s: %s' % (type(e).__name__, e))
        if hmeta is not None:
            dm = diff_meta(hmeta, md, fnames, pkg['aps'], pkg['wavs'], ext)
            if dm:
                return CaseResult(False, violates=True, detail='metadata read back changed: ' + dm)
        branches |= law_branches(pkg)
        k = len(case['sources'])
        if len(from_file) != k:
            return CaseResult(False, violates=True, detail='fit() wrote %d records for %d eligible sources' % (len(from_file), k))
        if case['mem_from'] == 'fit':
            fitter = pk.make_fitter(md, fnames, pkg['aps'], ext, pkg['av'], pkg['dist'], use_memmap=False)
            objs = []
            for l in lines:
                with common.quiet():
                    info = fitter.fit(Source.from_ascii(l))
                if not case['conv']:
                    info.model_fluxes = None
                info.keep((sel0[0], sel0[1]))
                objs.append(info)
        else:
            objs = from_file
        branches.add('mem_from_' + case['mem_from'])
        if any(ch in o.source.name for o in objs for ch in ':?*"<>|\\'):
            branches.add('special_source_name')
        chi2s = [np.asarray(o.chi2, dtype=float) for o in objs]
        if not all(np.all(np.isfinite(c)) and np.all(np.diff(c) >= 0) for c in chi2s):
            return CaseResult(True, detail='chi2 not finite/sorted: outside the reduction to keep-first-k',
                              nontrivial=False, key=common.canon_hash(case))
        nds = [int(o.source.n_data) for o in objs]
        obj_names = [[str(n).strip() for n in np.asarray(o.model_name).tolist()] for o in objs]
        src_index = {o.source.name: i for i, o in enumerate(objs)}
        # best chi2 and best chi2 per data point, the latter with filter_output's own arithmetic (one float division)
        mobjs = [(len(c), float(c[0]) if len(c) else 0., float(c[0]) / float(nd) if len(c) else 0.)
                 for c, nd in zip(chi2s, nds)]
        additional = None
        if case.get('additional'):
            additional = {'EXTRA': {n: float(j) + 0.5 for j, n in enumerate(pkg['names'])}}
            branches.add('additional')
        # groups of records and the forms they are handed over in
        groups = [list(range(k))]
        if k > 1 and not case.get('pp'):      # (figure-writing cases: the whole result only; obj form comes from k = 1)
            groups.append([0])
        single = os.path.join(d, 'single.fitinfo')
        if k > 1:
            fo = FitInfoFile(single, 'w')
            fo.write(objs[0])
            fo.close()
        snaps0 = [snapshot(o) for o in objs]
        files0 = {p: file_digest(p) for p in ([out, single] if k > 1 else [out])}
        alphabet = case['alphabet']
        seqs = hist_sequences(case)
        n_calls = 0
        cuts = False
        work = os.path.join(d, 'work')
        for si, seq in enumerate(seqs):
            calls = [alphabet[a] for a in seq]
            if len(calls) == 3:
                branches.add('seq_len3')
            for g in groups:
                forms = [('file', out if len(g) == k else single, ['file', str(len(g))] + [str(i) for i in g]),
                         ('list', [objs[i] for i in g], ['list', str(len(g))] + [str(i) for i in g])]
                if len(g) == 1:
                    forms.append(('obj', objs[g[0]], ['obj', str(g[0])]))
                results = {}
                for fname, inp, mtoks in forms:
                    shutil.rmtree(work, ignore_errors=True)
                    os.makedirs(work)
                    outs, views = [], []
                    for ci, call in enumerate(calls):
                        canon, view = do_call(call, inp, work, '%d' % ci, additional)
                        n_calls += 1
                        outs.append(canon)
                        views.append(view)
                        now = [snapshot(o) for o in objs]
                        if now != snaps0:
                            bad = [i for i in range(k) if now[i] != snaps0[i]]
                            return CaseResult(False, violates=True, branches=branches,
                                              detail='caller object(s) %r changed by call %d of sequence %r (input form %s, records %r): '
                                                     'n_fits before %r, after %r; digests before %r after %r'
                                                     % (bad, ci, calls, fname, g, [s.split(':')[1] for s in snaps0],
                                                        [s.split(':')[1] for s in now], [snaps0[i][:12] for i in bad], [now[i][:12] for i in bad]))
                        for p, dg in files0.items():
                            if file_digest(p) != dg:
                                return CaseResult(False, violates=True, branches=branches,
                                                  detail='input file %s changed by call %d of sequence %r (form %s)' % (os.path.basename(p), ci, calls, fname))
                    results[fname] = (outs, views)
                    branches.add('form_' + fname)
                # ---- interchangeable: identical outputs across forms
                ref_name = forms[0][0]
                for fname, _, _ in forms[1:]:
                    for ci, call in enumerate(calls):
                        if results[fname][0][ci] != results[ref_name][0][ci]:
                            return CaseResult(False, violates=True, branches=branches,
                                              detail='call %d (%r) of sequence %r on records %r: output with input form %s differs from form %s:\n%s: %s\n%s: %s'
                                                     % (ci, call, calls, g, fname, ref_name, fname, _short(results[fname][0][ci]),
                                                        ref_name, _short(results[ref_name][0][ci])))
                # ---- an exception is only expected from filter_output on a record without fits
                for ci, call in enumerate(calls):
                    v = results[ref_name][1][ci]
                    if v[0] == 'x' and not (call[0] in ('fo', 'fc') and v[1] == 'IndexError' and any(mobjs[i][0] == 0 for i in g)):
                        return CaseResult(False, violates=True, branches=branches,
                                          detail='call %d (%r) of sequence %r raised %s: %s (all input forms alike)' % (ci, call, calls, v[1], v[2]))
                # ---- model
                mcalls = []
                for call in calls:
                    if call[0] in ('fo', 'fc'):
                        mcalls.append((call[0], call[1], None))
                    else:
                        ks = [n_keep(call[1], chi2s[i], nds[i]) for i in range(k)]
                        if any(ks[i] < len(chi2s[i]) for i in g):
                            cuts = True
                        mcalls.append(('pl' if call[0] == 'pc' else call[0], ks, None))
                    branches.add('op_' + call[0])
                if use_model:
                    for fname, _, mtoks in forms:
                        mouts, mheap = model_history(mobjs, [(op, arg, mtoks) for op, arg, _ in mcalls])
                        if mheap != [list(range(m[0])) for m in mobjs]:
                            return CaseResult(False, branches=branches, detail='model heap after %r: %r' % (calls, mheap))
                        for ci, call in enumerate(calls):
                            if not view_matches(results[fname][1][ci], mouts[ci], obj_names, src_index):
                                return CaseResult(False, branches=branches,
                                                  detail='call %d (%r) of sequence %r, form %s, records %r: implementation printed %s; model %s'
                                                         % (ci, call, calls, fname, g, _short(results[fname][1][ci]), _short(mouts[ci])))
                for ci, call in enumerate(calls):
                    v = results[ref_name][1][ci]
                    if v[0] == 'split':
                        if v[1]:
                            branches.add('filter_good')
                        if v[2]:
                            branches.add('filter_bad')
        if cuts:
            branches.add('keep_cuts')
        sample = dict(kind='hist', n_records=k, n_fits=[m[0] for m in mobjs], mem_from=case['mem_from'],
                      n_sequences=len(seqs), n_calls=n_calls, first_sequence=[alphabet[a] for a in seqs[0]],
                      exhaustive_first=case.get('exhaustive_first'))
        key = common.canon_hash(case)
        return CaseResult(True, branches=branches, key=key, nontrivial=cuts, sample=sample)
    finally:
        os.chdir(cwd0)
        shutil.rmtree(d, ignore_errors=True)


def _short(x, n=700):
    s = repr(x)
    return s if len(s) <= n else s[:n] + '…'


# ----------------------------------------------------------------------------- entry points

def run_case(case, use_model=True):
    with np.errstate(all='ignore'):
        if case['kind'] == 'fit':
            return run_fit_case(case, use_model)
        if case['kind'] == 'rw':
            return run_rw_case(case, use_model)
        return run_hist_case(case, use_model)


def search(seed, tier, disagreeing_cases):
    """falsifier: the property evaluated on the real code alone (file vs object interface, before/after
    digests, form against form) — on the disagreeing cases first, then on a fresh directed sweep"""
    found = []
    tried = 0
    sweep = []
    for i in range(40):
        rng = case_rng(seed, PID + '/search', i)
        sweep.append(gen_fit_case(rng) if i % 3 == 0 else gen_hist_case(rng, 'quick') if i % 3 == 1 else gen_rw_case(rng))
    for case in list(disagreeing_cases) + sweep:
        tried += 1
        try:
            r = run_case(case, use_model=False)
        except Exception as e:
            continue
        if not r.ok and r.violates:
            found.append((case, r.detail))
            if len(found) >= 3:
                break
    return found, tried


def shrink(case):
    def fails(c):
        try:
            r = run_case(c, use_model=False)
            return (not r.ok) and bool(r.violates)
        except Exception:
            return False
    cur = case
    if case['kind'] == 'fit':
        changed = True
        while changed and len(cur['sources']) > 1:
            changed = False
            for i in range(len(cur['sources'])):
                c = dict(cur)
                c['sources'] = cur['sources'][:i] + cur['sources'][i + 1:]
                if c['sources'] and fails(c):
                    cur = c
                    changed = True
                    break
    elif case['kind'] == 'hist':
        seqs = hist_sequences(cur)
        for s in sorted(seqs, key=len):
            c = dict(cur)
            c.pop('exhaustive_first', None)
            c['seqs'] = [s]
            if fails(c):
                cur = c
                for j in range(len(s)):
                    c2 = dict(cur)
                    c2['seqs'] = [s[:j] + s[j + 1:]]
                    if c2['seqs'][0] and fails(c2):
                        cur = c2
                        break
                break
    elif case['kind'] == 'rw':
        for i in range(len(cur['recs'])):
            c = dict(cur)
            c['recs'] = [cur['recs'][i]]
            if fails(c):
                cur = c
                break
    return cur
