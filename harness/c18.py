"""C18 — filter_output splits sources into two complete, disjoint, faithful files.

Real side: `filter_output(input, output_good=…, output_bad=…, chi=… | cpd=…)` with the input given as a
file written by `FitInfoFile(path, 'w').write(info)` or as a list of FitInfo objects; both output files
are read back with `FitInfoFile(path, 'r')` (a zero-byte file — no record was written — raises EOFError
on open and is read as "no records").
Model side: driver op `partition` (= `filterOutput` of Model/Partition.lean over EF Rat).
Histories: 1..3 successive `filter_output` calls on the same input with the SAME output paths
(explicit, automatic, or one explicit + one automatic name) and different thresholds / criteria, including later calls that send
every source to one side; after EACH call both files must hold exactly the partition for THAT call.
Property side (independent of the model): every source in exactly one file, input order kept inside
each file, records equal field by field to the input records, good iff best chi² (per fitted point)
is below the threshold.
"""
import itertools
import math
import os
import shutil
import tempfile

import numpy as np

from . import common
from .common import CaseResult, case_rng, Fraction
from . import packages as pk
from . import ef

PID = 'C18'
RULE = ('cases = 1..10 sources, each a ranked result (1..4 fits, best chi² finite / +inf / NaN) with a flag vector '
        'holding >= 1 fitted point; one criterion (chi= or cpd=) whose threshold differs from every best value; '
        'output names explicit or automatic, independently for the two files (good explicit + bad automatic and the '
        'reverse included, file input); input as file or as list of FitInfo; 1..3 successive calls re-using the '
        'same output paths with different thresholds / criteria (histories).  Non-trivial: >= 2 sources. '
        'Distinct = distinct canonical hash of the case')
REQUIRED_BRANCHES = ['chi', 'cpd', 'auto_names', 'explicit_names', 'input_file', 'input_list', 'all_good', 'all_bad',
                     'mixed', 'empty_output_file', 'best_inf', 'best_nan', 'flags_non_fitted', 'one_source', 'ten_sources',
                     'with_fluxes', 'no_fluxes', 'history', 'rerun_all_good_after_mixed', 'rerun_all_bad_after_mixed',
                     'rerun_other_criterion', 'rerun_auto_names', 'rerun_explicit_names',
                     'good_explicit_names', 'bad_explicit_names', 'rerun_good_explicit_names', 'rerun_bad_explicit_names']
ASSUMPTIONS = ['thresholds are kept at least 1e-6 (relative) away from every best chi² / best chi² per point, so rounding of '
               'chi2[0] / n_data cannot change a comparison',
               'every record has at least one fit and n_data >= 1 (the property\'s domain)',
               'pickle round trip of a record is observed, not modelled']
EXHAUSTIVE = {'quick': False, 'thorough': True}
N = {'quick': 260, 'thorough': 2500}
META = ('/models/dir', ['F0', 'F1'], None)
# how the two output files are named: both automatic (<input>_good / <input>_bad), both explicit, or one of each
NAME_MODES = ['auto', 'explicit', 'good_explicit', 'bad_explicit']


# ----------------------------------------------------------------------------- generation

def n_data_of(flags):
    return sum(1 for f in flags if f in (1, 4))


def crit(src, kind):
    c0 = ef.unjs(src['chi2'][0])
    return c0 if kind == 'chi' else c0 / n_data_of(src['flags'])


def gen_source(rng, best=None):
    nfits = rng.randint(1, 4)
    if best is None:
        u = rng.random()
        best = ef.INF if u < 0.07 else ef.NAN if u < 0.12 else float('%.3g' % (10 ** rng.uniform(-1, 2.5)))
    chi2 = [best]
    for _ in range(nfits - 1):
        last = chi2[-1]
        if math.isnan(last):
            chi2.append(ef.NAN)
        elif last == ef.INF:
            chi2.append(rng.choice([ef.INF, ef.NAN]))
        else:
            chi2.append(rng.choice([last, float('%.3g' % (last + 10 ** rng.uniform(-1, 2))), ef.INF]))
    nb = rng.randint(1, 6)
    flags = [rng.choice([0, 1, 1, 2, 3, 4, 9]) for _ in range(nb)]
    if n_data_of(flags) == 0:
        flags[rng.randrange(nb)] = rng.choice([1, 4])
    return dict(chi2=[ef.js(c) for c in chi2], flags=flags, fluxes=rng.random() < 0.5)


def pick_threshold(rng, sources, kind, want=None):
    """a threshold that differs from every attained value; want = 'all_good' | 'all_bad' | None"""
    vals = sorted({crit(s, kind) for s in sources if math.isfinite(crit(s, kind))})
    for _ in range(100):
        if not vals:
            v = float('%.3g' % (10 ** rng.uniform(-1, 2)))
        elif want == 'all_good':
            v = float('%.3g' % (vals[-1] * rng.uniform(1.5, 3.) + 1.))
        elif want == 'all_bad':
            v = float('%.3g' % (vals[0] * rng.uniform(0.2, 0.7)))
        else:
            i = rng.randint(0, len(vals))
            lo = vals[i - 1] if i > 0 else vals[0] * 0.3
            hi = vals[i] if i < len(vals) else vals[-1] * 2. + 1.
            v = float('%.4g' % (lo + (hi - lo) * rng.uniform(0.2, 0.8)))
        if v > 0 and all(abs(v - a) > 1e-6 * (1. + abs(v)) for a in vals):
            return v
    return None


def gen_case(rng, nsrc=None, kind=None, names=None, inp=None, want=None, bests=None):
    nsrc = nsrc or rng.randint(1, 10)
    kind = kind or rng.choice(['chi', 'cpd'])
    for _ in range(20):
        sources = [gen_source(rng, None if bests is None else bests[i]) for i in range(nsrc)]
        v = pick_threshold(rng, sources, kind, want)
        if v is not None:
            break
    inp = inp or rng.choice(['file', 'list'])
    names = names or ('explicit' if inp == 'list' else rng.choice(NAME_MODES))
    return dict(sources=sources, kind=kind, v=v, names=names, input=inp)


def add_history(rng, case, wants=None):
    """later calls on the same input and the same output paths: [[kind, v], ...]"""
    more = []
    wants = wants if wants is not None else [rng.choice([None, 'all_good', 'all_bad']) for _ in range(rng.randint(1, 2))]
    for w in wants:
        kind = rng.choice(['chi', 'cpd'])
        v = pick_threshold(rng, case['sources'], kind, w)
        if v is not None:
            more.append([kind, v])
    case['more'] = more
    return case


def pattern_case(rng, pattern, kind):
    """sources whose good/bad pattern is prescribed (True = good)"""
    v = float('%.3g' % (10 ** rng.uniform(0, 1.5)))
    sources = []
    for g in pattern:
        s = gen_source(rng, 1.)
        nd = n_data_of(s['flags'])
        target = v * (rng.uniform(0.2, 0.8) if g else rng.uniform(1.3, 4.))
        best = float('%.3g' % (target if kind == 'chi' else target * nd))
        if not g and rng.random() < 0.15:
            best = rng.choice([ef.INF, ef.NAN])
        rest = [ef.unjs(c) for c in s['chi2'][1:]]
        chi2 = [best] + [c if (math.isnan(c) or c >= best) else best for c in rest]
        if math.isnan(best):
            chi2 = [ef.NAN] * len(chi2)
        chi2.sort(key=ef.sort_key)
        s['chi2'] = [ef.js(c) for c in chi2]
        sources.append(s)
    inp = rng.choice(['file', 'list'])
    c = dict(sources=sources, kind=kind, v=v, names='explicit' if inp == 'list' else rng.choice(NAME_MODES),
             input=inp)
    if rng.random() < 0.5:
        add_history(rng, c, [rng.choice(['all_good', 'all_bad'])])
    return c


def gen_cases(seed, tier):
    # directed block
    r = lambda i: case_rng(seed, PID, 'directed-%d' % i)
    yield gen_case(r(0), nsrc=1, kind='chi', names='auto', inp='file')
    yield gen_case(r(1), nsrc=10, kind='cpd', names='explicit', inp='list')
    yield gen_case(r(2), nsrc=4, kind='chi', names='explicit', inp='file', want='all_good')
    yield gen_case(r(3), nsrc=4, kind='cpd', names='auto', inp='file', want='all_bad')
    yield gen_case(r(4), nsrc=5, kind='cpd', inp='list', bests=[3., ef.INF, 1., ef.NAN, 20.])
    yield gen_case(r(5), nsrc=5, kind='chi', inp='file', bests=[3., ef.INF, 1., ef.NAN, 20.])
    # histories: the same output paths are written again by a later call that leaves one side empty
    mixed = [2., 30., 4., 50.]
    yield add_history(r(6), dict(gen_case(r(6), nsrc=4, kind='chi', names='auto', inp='file', bests=mixed), v=10.), ['all_good'])
    yield add_history(r(7), dict(gen_case(r(7), nsrc=4, kind='chi', names='auto', inp='file', bests=mixed), v=10.), ['all_bad'])
    yield add_history(r(8), dict(gen_case(r(8), nsrc=4, kind='chi', names='explicit', inp='file', bests=mixed), v=10.), ['all_good', 'all_bad'])
    yield add_history(r(9), dict(gen_case(r(9), nsrc=4, kind='chi', names='explicit', inp='list', bests=mixed), v=10.), ['all_bad', 'all_good'])
    yield add_history(r(10), dict(gen_case(r(10), nsrc=6, kind='cpd', names='explicit', inp='list')), [None, None])
    # one explicit and one automatic name
    yield gen_case(r(11), nsrc=4, kind='chi', names='good_explicit', inp='file')
    yield gen_case(r(12), nsrc=4, kind='cpd', names='bad_explicit', inp='file')
    yield add_history(r(13), dict(gen_case(r(13), nsrc=4, kind='chi', names='good_explicit', inp='file', bests=mixed), v=10.), ['all_bad', None])
    yield add_history(r(14), dict(gen_case(r(14), nsrc=4, kind='chi', names='bad_explicit', inp='file', bests=mixed), v=10.), ['all_good', None])
    if tier == 'thorough':
        k = 0
        for n in range(1, 7):
            for pattern in itertools.product([True, False], repeat=n):
                for kind in ('chi', 'cpd'):
                    yield pattern_case(case_rng(seed, PID, 'pat-%d' % k), pattern, kind)
                    k += 1
    for i in range(N[tier]):
        rng = case_rng(seed, PID, i)
        c = gen_case(rng)
        if rng.random() < 0.5:
            add_history(rng, c)
        yield c


# ----------------------------------------------------------------------------- one case

def build_infos(case):
    infos = []
    for i, s in enumerate(case['sources']):
        chi2 = [ef.unjs(c) for c in s['chi2']]
        n = len(chi2)
        pay = ef.payload(n, with_fluxes=s['fluxes'], nflux=len(s['flags']), ids=[(7 * i + j) % 11 for j in range(n)])
        pay['av'] = [a + 100 * i for a in pay['av']]
        info = ef.build_info(chi2, pay, flags=s['flags'], source_name='src%02d' % i, meta=META)
        info.source.x = 10. + i
        info.source.y = -5. + i / 8.
        info.source.flux = np.array([1. + i + j / 4. for j in range(len(s['flags']))])
        info.source.error = np.array([0.125 * (j + 1) for j in range(len(s['flags']))])
        infos.append(info)
    return infos


def record_state(info):
    """every pickled field of a record, NaN-aware comparable"""
    a = pk.fit_arrays(info)
    s = info.source
    return dict(name=str(s.name), x=float(s.x), y=float(s.y), valid=[int(v) for v in s.valid],
                flux=[float(v) for v in s.flux], error=[float(v) for v in s.error],
                chi2=[ef.js(c) for c in a['chi2']], av=[float(v) for v in a['av']], sc=[float(v) for v in a['sc']],
                model_name=list(a['name']), model_id=list(a['model_id']),
                model_fluxes=None if a['model_fluxes'] is None else [[float(f) for f in r] for r in a['model_fluxes']])


def read_back(path):
    from sedfitter.fit_info import FitInfoFile
    if not os.path.exists(path):
        return None
    try:
        f = FitInfoFile(path, 'r')
    except EOFError:
        return []                      # zero-byte file: no record was written
    try:
        recs = [record_state(info) for info in f]
        meta = (f.meta.model_dir, f.meta.filters, f.meta.extinction_law)
    finally:
        f.close()
    return recs, meta


def property_side(case):
    """run filter_output and evaluate C18 directly; returns (ok, detail, branches, good_idx, bad_idx)"""
    from sedfitter.fit_info import FitInfoFile
    from sedfitter.filter_output import filter_output
    d = tempfile.mkdtemp(prefix='c18_')
    br = {case['kind'], case['names'] + '_names', 'input_' + case['input']}
    nsrc = len(case['sources'])
    if nsrc == 1:
        br.add('one_source')
    if nsrc == 10:
        br.add('ten_sources')
    for s in case['sources']:
        c0 = ef.unjs(s['chi2'][0])
        if c0 == ef.INF:
            br.add('best_inf')
        if math.isnan(c0):
            br.add('best_nan')
        if any(f not in (1, 4) for f in s['flags']):
            br.add('flags_non_fitted')
        br.add('with_fluxes' if s['fluxes'] else 'no_fluxes')
    try:
        infos = build_infos(case)
        before = [record_state(i) for i in infos]
        path = os.path.join(d, 'input.fitinfo')
        if case['input'] == 'file':
            fout = FitInfoFile(path, 'w')
            for info in infos:
                fout.write(info)
            fout.close()
            arg = path
        else:
            arg = infos
        good_path, bad_path = path + '_good', path + '_bad'
        kw = {}
        if case['names'] in ('explicit', 'good_explicit'):
            good_path = os.path.join(d, 'well.out')
            kw['output_good'] = good_path
        if case['names'] in ('explicit', 'bad_explicit'):
            bad_path = os.path.join(d, 'badly.out')
            kw['output_bad'] = bad_path
        calls = [[case['kind'], case['v']]] + [list(c) for c in case.get('more', [])]
        if len(calls) > 1:
            br.add('history')
        names = [b['name'] for b in before]
        results = []
        prev = None
        for ci, (kind, v) in enumerate(calls):
            br.add(kind)
            ckw = dict(kw)
            ckw[kind] = v
            what = 'call %d of %d: filter_output(%s input of %d sources, %s=%r, %s names%s)' % (
                ci + 1, len(calls), case['input'], nsrc, kind, v, case['names'],
                '' if ci == 0 else '; same output paths as the earlier call(s) %r' % (calls[:ci],))
            try:
                with common.quiet():
                    filter_output(arg, **ckw)
            except Exception as e:
                return False, '%s raised %s: %s' % (what, type(e).__name__, e), br, None, None
            try:
                good = read_back(good_path)
                bad = read_back(bad_path)
            except Exception as e:
                return False, '%s: reading the outputs back raised %s: %s' % (what, type(e).__name__, e), br, None, None
            if good is None or bad is None:
                return (False, '%s: output file missing: good file %s %s, bad file %s %s; files present: %r'
                        % (what, good_path, 'exists' if good is not None else 'MISSING', bad_path,
                           'exists' if bad is not None else 'MISSING', sorted(os.listdir(d))), br, None, None)
            if good == [] or bad == []:
                br.add('empty_output_file')
            grecs, gmeta = good if good else ([], META)
            brecs, bmeta = bad if bad else ([], META)
            if gmeta != META or bmeta != META:
                return False, '%s: header of an output file changed: %r / %r' % (what, gmeta, bmeta), br, None, None
            gi = [names.index(r['name']) if r['name'] in names else -1 for r in grecs]
            bi = [names.index(r['name']) if r['name'] in names else -1 for r in brecs]
            # complete and disjoint
            if sorted(gi + bi) != list(range(nsrc)):
                return (False, '%s: sources in good file %r, in bad file %r; every one of the %d input sources must be in exactly one'
                        % (what, [r['name'] for r in grecs], [r['name'] for r in brecs], nsrc), br, None, None)
            # order
            if gi != sorted(gi) or bi != sorted(bi):
                return False, '%s: input order not preserved: good %r bad %r' % (what, gi, bi), br, None, None
            # unchanged
            for idx, rec in list(zip(gi, grecs)) + list(zip(bi, brecs)):
                if rec != before[idx]:
                    return False, '%s: record of %s changed: written %r, input %r' % (what, names[idx], rec, before[idx]), br, None, None
            # the caller's objects are not touched either (list input)
            after = [record_state(i) for i in infos]
            if after != before:
                return False, '%s: the input FitInfo objects were modified' % what, br, None, None
            # criterion
            want_good = [i for i, s in enumerate(case['sources']) if crit(s, kind) < v]
            if gi != want_good:
                return (False, '%s: good file holds sources %r; sources whose best %s is below the threshold: %r (best values %r)'
                        % (what, gi, 'chi2' if kind == 'chi' else 'chi2 per point', want_good,
                           [ef.js(crit(s, kind)) for s in case['sources']]), br, None, None)
            shape = 'all_good' if len(gi) == nsrc else 'all_bad' if not gi else 'mixed'
            br.add(shape)
            if ci > 0:
                br.add('rerun_%s_names' % case['names'])
                if kind != calls[ci - 1][0]:
                    br.add('rerun_other_criterion')
                if prev == 'mixed' and shape in ('all_good', 'all_bad'):
                    br.add('rerun_%s_after_mixed' % shape)
            prev = shape
            results.append((gi, bi))
        return True, '', br, [r[0] for r in results], [r[1] for r in results]
    finally:
        shutil.rmtree(d, ignore_errors=True)


def model_call(case, kind, v):
    chi = ef.ef_tok(v) if kind == 'chi' else 'none'
    cpd = ef.ef_tok(v) if kind == 'cpd' else 'none'
    line = ['partition', chi, cpd, str(len(case['sources']))]
    for s in case['sources']:
        line += [str(len(s['chi2']))] + [ef.ef_tok(ef.unjs(c)) for c in s['chi2']]
        line += [str(len(s['flags']))] + [str(f) for f in s['flags']]
    t = common.driver().ask(' '.join(line))
    outcome = t.tok()
    if outcome != 'ok':
        return None, None
    return t.nats(), t.nats()


def model_side(case):
    """the model's partition for every call of the history (each call starts from empty output files)"""
    calls = [[case['kind'], case['v']]] + [list(c) for c in case.get('more', [])]
    res = [model_call(case, k, v) for k, v in calls]
    return [r[0] for r in res], [r[1] for r in res]


def run_case(case):
    key = common.canon_hash(case)
    ok, detail, br, gi, bi = property_side(case)
    if not ok:
        return CaseResult(False, detail=detail, violates=True, branches=br, key=key)
    mg, mb = model_side(case)
    if mg != gi or mb != bi:
        return CaseResult(False, detail='model and implementation differ on %r: per call, model good=%r bad=%r, impl good=%r bad=%r'
                          % (case, mg, mb, gi, bi), violates=None, branches=br, key=key)
    return CaseResult(True, branches=br, key=key, nontrivial=len(case['sources']) >= 2,
                      detail='per call: impl good=%r bad=%r\nmodel good=%r bad=%r' % (gi, bi, mg, mb),
                      sample=dict(case=dict(case, sources=case['sources'][:3]), good=gi, bad=bi))


def search(seed, tier, disagreeing):
    found = []
    tried = 0
    pool = list(disagreeing) + list(itertools.islice(gen_cases(seed, 'quick'), 150))
    for case in pool:
        tried += 1
        ok, detail, _, _, _ = property_side(case)
        if not ok:
            found.append((case, detail))
            if len(found) >= 5:
                break
    return found, tried


def shrink(case):
    def fails(c):
        try:
            return not property_side(c)[0]
        except Exception:
            return False
    cur = case
    changed = True
    while changed:
        changed = False
        for i in range(len(cur.get('more', []))):
            c = dict(cur)
            c['more'] = cur['more'][:i] + cur['more'][i + 1:]
            if fails(c):
                cur = c
                changed = True
                break
        if changed:
            continue
        for i in range(len(cur['sources'])):
            if len(cur['sources']) > 1:
                c = dict(cur)
                c['sources'] = cur['sources'][:i] + cur['sources'][i + 1:]
                if fails(c):
                    cur = c
                    changed = True
                    break
    return cur
