"""C18 — filter_output splits sources into two complete, disjoint, faithful files.

Real side: `filter_output(input, output_good=…, output_bad=…, chi=… | cpd=…)` with the input given as a
file written by `FitInfoFile(path, 'w').write(info)` or as a list of FitInfo objects; both output files
are read back with `FitInfoFile(path, 'r')` (a zero-byte file — no record was written — raises EOFError
on open and is read as "no records").
Model side: driver op `partition` (= `filterOutput` of Model/Partition.lean over EF Rat).
Histories: 1..3 successive `filter_output` calls on the same input with the SAME output paths
(explicit, automatic, or one explicit + one automatic name) and different thresholds / criteria, including later calls that send
every source to one side; after EACH call both files must hold exactly the partition for THAT call.
Property side (independent of the model): every source in exactly one file, input order kept inside
each file, records equal field by field to the input records, good iff best chi² (per fitted point)
is below the threshold.
"""
import itertools
import math
import os
import shutil
import tempfile

import numpy as np

from . import common
from .common import CaseResult, case_rng, Fraction
from . import packages as pk
from . import ef
from . import c01

PID = 'C18'
RULE = ('cases = 1..10 sources, each a ranked result (1..4 fits, best chi² finite / +inf / NaN) with a flag vector '
        'holding >= 1 fitted point; one criterion (chi= or cpd=) whose threshold differs from every best value; '
        'output names explicit or automatic, independently for the two files (good explicit + bad automatic and the '
        'reverse included, file input); input as file or as list of FitInfo; 1..3 successive calls re-using the '
        'same output paths with different thresholds / criteria (histories).  Non-trivial: >= 2 sources. '
        'Distinct = distinct canonical hash of the case')
REQUIRED_BRANCHES = ['chi', 'cpd', 'auto_names', 'explicit_names', 'input_file', 'input_list', 'all_good', 'all_bad',
                     'mixed', 'empty_output_file', 'best_inf', 'best_nan', 'flags_non_fitted', 'one_source', 'ten_sources',
                     'with_fluxes', 'no_fluxes', 'history', 'rerun_all_good_after_mixed', 'rerun_all_bad_after_mixed',
                     'rerun_other_criterion', 'rerun_auto_names', 'rerun_explicit_names',
                     'good_explicit_names', 'bad_explicit_names', 'rerun_good_explicit_names', 'rerun_bad_explicit_names',
                     'input_single', 'both_criteria', 'falsy_threshold', 'thr_int', 'thr_np_float64', 'thr_np_int64',
                     'near_threshold_below', 'near_threshold_above', 'fine_threshold', 'model_dir_relative', 'model_dir_absolute',
                     'call_keyword', 'call_positional', 'call_mixed', 'call_input_keyword', 'input_via_copy', 'input_via_deepcopy',
                     'input_via_pickle', 'dup_names', 'flags_edited_in_place', 'flags_edited_shared_array', 'ndata_changed_by_edit',
                     'edit_list_input', 'edit_file_input', 'edit_flips_side', 'fitted_inputs', 'fitted_input_file', 'fitted_input_list', 'fitted_mixed']
ASSUMPTIONS = ['thresholds are kept at least 1e-6 (relative) away from every best chi² / best chi² per point, so rounding of '
               'chi2[0] / n_data cannot change a comparison',
               'every record has at least one fit and n_data >= 1 (the property\'s domain)',
               'pickle round trip of a record is observed, not modelled',
               'a verdict "the caller\'s FitInfo objects were modified" is C10\'s property: reported as a disagreement without '
               'violates',
               'the history clause is also a theorem about a model of the two output paths (C18_history: both writers truncate '
               'on open), tied to the code by these call histories']
EXHAUSTIVE = {'quick': False, 'thorough': True}
N = {'quick': 260, 'thorough': 25000}
N_FITTED = {'quick': 16, 'thorough': 1000}
NUMTYPES = ['float', 'float', 'int', 'np.float64', 'np.int64']
META = ('/models/dir', ['F0', 'F1'], None)
# the package directory as the records name it: absolute, relative, not normalised (it must come back as given)
MODEL_DIRS = ['/models/dir', 'models_rel', './pkgs/../pkgs/m1', 'a/b/', '../elsewhere/models', '/abs//double/./dir']
# how the two output files are named: both automatic (<input>_good / <input>_bad), both explicit, or one of each
NAME_MODES = ['auto', 'explicit', 'good_explicit', 'bad_explicit']


# ----------------------------------------------------------------------------- generation

def n_data_of(flags):
    return sum(1 for f in flags if f in (1, 4))


def crit(src, kind):
    c0 = ef.unjs(src['chi2'][0])
    return c0 if kind == 'chi' else c0 / n_data_of(src['flags'])


CALL_STYLES = ['keyword', 'positional', 'mixed', 'input_keyword']


def call_filter_output(style, arg, names_kw, thr):
    """filter_output called the ways plain Python allows for the documented signature
    filter_output(input_fits, output_good='auto', output_bad='auto', chi=None, cpd=None):
    keyword      filter_output(arg, output_good=…, output_bad=…, chi=…/cpd=…)
    positional   filter_output(arg, good, bad, chi, cpd)           (4th positional is chi, 5th is cpd)
    mixed        filter_output(arg, good, bad, chi=…/cpd=…) or filter_output(arg, good, bad, chi[, cpd=…])
    input_keyword filter_output(input_fits=arg, …all keywords…)"""
    from sedfitter.filter_output import filter_output
    good = names_kw.get('output_good', 'auto')
    bad = names_kw.get('output_bad', 'auto')
    chi, cpd = thr.get('chi'), thr.get('cpd')
    if style == 'positional':
        if cpd is None:
            return filter_output(arg, good, bad, chi)
        return filter_output(arg, good, bad, chi, cpd)
    if style == 'mixed':
        if chi is not None and cpd is not None:
            return filter_output(arg, good, bad, chi, cpd=cpd)
        if chi is not None:
            return filter_output(arg, good, bad, chi)
        return filter_output(arg, good, bad, cpd=cpd)
    if style == 'input_keyword':
        return filter_output(input_fits=arg, **dict(names_kw, **thr))
    return filter_output(arg, **dict(names_kw, **thr))


def calls_of(case):
    """the history as a list of dict(chi=…|None, cpd=…|None, nt=number type)"""
    def norm(c):
        if isinstance(c, dict):
            return dict(chi=c.get('chi'), cpd=c.get('cpd'), nt=c.get('nt', 'float'), edit=c.get('edit'), how=c.get('how', 'source'))
        kind, v = c
        return dict(chi=v if kind == 'chi' else None, cpd=v if kind == 'cpd' else None, nt='float', edit=None, how='source')
    first = case['call0'] if 'call0' in case else [case['kind'], case['v']]
    return [norm(first)] + [norm(c) for c in case.get('more', [])]


def typed(v, nt):
    if v is None:
        return None
    if nt == 'int':
        return int(v)
    if nt == 'np.int64':
        return np.int64(int(v))
    if nt == 'np.float64':
        return np.float64(v)
    return float(v)


def is_good(src, call):
    """the property: best chi² below chi=, or best chi² per fitted point below cpd= (whichever are given)"""
    return ((call['chi'] is not None and crit(src, 'chi') < call['chi']) or
            (call['cpd'] is not None and crit(src, 'cpd') < call['cpd']))


def gen_source(rng, best=None):
    nfits = rng.randint(1, 4)
    if best is None:
        u = rng.random()
        best = ef.INF if u < 0.07 else ef.NAN if u < 0.12 else float('%.3g' % (10 ** rng.uniform(-1, 2.5)))
    chi2 = [best]
    for _ in range(nfits - 1):
        last = chi2[-1]
        if math.isnan(last):
            chi2.append(ef.NAN)
        elif last == ef.INF:
            chi2.append(rng.choice([ef.INF, ef.NAN]))
        else:
            chi2.append(rng.choice([last, float('%.3g' % (last + 10 ** rng.uniform(-1, 2))), ef.INF]))
    nb = rng.randint(1, 6)
    flags = [rng.choice([0, 1, 1, 2, 3, 4, 9]) for _ in range(nb)]
    if n_data_of(flags) == 0:
        flags[rng.randrange(nb)] = rng.choice([1, 4])
    return dict(chi2=[ef.js(c) for c in chi2], flags=flags, fluxes=rng.random() < 0.5)


def pick_threshold(rng, sources, kind, want=None):
    """a threshold that differs from every attained value; want = 'all_good' | 'all_bad' | None"""
    vals = sorted({crit(s, kind) for s in sources if math.isfinite(crit(s, kind))})
    for _ in range(100):
        if not vals:
            v = float('%.3g' % (10 ** rng.uniform(-1, 2)))
        elif want == 'all_good':
            v = float('%.3g' % (vals[-1] * rng.uniform(1.5, 3.) + 1.))
        elif want == 'all_bad':
            v = float('%.3g' % (vals[0] * rng.uniform(0.2, 0.7)))
        else:
            i = rng.randint(0, len(vals))
            lo = vals[i - 1] if i > 0 else vals[0] * 0.3
            hi = vals[i] if i < len(vals) else vals[-1] * 2. + 1.
            v = float('%.4g' % (lo + (hi - lo) * rng.uniform(0.2, 0.8)))
        if v > 0 and all(abs(v - a) > 1e-6 * (1. + abs(v)) for a in vals):
            return v
    return None


def gen_case(rng, nsrc=None, kind=None, names=None, inp=None, want=None, bests=None):
    nsrc = nsrc or rng.randint(1, 10)
    kind = kind or rng.choice(['chi', 'cpd'])
    for _ in range(20):
        sources = [gen_source(rng, None if bests is None else bests[i]) for i in range(nsrc)]
        v = pick_threshold(rng, sources, kind, want)
        if v is not None:
            break
    inp = inp or rng.choice(['file', 'list'])
    names = names or ('explicit' if inp == 'list' else rng.choice(NAME_MODES))
    return dict(sources=sources, kind=kind, v=v, names=names, input=inp)


def add_history(rng, case, wants=None):
    """later calls on the same input and the same output paths: [[kind, v], ...]"""
    more = []
    wants = wants if wants is not None else [rng.choice([None, 'all_good', 'all_bad']) for _ in range(rng.randint(1, 2))]
    for w in wants:
        kind = rng.choice(['chi', 'cpd'])
        v = pick_threshold(rng, case['sources'], kind, w)
        if v is not None:
            more.append([kind, v])
    case['more'] = more
    return case


def int_threshold(rng, sources, kind):
    """an integral threshold that differs from every attained value"""
    vals = [crit(s, kind) for s in sources if math.isfinite(crit(s, kind))]
    for _ in range(50):
        v = float(rng.randint(1, int(max(vals + [3.])) + 3))
        if all(abs(v - a) > 1e-6 * (1. + abs(v)) for a in vals):
            return v
    return None


def variant(rng, case, what):
    """replace the last call of the history by one of the less common call forms"""
    src = case['sources']
    if what == 'both':
        a, b = pick_threshold(rng, src, 'chi'), pick_threshold(rng, src, 'cpd')
        call = dict(chi=a, cpd=b)
    elif what == 'falsy':
        call = rng.choice([dict(chi=0.0), dict(cpd=0.0), dict(chi=0.0, cpd=pick_threshold(rng, src, 'cpd')),
                           dict(chi=pick_threshold(rng, src, 'chi'), cpd=0.0), dict(chi=0, nt='int')])
    else:
        kind = rng.choice(['chi', 'cpd'])
        if what in ('int', 'np.int64'):
            v = int_threshold(rng, src, kind)
        else:
            v = pick_threshold(rng, src, kind)
        call = {kind: v, 'nt': what}
    if any(v is None for k, v in call.items() if k in ('chi', 'cpd')):
        return case
    if case.get('more'):
        case['more'][-1] = call
    else:
        case['call0'] = call
    return case


def add_flag_edit(rng, case, how=None, force=None):
    """a later call before which the flags of some sources are edited IN PLACE on the very Source objects the earlier
    calls used (n_data has been read by then): `edit` maps source index -> new flags; the cpd threshold of the new call
    avoids the values attained with the NEW flags.  For file input the input file is written again from the edited objects."""
    cur = [dict(s_) for s_ in case['sources']]
    for c in case.get('more', []):
        if isinstance(c, dict) and c.get('edit'):
            for k_, fl in c['edit'].items():
                cur[int(k_)] = dict(cur[int(k_)], flags=list(fl))
    edit = dict(force or {})
    if not edit:
        for i in rng.sample(range(len(cur)), rng.randint(1, len(cur))):
            fl = list(cur[i]['flags'])
            for _ in range(rng.randint(1, len(fl))):
                fl[rng.randrange(len(fl))] = rng.choice([0, 0, 1, 2, 3, 4, 9])
            if n_data_of(fl) == 0:
                fl[rng.randrange(len(fl))] = 1
            edit[str(i)] = fl
    for k_, fl in edit.items():
        cur[int(k_)] = dict(cur[int(k_)], flags=list(fl))
    v = pick_threshold(rng, cur, 'cpd')
    if v is None:
        return case
    case.setdefault('more', []).append(dict(cpd=v, edit=edit, how=how or rng.choice(['source', 'shared'])))
    return case


def near_threshold_case(kind, v, inp, names):
    """best values just off the threshold on both sides: v(1 -/+ 1e-6) and v -/+ 1e-4 (rounding the best value, or an
    isclose comparison, would move them onto or across the threshold; the exact comparison does not)"""
    sources = []
    for k, best in enumerate([v * (1 - 1e-6), v * (1 + 1e-6), v - 1e-4, v + 1e-4, v * (1 - 3e-4), v * (1 + 3e-4)]):
        flags = [[1, 1, 1, 1], [1, 4, 2], [1], [4, 1, 0, 9, 1], [1, 1], [1, 3, 1]][k]
        nd = n_data_of(flags)
        c0 = best if kind == 'chi' else best * nd
        sources.append(dict(chi2=[c0, ef.js(ef.INF)], flags=flags, fluxes=k % 2 == 0))
    return dict(sources=sources, kind=kind, v=v, names=names, input=inp, near=True)


def fitted_case(rng):
    """inputs are what Fitter.fit returns (Quantity arrays, filters with Quantity wavelengths and an Extinction object in
    meta, model_fluxes present); sources, thresholds and the history are drawn at run time from thr_seed"""
    inp = rng.choice(['file', 'list'])
    return dict(fitted=c01.gen_case(rng), thr_seed=rng.randrange(10 ** 9), input=inp,
                names='explicit' if inp == 'list' else rng.choice(NAME_MODES), truncate=rng.random() < 0.5)


def pattern_case(rng, pattern, kind):
    """sources whose good/bad pattern is prescribed (True = good)"""
    v = float('%.3g' % (10 ** rng.uniform(0, 1.5)))
    sources = []
    for g in pattern:
        s = gen_source(rng, 1.)
        nd = n_data_of(s['flags'])
        target = v * (rng.uniform(0.2, 0.8) if g else rng.uniform(1.3, 4.))
        best = float('%.3g' % (target if kind == 'chi' else target * nd))
        if not g and rng.random() < 0.15:
            best = rng.choice([ef.INF, ef.NAN])
        rest = [ef.unjs(c) for c in s['chi2'][1:]]
        chi2 = [best] + [c if (math.isnan(c) or c >= best) else best for c in rest]
        if math.isnan(best):
            chi2 = [ef.NAN] * len(chi2)
        chi2.sort(key=ef.sort_key)
        s['chi2'] = [ef.js(c) for c in chi2]
        sources.append(s)
    inp = rng.choice(['file', 'list'])
    c = dict(sources=sources, kind=kind, v=v, names='explicit' if inp == 'list' else rng.choice(NAME_MODES),
             input=inp)
    if rng.random() < 0.5:
        add_history(rng, c, [rng.choice(['all_good', 'all_bad'])])
    return c


def gen_cases(seed, tier):
    # directed block
    r = lambda i: case_rng(seed, PID, 'directed-%d' % i)
    yield gen_case(r(0), nsrc=1, kind='chi', names='auto', inp='file')
    yield gen_case(r(1), nsrc=10, kind='cpd', names='explicit', inp='list')
    yield gen_case(r(2), nsrc=4, kind='chi', names='explicit', inp='file', want='all_good')
    yield gen_case(r(3), nsrc=4, kind='cpd', names='auto', inp='file', want='all_bad')
    yield gen_case(r(4), nsrc=5, kind='cpd', inp='list', bests=[3., ef.INF, 1., ef.NAN, 20.])
    yield gen_case(r(5), nsrc=5, kind='chi', inp='file', bests=[3., ef.INF, 1., ef.NAN, 20.])
    # histories: the same output paths are written again by a later call that leaves one side empty
    mixed = [2., 30., 4., 50.]
    yield add_history(r(6), dict(gen_case(r(6), nsrc=4, kind='chi', names='auto', inp='file', bests=mixed), v=10.), ['all_good'])
    yield add_history(r(7), dict(gen_case(r(7), nsrc=4, kind='chi', names='auto', inp='file', bests=mixed), v=10.), ['all_bad'])
    yield add_history(r(8), dict(gen_case(r(8), nsrc=4, kind='chi', names='explicit', inp='file', bests=mixed), v=10.), ['all_good', 'all_bad'])
    yield add_history(r(9), dict(gen_case(r(9), nsrc=4, kind='chi', names='explicit', inp='list', bests=mixed), v=10.), ['all_bad', 'all_good'])
    yield add_history(r(10), dict(gen_case(r(10), nsrc=6, kind='cpd', names='explicit', inp='list')), [None, None])
    # one explicit and one automatic name
    yield gen_case(r(11), nsrc=4, kind='chi', names='good_explicit', inp='file')
    yield gen_case(r(12), nsrc=4, kind='cpd', names='bad_explicit', inp='file')
    yield add_history(r(13), dict(gen_case(r(13), nsrc=4, kind='chi', names='good_explicit', inp='file', bests=mixed), v=10.), ['all_bad', None])
    yield add_history(r(14), dict(gen_case(r(14), nsrc=4, kind='chi', names='bad_explicit', inp='file', bests=mixed), v=10.), ['all_good', None])
    # a single FitInfo (not a list), both criteria at once, falsy thresholds, integer / numpy thresholds, equal source names
    yield gen_case(r(15), nsrc=1, kind='chi', names='explicit', inp='single')
    yield add_history(r(16), gen_case(r(16), nsrc=1, kind='cpd', names='explicit', inp='single'), ['all_good', 'all_bad'])
    yield variant(r(17), gen_case(r(17), nsrc=5, inp='file', bests=mixed + [7.]), 'both')
    yield variant(r(18), add_history(r(18), gen_case(r(18), nsrc=5, inp='list', bests=mixed + [7.]), [None]), 'both')
    yield variant(r(19), gen_case(r(19), nsrc=4, inp='file', bests=mixed), 'falsy')
    yield variant(r(20), add_history(r(20), gen_case(r(20), nsrc=4, inp='list', bests=mixed), [None]), 'falsy')
    yield variant(r(21), gen_case(r(21), nsrc=4, inp='file', bests=mixed), 'int')
    yield variant(r(22), gen_case(r(22), nsrc=4, inp='list', bests=mixed), 'np.float64')
    yield variant(r(23), gen_case(r(23), nsrc=4, inp='file', bests=mixed), 'np.int64')
    yield dict(gen_case(r(24), nsrc=5, inp='list', bests=mixed + [7.]), dup_names=True)
    yield dict(add_history(r(25), gen_case(r(25), nsrc=5, inp='file', bests=mixed + [7.]), ['all_good']), dup_names=True)
    # the flags of the caller's Source objects are edited in place between calls (n_data read by the first call):
    # best chi2 10 with 4 fitted points (2.5 per point, good for cpd=3), then two bands set to 0 (5 per point, bad)
    for i, (inp, how) in enumerate([('list', 'source'), ('list', 'shared'), ('file', 'source'), ('single', 'source')]):
        c = dict(sources=[dict(chi2=[10., 12.], flags=[1, 1, 1, 1], fluxes=True)] +
                 ([] if inp == 'single' else [dict(chi2=[3., ef.js(ef.INF)], flags=[1, 4, 2], fluxes=False)]),
                 kind='cpd', v=3., names='explicit', input=inp)
        c['more'] = [dict(cpd=3., edit={'0': [1, 1, 0, 0]}, how=how)]
        yield c
    for i in range(3):
        yield add_flag_edit(r(26 + i), gen_case(r(26 + i), nsrc=4, inp=['list', 'file', 'list'][i], kind='cpd', bests=mixed))
    for i, (kind, v) in enumerate([('chi', 10.), ('cpd', 3.), ('chi', 0.0104), ('cpd', 0.0104), ('chi', 123.4567), ('cpd', 2.00005)]):
        yield near_threshold_case(kind, v, ['file', 'list'][i % 2], 'explicit')
    for i in range(4):
        yield dict(fitted_case(r(30 + i)), input=['file', 'list'][i % 2], names='explicit')
    if tier == 'thorough':
        k = 0
        for n in range(1, 7):
            for pattern in itertools.product([True, False], repeat=n):
                for kind in ('chi', 'cpd'):
                    yield pattern_case(case_rng(seed, PID, 'pat-%d' % k), pattern, kind)
                    k += 1
    for i in range(N[tier]):
        rng = case_rng(seed, PID, i)
        c = gen_case(rng)
        if rng.random() < 0.5:
            add_history(rng, c)
        u = rng.random()
        if u < 0.3:
            variant(rng, c, rng.choice(['both', 'both', 'falsy', 'int', 'np.float64', 'np.int64']))
        if rng.random() < 0.1:
            c['dup_names'] = True
        if rng.random() < 0.2:
            add_flag_edit(rng, c)
        if len(c['sources']) == 1 and c['names'] == 'explicit' and rng.random() < 0.5:
            c['input'] = 'single'
        yield c
    for i in range(N_FITTED[tier]):
        yield fitted_case(case_rng(seed, PID, 'fitted-%d' % i))


# ----------------------------------------------------------------------------- one case

def build_infos(case):
    infos = []
    for i, s in enumerate(case['sources']):
        chi2 = [ef.unjs(c) for c in s['chi2']]
        n = len(chi2)
        pay = ef.payload(n, with_fluxes=s['fluxes'], nflux=len(s['flags']), ids=[(7 * i + j) % 11 for j in range(n)])
        pay['av'] = [a + 100 * i for a in pay['av']]
        info = ef.build_info(chi2, pay, flags=s['flags'],
                             source_name='same' if (case.get('dup_names') and i % 3 != 2) else 'src%02d' % i,
                             meta=(MODEL_DIRS[int(common.canon_hash(case), 16) % len(MODEL_DIRS)], META[1], META[2]))
        # the caller keeps the flag array it hands to the Source (the setter stores it without a copy)
        shared = np.array(s['flags'], dtype=int)
        info.source.valid = shared
        info.caller_flags = shared
        info.source.x = 10. + i
        info.source.y = -5. + i / 8.
        info.source.flux = np.array([1. + i + j / 4. for j in range(len(s['flags']))])
        info.source.error = np.array([0.125 * (j + 1) for j in range(len(s['flags']))])
        infos.append(info)
    return infos


def record_state(info):
    """every pickled field of a record, NaN-aware comparable"""
    a = pk.fit_arrays(info)
    s = info.source
    return dict(name=str(s.name), x=float(s.x), y=float(s.y), valid=[int(v) for v in s.valid],
                flux=[float(v) for v in s.flux], error=[float(v) for v in s.error],
                chi2=[ef.js(c) for c in a['chi2']], av=[float(v) for v in a['av']], sc=[float(v) for v in a['sc']],
                model_name=list(a['name']), model_id=list(a['model_id']),
                model_fluxes=None if a['model_fluxes'] is None else [[float(f) for f in r] for r in a['model_fluxes']])


def meta_state(meta):
    """the header of a fit file (model_dir, filters, extinction law) in comparable form"""
    def q(v):
        if hasattr(v, 'unit') and hasattr(v, 'value'):
            return ('Q', [float(x) for x in np.atleast_1d(v.value)], str(v.unit))
        if isinstance(v, (np.floating, np.integer)):
            return float(v)
        return v
    filters = []
    for f in (meta.filters or []):
        filters.append(sorted((k, q(v)) for k, v in f.items()) if isinstance(f, dict) else q(f))
    law = meta.extinction_law
    if law is not None:
        law = (q(law.wav), q(law.chi))
    return (meta.model_dir, filters, law)


def read_back(path):
    from sedfitter.fit_info import FitInfoFile
    if not os.path.exists(path):
        return None
    try:
        f = FitInfoFile(path, 'r')
    except EOFError:
        return []                      # zero-byte file: no record was written
    try:
        recs = [record_state(info) for info in f]
        meta = meta_state(f.meta)
    finally:
        f.close()
    return recs, meta


def resolve(case, d):
    """(infos, sources, calls): the FitInfo objects to filter, their description for the oracle / the model, and the
    history of calls.  For `fitted` cases all three are derived here from what Fitter.fit returns."""
    if 'fitted' not in case:
        return build_infos(case), case['sources'], calls_of(case)
    e2e = case['fitted']
    rng = case_rng(case['thr_seed'], PID, 'fitted-thresholds')
    pkgdir = os.path.join(d, 'models')
    os.makedirs(pkgdir)
    with common.quiet():
        fitter, _ = c01.build(e2e, pkgdir)
    infos, sources = [], []
    for si, src in enumerate(e2e['sources']):
        if c01.singular(e2e, src):
            continue
        s = pk.make_source('fit%02d' % si, src['flags'], src['flux'], src['err'], x=10. + len(infos), y=-3. + si)
        with common.quiet():
            info = fitter.fit(s)
            if case.get('truncate'):
                info.keep(('N', rng.randint(1, len(e2e['models']))))
        a = pk.fit_arrays(info)
        if not (np.all(np.isfinite(a['av'])) and np.all(np.isfinite(a['sc'])) and ef.is_ranked(a['chi2'])):
            continue
        infos.append(info)
        sources.append(dict(chi2=[ef.js(c) for c in a['chi2']], flags=[int(f) for f in src['flags']], fluxes=True))
    calls = []
    if infos:
        for w in [None] + [rng.choice([None, 'all_good', 'all_bad']) for _ in range(rng.randint(0, 2))]:
            kind = rng.choice(['chi', 'cpd'])
            v = pick_threshold(rng, sources, kind, w)
            if v is not None:
                calls.append(dict(chi=v if kind == 'chi' else None, cpd=v if kind == 'cpd' else None, nt='float'))
    return infos, sources, calls


def property_side(case):
    """run the history of filter_output calls and evaluate C18 directly after each.
    Returns (ok, detail, branches, good_idx per call, bad_idx per call, resolved (sources, calls), violates)"""
    from sedfitter.fit_info import FitInfoFile
    from sedfitter.filter_output import filter_output
    d = tempfile.mkdtemp(prefix='c18_')
    br = {case['names'] + '_names', 'input_' + case['input']}
    try:
        try:
            infos, sources, calls = resolve(case, d)
        except Exception as e:
            return False, 'building the inputs failed: %s: %s' % (type(e).__name__, e), br, None, None, None, None
        nsrc = len(sources)
        sources0 = sources
        if 'fitted' in case:
            br.add('fitted_inputs')
            br.add('fitted_input_' + case['input'])
            if not infos or not calls:
                return True, '', br, [], [], (sources, []), None
        if case.get('dup_names'):
            br.add('dup_names')
        if nsrc == 1:
            br.add('one_source')
        if nsrc == 10:
            br.add('ten_sources')
        for s in sources:
            c0 = ef.unjs(s['chi2'][0])
            if c0 == ef.INF:
                br.add('best_inf')
            if math.isnan(c0):
                br.add('best_nan')
            if any(f not in (1, 4) for f in s['flags']):
                br.add('flags_non_fitted')
            br.add('with_fluxes' if s['fluxes'] else 'no_fluxes')
        via = ['none', 'none', 'copy', 'deepcopy', 'pickle'][int(common.canon_hash(case), 16) % 5]
        if via != 'none' and case['input'] != 'file' and not any(c.get('edit') for c in calls):
            import copy as _copy
            import pickle as _pickle
            metas = [i.meta for i in infos]
            if via == 'copy':
                infos = [_copy.copy(i) for i in infos]
            elif via == 'deepcopy':
                infos = [_copy.deepcopy(i) for i in infos]
            else:
                infos = [_pickle.loads(_pickle.dumps(i, 2)) for i in infos]
            for i, m in zip(infos, metas):
                i.meta = m                          # meta is not part of a record's pickled state
            br.add('input_via_' + via)
        before = [record_state(i) for i in infos]
        meta0 = meta_state(infos[0].meta)
        br.add('model_dir_absolute' if os.path.isabs(meta0[0]) and os.path.normpath(meta0[0]) == meta0[0] else 'model_dir_relative')
        ids = [b['x'] for b in before]                       # the source's position identifies it (names may repeat)
        path = os.path.join(d, 'input.fitinfo')
        if case['input'] == 'file':
            fout = FitInfoFile(path, 'w')
            for info in infos:
                fout.write(info)
            fout.close()
            arg = path
        elif case['input'] == 'single':
            arg = infos[0]
        else:
            arg = infos
        good_path, bad_path = path + '_good', path + '_bad'
        kw = {}
        if case['names'] in ('explicit', 'good_explicit'):
            good_path = os.path.join(d, 'well.out')
            kw['output_good'] = good_path
        if case['names'] in ('explicit', 'bad_explicit'):
            bad_path = os.path.join(d, 'badly.out')
            kw['output_bad'] = bad_path
        if len(calls) > 1:
            br.add('history')
        results = []
        prev = None
        sources = [dict(s_) for s_ in sources]
        if any(c.get('edit') for c in calls):
            for info in infos:
                info.source.n_data                      # as fit() does for every source (s.n_data >= n_data_min)
        for ci, call in enumerate(calls):
            if call.get('edit'):
                br.add('flags_edited_in_place' if call['how'] == 'source' else 'flags_edited_shared_array')
                br.add('edit_file_input' if case['input'] == 'file' else 'edit_list_input')
                for k_, fl in call['edit'].items():
                    i_ = int(k_)
                    was_good = is_good(sources[i_], call)
                    if n_data_of(fl) != n_data_of(sources[i_]['flags']):
                        br.add('ndata_changed_by_edit')
                    sources[i_] = dict(sources[i_], flags=list(fl))
                    if is_good(sources[i_], call) != was_good:
                        br.add('edit_flips_side')
                    target = infos[i_].source.valid if call['how'] == 'source' or not hasattr(infos[i_], 'caller_flags') \
                        else infos[i_].caller_flags
                    for j_, f_ in enumerate(fl):
                        target[j_] = f_
                before = [record_state(i) for i in infos]
                if case['input'] == 'file':
                    fout = FitInfoFile(path, 'w')
                    for info in infos:
                        fout.write(info)
                    fout.close()
            ckw = {}
            given = [k for k in ('chi', 'cpd') if call[k] is not None]
            for k in given:
                br.add(k)
                ckw[k] = typed(call[k], call['nt'])
            style = call.get('style') or CALL_STYLES[(int(common.canon_hash(case), 16) + ci) % len(CALL_STYLES)]
            br.add('call_' + style)
            if len(given) == 2:
                br.add('both_criteria')
            if any(call[k] == 0 for k in given):
                br.add('falsy_threshold')
            if call['nt'] != 'float':
                br.add('thr_' + call['nt'].replace('.', '_'))
            what = 'call %d of %d (%s call): filter_output(%s input of %d sources, %s, %s names%s%s)' % (
                ci + 1, len(calls), style, case['input'], nsrc, ', '.join('%s=%r' % (k, ckw[k]) for k in given), case['names'],
                '' if ci == 0 else '; same output paths as the earlier call(s) %r' % (calls[:ci],),
                '' if not call.get('edit') else '; before this call the flags of the same Source objects were edited in place to %r '
                '(n_data had been read before)' % (call['edit'],))
            try:
                with common.quiet():
                    call_filter_output(style, arg, kw, ckw)
            except Exception as e:
                return False, '%s raised %s: %s' % (what, type(e).__name__, e), br, None, None, None, True
            try:
                good = read_back(good_path)
                bad = read_back(bad_path)
            except Exception as e:
                return False, '%s: reading the outputs back raised %s: %s' % (what, type(e).__name__, e), br, None, None, None, True
            if good is None or bad is None:
                return (False, '%s: output file missing: good file %s %s, bad file %s %s; files present: %r'
                        % (what, good_path, 'exists' if good is not None else 'MISSING', bad_path,
                           'exists' if bad is not None else 'MISSING', sorted(os.listdir(d))), br, None, None, None, True)
            if good == [] or bad == []:
                br.add('empty_output_file')
            grecs, gmeta = good if good else ([], meta0)
            brecs, bmeta = bad if bad else ([], meta0)
            if gmeta != meta0 or bmeta != meta0:
                return False, '%s: header of an output file changed: %r / %r, input %r' % (what, gmeta, bmeta, meta0), br, None, None, None, True
            gi = [ids.index(r['x']) if r['x'] in ids else -1 for r in grecs]
            bi = [ids.index(r['x']) if r['x'] in ids else -1 for r in brecs]
            # complete and disjoint
            if sorted(gi + bi) != list(range(nsrc)):
                return (False, '%s: sources (by input position) in good file %r, in bad file %r; every one of the %d input sources '
                        'must be in exactly one' % (what, gi, bi, nsrc), br, None, None, None, True)
            # order
            if gi != sorted(gi) or bi != sorted(bi):
                return False, '%s: input order not preserved: good %r bad %r' % (what, gi, bi), br, None, None, None, True
            # unchanged
            for idx, rec in list(zip(gi, grecs)) + list(zip(bi, brecs)):
                if rec != before[idx]:
                    diff = [k for k in rec if rec[k] != before[idx][k]]
                    return (False, '%s: record of source %d (%s) changed in field(s) %r: written %r, input %r'
                            % (what, idx, before[idx]['name'], diff, {k: rec[k] for k in diff},
                               {k: before[idx][k] for k in diff}), br, None, None, None, True)
            # the caller's objects are not touched either (that is C10's property: reported, but not as a C18 violation)
            after = [record_state(i) for i in infos]
            if after != before:
                return False, '%s: the input FitInfo objects were modified (C10)' % what, br, None, None, None, None
            # criterion
            want_good = [i for i, s in enumerate(sources) if is_good(s, call)]
            if gi != want_good:
                return (False, '%s: good file holds sources %r; sources whose best chi2 (per point) is below the threshold(s): %r '
                        '(best chi2 %r, per point %r)' % (what, gi, want_good, [ef.js(crit(s, 'chi')) for s in sources],
                                                         [ef.js(crit(s, 'cpd')) for s in sources]), br, None, None, None, True)
            for s_ in sources:
                for k_ in given:
                    x_, t_ = crit(s_, k_), float(call[k_])
                    if math.isfinite(x_) and t_ != 0 and abs(x_ - t_) <= 5e-4 * max(1., abs(t_)):
                        br.add('near_threshold_below' if x_ < t_ else 'near_threshold_above')
                    if t_ != 0 and round(t_, 3) != t_:
                        br.add('fine_threshold')
            shape = 'all_good' if len(gi) == nsrc else 'all_bad' if not gi else 'mixed'
            br.add(shape)
            if 'fitted' in case and shape == 'mixed':
                br.add('fitted_mixed')
            if ci > 0:
                br.add('rerun_%s_names' % case['names'])
                if given != [k for k in ('chi', 'cpd') if calls[ci - 1][k] is not None]:
                    br.add('rerun_other_criterion')
                if prev == 'mixed' and shape in ('all_good', 'all_bad'):
                    br.add('rerun_%s_after_mixed' % shape)
            prev = shape
            results.append((gi, bi))
        return True, '', br, [r[0] for r in results], [r[1] for r in results], (sources0, calls), None
    finally:
        shutil.rmtree(d, ignore_errors=True)


def model_call(sources, call):
    tok = lambda v: 'none' if v is None else ef.ef_tok(float(v))
    line = ['partition', tok(call['chi']), tok(call['cpd']), str(len(sources))]
    for s in sources:
        line += [str(len(s['chi2']))] + [ef.ef_tok(ef.unjs(c)) for c in s['chi2']]
        line += [str(len(s['flags']))] + [str(f) for f in s['flags']]
    t = common.driver().ask(' '.join(line))
    outcome = t.tok()
    if outcome != 'ok':
        return None, None
    return t.nats(), t.nats()


def run_case(case):
    key = common.canon_hash(case)
    ok, detail, br, gi, bi, resolved, violates = property_side(case)
    if not ok:
        return CaseResult(False, detail=detail, violates=violates, branches=br, key=key)
    sources, calls = resolved
    res = []
    cur = [dict(s_) for s_ in sources]
    for c in calls:
        for k_, fl in (c.get('edit') or {}).items():
            cur[int(k_)] = dict(cur[int(k_)], flags=list(fl))
        res.append(model_call(cur, c))
    mg, mb = [r[0] for r in res], [r[1] for r in res]
    if mg != gi or mb != bi:
        return CaseResult(False, detail='model and implementation differ on %r: per call, model good=%r bad=%r, impl good=%r bad=%r'
                          % (case if 'fitted' not in case else (sources, calls), mg, mb, gi, bi),
                          violates=None, branches=br, key=key)
    small = dict(case, sources=case['sources'][:3]) if 'sources' in case else dict(fitted=True, n_sources=len(sources), calls=calls)
    return CaseResult(True, branches=br, key=key, nontrivial=len(sources) >= 2,
                      detail='per call: impl good=%r bad=%r\nmodel good=%r bad=%r' % (gi, bi, mg, mb),
                      sample=dict(case=small, good=gi, bad=bi))


def search(seed, tier, disagreeing):
    found = []
    tried = 0
    pool = list(disagreeing) + list(itertools.islice(gen_cases(seed, 'quick'), 150))
    for case in pool:
        tried += 1
        r_ = property_side(case)
        ok, detail = r_[0], r_[1]
        if not ok and r_[6]:
            found.append((case, detail))
            if len(found) >= 5:
                break
    return found, tried


def shrink(case):
    if 'fitted' in case:
        return case

    def fails(c):
        try:
            r_ = property_side(c)
            return (not r_[0]) and bool(r_[6])
        except Exception:
            return False
    cur = case
    changed = True
    while changed:
        changed = False
        for i in range(len(cur.get('more', []))):
            c = dict(cur)
            c['more'] = cur['more'][:i] + cur['more'][i + 1:]
            if fails(c):
                cur = c
                changed = True
                break
        if changed:
            continue
        for i in range(len(cur['sources'])):
            if len(cur['sources']) > 1:
                c = dict(cur)
                c['sources'] = cur['sources'][:i] + cur['sources'][i + 1:]
                if fails(c):
                    cur = c
                    changed = True
                    break
    return cur
