"""`./check RES` — runs the resolved-source stage (harness/resolved.py) on its own (development aid; in a full run the
stage is served through EXTRA_HARNESS of its host property)."""
from .resolved import *          # noqa: F401,F403
from .resolved import PID, RULE, REQUIRED_BRANCHES, ASSUMPTIONS, TRUSTED_EXTRA, N, gen_cases, run_case, shrink   # noqa: F401
