"""One check run: proof obligations + correspondence + falsifier + verdict + evidence."""
import importlib
import re
import json
import multiprocessing
import os
import sys
import time
import traceback

from . import common
from .common import CaseResult

TRUSTED_BASE = [
    'Lean 4.33.0 kernel; Mathlib v4.33.0 lemmas (checked by the same kernel)',
    'axioms allowed per theorem: propext, Classical.choice, Quot.sound (audited by #print axioms each run)',
    'hand-written Lean model tied to /repo only by the correspondence check (differential, sampled)',
    'Python harness, line protocol, exact float->rational conversion, tolerance/margin rules',
    'driver-side rational approximations of log10/ln/10**x (2^-150 accurate), not part of any theorem',
    'numpy/scipy/astropy/pickle primitives are modelled (same contract), not verified',
]

_MOD = None
_SCRATCH = None


_SLOT = [0]


def _init_worker(modname, scratch_root):
    """Per-worker set-up.  Scratch directories are handed out from a small set of FIXED paths per worker
    (`<scratch>/w<pid>/slot<k>`, k restarting at 0 for every case), so that consecutive cases of one worker build
    their packages, data files and outputs at the very same paths with different contents: anything the
    implementation remembers by path (a cached models.conf, parameter table, convolved-flux file, SED …) then meets a
    regenerated file — for every property, without each harness having to arrange it.  (VERIF_UNIQUE_TMP=1 turns it off.)"""
    global _MOD, _SCRATCH
    os.environ['TMPDIR'] = scratch_root
    import tempfile
    tempfile.tempdir = scratch_root
    _MOD = importlib.import_module(modname)
    _SCRATCH = scratch_root
    if os.environ.get('VERIF_UNIQUE_TMP') != '1' and not getattr(tempfile, '_verif_patched', False):
        real_mkdtemp = tempfile.mkdtemp
        base = os.path.join(scratch_root, 'w%d' % os.getpid())

        def mkdtemp(suffix=None, prefix=None, dir=None):
            if dir is not None and not str(dir).startswith(scratch_root):
                return real_mkdtemp(suffix, prefix, dir)
            k = _SLOT[0]
            _SLOT[0] += 1
            path = os.path.join(base, 'slot%d' % k)
            if os.path.exists(path):
                # still in use within this case (or left behind): fall back to a fresh unique directory
                return real_mkdtemp(suffix, prefix, dir)
            os.makedirs(path)
            return path
        tempfile.mkdtemp = mkdtemp
        tempfile._verif_patched = True


class CaseTimeout(BaseException):
    # a BaseException, so that a harness's own `except Exception` around an implementation call cannot swallow it
    pass


def _alarm(signum, frame):
    raise CaseTimeout()


CASE_TIMEOUT = int(os.environ.get('VERIF_CASE_TIMEOUT', '300'))
_TIMEOUT_FACTOR = [1]
RETRY_FACTOR = 8            # a case that ran out of time is run once more, alone, with this many times the limit
RETRY_MAX = 3               # ... for at most this many cases of a run


def _run_one(args):
    idx, case = args
    t0 = time.time()
    import signal
    try:
        signal.signal(signal.SIGALRM, _alarm)
        signal.alarm(int(getattr(_MOD, 'CASE_TIMEOUT', CASE_TIMEOUT)) * _TIMEOUT_FACTOR[0])
    except Exception:
        pass
    try:
        r = _run_one_inner(case)
    finally:
        try:
            signal.alarm(0)
        except Exception:
            pass
    r.index = idx
    r.wall = time.time() - t0
    return r


def _run_one_inner(case):
    _SLOT[0] = 0
    try:
        mod = importlib.import_module(case['_mod']) if isinstance(case, dict) and '_mod' in case else _MOD
        r = mod.run_case(case)
        if not isinstance(r, CaseResult):
            r = CaseResult(False, detail='harness returned %r' % (r,), violates=None)
    except CaseTimeout:
        # the implementation (or the harness) did not come back, e.g. a reader that never reaches the end of a file:
        # reported as a disagreement with the case as replay, never silently waited for
        common.close_driver()
        r = CaseResult(False, detail='case did not finish within %d s (implementation or harness hangs on this input)'
                       % (int(getattr(_MOD, 'CASE_TIMEOUT', CASE_TIMEOUT)) * _TIMEOUT_FACTOR[0]), violates=None)
        r.timed_out = True
    except common.DriverError as e:
        r = CaseResult(False, detail='driver error: %s' % e, violates=None)
    except Exception as e:
        r = CaseResult(False, detail='exception in harness/implementation: %s\n%s' % (e, traceback.format_exc()[-3000:]),
                       violates=None)
        r.exception = True
    return r


def _run_chunk(chunk):
    return [_run_one(j) for j in chunk]


def _run_chunk_patiently(chunk):
    _TIMEOUT_FACTOR[0] = RETRY_FACTOR
    return [_run_one(j) for j in chunk]


def _retry_timeouts(modname, jobs, results, scratch_root):
    """A case that ran out of time while the machine was busy is not a disagreement: it is run once more, alone in a
    fresh process, with RETRY_FACTOR times the limit.  If it finishes, that result counts (and is marked); if it runs
    out of time again it stays what it was - an input on which the implementation (or the harness) does not come back.
    At most RETRY_MAX cases are retried, and none after the first one that fails again (a change that makes the code
    hang would otherwise cost RETRY_FACTOR limits per case)."""
    import concurrent.futures as cf
    ctx = multiprocessing.get_context('fork')
    timed = [i for i, _ in jobs if getattr(results[i], 'timed_out', False)]
    for i in timed[:RETRY_MAX]:
        limit = int(getattr(importlib.import_module(modname), 'CASE_TIMEOUT', CASE_TIMEOUT)) * RETRY_FACTOR
        try:
            with cf.ProcessPoolExecutor(1, mp_context=ctx, initializer=_init_worker,
                                        initargs=(modname, scratch_root)) as ex1:
                r = ex1.submit(_run_chunk_patiently, [(i, jobs[i][1])]).result(timeout=limit + 60)[0]
        except Exception:
            break
        if getattr(r, 'timed_out', False):
            break
        r.branches = set(getattr(r, 'branches', None) or ()) | {'finished_on_retry_after_timeout'}
        results[i] = r


def run_cases(modname, cases, workers, scratch_root):
    """Run every case; a worker process that dies (killed by a signal, out of memory) must not stall the check:
    the cases of its chunk are re-run one by one in fresh single-use processes, and a case that kills its process
    again is recorded as a disagreement naming the case."""
    import concurrent.futures as cf
    jobs = list(enumerate(cases))
    if workers <= 1 or len(jobs) < 4:
        _init_worker(modname, scratch_root)
        res = [_run_one(j) for j in jobs]
        common.close_driver()
        results = {r.index: r for r in res}
        _retry_timeouts(modname, jobs, results, scratch_root)
        return [results[i] for i, _ in jobs]
    ctx = multiprocessing.get_context('fork')
    size = max(1, len(jobs) // (workers * 4))
    chunks = [jobs[i:i + size] for i in range(0, len(jobs), size)]
    results = {}
    pending = list(chunks)
    lost = []
    while pending:
        batch, pending = pending, []
        try:
            with cf.ProcessPoolExecutor(workers, mp_context=ctx, initializer=_init_worker,
                                        initargs=(modname, scratch_root)) as ex:
                futs = {ex.submit(_run_chunk, ch): ch for ch in batch}
                for fut in cf.as_completed(futs):
                    ch = futs[fut]
                    try:
                        for r in fut.result():
                            results[r.index] = r
                    except cf.process.BrokenProcessPool:
                        lost.append(ch)
                    except Exception as e:      # noqa: result could not be transferred
                        lost.append(ch)
        except cf.process.BrokenProcessPool:
            pass
        # chunks whose results never arrived because some worker died: redo them case by case, isolated
        redo = [j for ch in lost for j in ch if j[0] not in results]
        lost = []
        for j in redo:
            try:
                with cf.ProcessPoolExecutor(1, mp_context=ctx, initializer=_init_worker,
                                            initargs=(modname, scratch_root)) as ex1:
                    for r in ex1.submit(_run_chunk, [j]).result(timeout=4 * CASE_TIMEOUT):
                        results[r.index] = r
            except Exception as e:              # noqa: BrokenProcessPool, TimeoutError
                r = CaseResult(False, detail='the process running this case died or hung (%s: %s) - the implementation '
                                             'crashed the interpreter or exhausted memory on this input'
                               % (type(e).__name__, e), violates=None)
                r.index = j[0]
                r.wall = 0.
                results[j[0]] = r
    _retry_timeouts(modname, jobs, results, scratch_root)
    return [results[i] for i, _ in jobs]


def load_corpus(pid):
    d = os.path.join(common.VERIF, 'corpus', pid)
    cases = []
    if os.path.isdir(d):
        for f in sorted(os.listdir(d)):
            if f.endswith('.json'):
                obj = json.load(open(os.path.join(d, f)))
                for c in obj.get('cases', [obj.get('case')] if 'case' in obj else []):
                    if c is not None:
                        c = dict(c)
                        c['_corpus'] = f
                        cases.append(c)
    return cases


def main(pid, tier, seed, replay=None):
    t0 = time.time()
    modname = 'harness.' + pid.lower()
    mod = importlib.import_module(modname)
    workers = int(os.environ.get('VERIF_WORKERS', '0')) or (14 if tier == 'thorough' else 8)
    # a stage module run on its own (E2E, E2E3, RES: development aid) is not a property: its evidence goes to replays/
    is_property = bool(re.fullmatch(r'C\d\d', pid))
    evidence_path = os.path.join(common.VERIF, 'evidence' if is_property else 'replays', pid + ('.json' if is_property else '_stage_evidence.json'))
    if replay:
        # replaying one recorded input is not a check run: it must not replace the evidence of the last full run
        evidence_path = os.path.join(common.VERIF, 'replays', pid + '_replay_evidence.json')
    scratch = common.Scratch()
    lines = []
    exit_code = 0
    try:
        # ---- P: proof obligations
        po = common.proof_obligations(pid, clean=False)
        checker_note = None
        if tier == 'thorough' and not po['broken']:
            okc, outc = common.leanchecker(pid)
            po['obligations'] += 1
            if okc:
                po['discharged'] += 1
            else:
                po['broken'].append('leanchecker failed: ' + outc[-500:])
            checker_note = 'leanchecker re-checked ' + ','.join(common.obligations(pid)['modules'])

        # ---- C: correspondence
        if replay:
            obj = json.load(open(replay))
            cases = obj.get('cases') or [obj['case']]
        else:
            cases = load_corpus(pid) + list(mod.gen_cases(seed, tier))
            # additional correspondence stages served by other harness modules (e.g. the end-to-end pipeline
            # model under C08); their cases are tagged with the module that runs them
            for extra in getattr(mod, 'EXTRA_HARNESS', []):
                em = importlib.import_module(extra)
                for c in em.gen_cases(seed, tier):
                    c = dict(c)
                    c['_mod'] = extra
                    cases.append(c)
        if po['broken'] and any('lake build failed' in b for b in po['broken']):
            # no driver: the implementation side is still examined by the falsifier below
            results = []
            driver_ok = False
        else:
            results = run_cases(modname, cases, 1 if replay else workers, scratch.root)
            driver_ok = True

        if replay:
            for r in results:
                print('case %d: %s\n%s' % (r.index, 'AGREE' if r.ok else 'DISAGREE', r.detail))

        bad = [r for r in results if not r.ok]
        known = common.known_findings()
        known_keys = {k['match']: k for k in known if k['property'] == pid}
        violations = []
        reported_known = {}
        unexplained = []
        for r in bad:
            if r.finding and r.finding in known_keys:
                reported_known.setdefault(r.finding, r)
            elif r.violates:
                violations.append(r)
            else:
                unexplained.append(r)

        # ---- falsifier: anything broke but no failing input yet -> directed search on the real code
        searched = 0
        if (po['broken'] or unexplained) and not violations and hasattr(mod, 'search'):
            try:
                common.close_driver()
                _init_worker(modname, scratch.root)
                found, searched = mod.search(seed, tier, [cases[r.index] for r in unexplained[:20]])
                for case, detail in found:
                    r = CaseResult(False, detail=detail, violates=True)
                    r.index = len(cases)
                    cases.append(case)
                    violations.append(r)
            except Exception as e:
                unexplained.append(_exc_result('falsifier search raised: %s' % e, len(cases)))
            finally:
                common.close_driver()

        for key, r in reported_known.items():
            lines.append('KNOWN-FINDING: property=%s %s' % (pid, known_keys[key]['what']))

        os.makedirs(os.path.join(common.VERIF, 'replays'), exist_ok=True)
        if violations:
            r = min(violations, key=lambda r: len(json.dumps(cases[r.index], default=str)))
            case = cases[r.index]
            if hasattr(mod, 'shrink'):
                try:
                    _init_worker(modname, scratch.root)
                    case = mod.shrink(case)
                    common.close_driver()
                except Exception:
                    pass
            path = os.path.join(common.VERIF, 'replays', '%s_seed%s.json' % (pid, seed))
            common.write_json(path, dict(property=pid, kind='failing-input', seed=seed, tier=tier,
                                         detail=r.detail, case=case,
                                         n_failing=len(violations),
                                         replay_cmd='./check %s --replay %s' % (pid, os.path.relpath(path, common.VERIF))))
            lines.append('VIOLATION property=%s replay=%s' % (pid, os.path.relpath(path, common.VERIF)))
            exit_code = 1
        elif po['broken'] or unexplained:
            path = os.path.join(common.VERIF, 'replays', '%s_seed%s.json' % (pid, seed))
            common.write_json(path, dict(property=pid, kind='no-failing-input-found', seed=seed, tier=tier,
                                         broken_obligations=po['broken'],
                                         broken_correspondence=[dict(index=r.index, detail=r.detail) for r in unexplained[:10]],
                                         cases=[cases[r.index] for r in unexplained[:10] if r.index < len(cases)],
                                         falsifier_inputs_tried=searched,
                                         build_log=po['log'] if po['broken'] else ''))
            lines.append('VIOLATION property=%s replay=%s no-failing-input-found' % (pid, os.path.relpath(path, common.VERIF)))
            exit_code = 1

        # ---- evidence
        if not replay:
            keys = {}
            branches = {}
            relaxed = 0
            for r in results:
                relaxed += r.relaxed
                for b in r.branches:
                    branches[b] = branches.get(b, 0) + 1
                if r.nontrivial and r.key is not None:
                    keys[r.key] = 1
            samples = [r.sample for r in results if r.sample is not None][:3]
            if not samples and cases:
                samples = [_trim(cases[0])]
            required = list(getattr(mod, 'REQUIRED_BRANCHES', []))
            for extra in getattr(mod, 'EXTRA_HARNESS', []):
                required += list(getattr(importlib.import_module(extra), 'REQUIRED_BRANCHES', []))
            missing = [b for b in required if branches.get(b, 0) == 0]
            ev = dict(
                property_id=pid, tier=tier, seed=int(seed), level='proof',
                coverage=dict(
                    obligations=po['obligations'], discharged=po['discharged'],
                    checker_cmd='cd lean && lake build && lake env lean <Audit: #print axioms per theorem>' +
                                ('; lake env leanchecker <modules>' if tier == 'thorough' else ''),
                    trusted_base=TRUSTED_BASE + list(getattr(mod, 'TRUSTED_EXTRA', [])),
                    theorems=po['details'],
                    evaluations=len(results), distinct_nontrivial=len(keys),
                    rule=getattr(mod, 'RULE', ''),
                    samples=samples, branches=branches, margin_relaxed=relaxed,
                    disagreements=len(bad), known_findings_hit=sorted(reported_known),
                    exhaustive=bool(getattr(mod, 'EXHAUSTIVE', {}).get(tier, False)),
                    leanchecker=checker_note,
                ),
                assumptions=list(getattr(mod, 'ASSUMPTIONS', [])),
                wall_s=round(time.time() - t0, 2),
                violations=len(violations) + (1 if (exit_code == 1 and not violations) else 0),
            )
            common.write_json(evidence_path, ev)
            if missing and exit_code == 0:
                print('harness self-check failed: branches never exercised: %s' % missing)
                exit_code = 2
    finally:
        common.close_driver()
        scratch.cleanup()
    for l in lines:
        print(l)
    if exit_code == 0:
        print('OK property=%s tier=%s seed=%s cases=%d wall=%.1fs' % (pid, tier, seed, len(results), time.time() - t0))
    return exit_code


def _exc_result(msg, idx):
    r = CaseResult(False, detail=msg, violates=None)
    r.index = idx
    return r


def _trim(obj, n=600):
    s = json.dumps(obj, default=str)
    return obj if len(s) <= n else s[:n] + '…'
