#!/usr/bin/env python3
"""Confirm a candidate seeded change independently in a scratch worktree of /repo's HEAD:
  patch applies; pinned baseline tests still pass with it; demo exits 0 without it and 1 with it.
Copies confirmed candidates into /verif/seeded/<id>/ (patch.diff, demo.py, meta.json)."""
import json, os, shutil, subprocess, sys, concurrent.futures as cf
import xml.etree.ElementTree as ET
SRC = sys.argv[1] if len(sys.argv) > 1 else '/tmp/mutw/out'
base = json.load(open('/root/.vp/BASELINE.json'))['stable_pass']

def run(cmd, cwd, env=None, timeout=1800):
    e = dict(os.environ); e.update(env or {})
    r = subprocess.run(cmd, cwd=cwd, env=e, capture_output=True, text=True, timeout=timeout)
    return r.returncode, r.stdout + r.stderr

def tests_pass(tree):
    x = tree + '/_junit.xml'
    run(['/venv/bin/python', '-m', 'pytest', '-q', '-p', 'no:cacheprovider', '--timeout=900',
         '--continue-on-collection-errors', '--junitxml=' + x], tree)
    passed = set()
    for tc in ET.parse(x).getroot().iter('testcase'):
        if not any(c.tag in ('failure', 'error', 'skipped') for c in tc):
            passed.add(tc.get('classname') + '::' + tc.get('name'))
    os.remove(x)
    return [t for t in base if t not in passed]

def verify(sid):
    d = os.path.join(SRC, sid)
    tree = '/tmp/seedverify_' + sid
    subprocess.run(['git', '-C', '/repo', 'worktree', 'add', '-q', '--detach', tree, 'HEAD'], check=True, capture_output=True)
    res = dict(id=sid)
    try:
        env = {'PYTHONPATH': tree, 'MPLBACKEND': 'Agg'}
        c0, o0 = run(['/venv/bin/python', d + '/demo.py'], tree, env)
        res['demo_without'] = c0
        c, o = run(['git', 'apply', d + '/patch.diff'], tree)
        if c != 0:
            c, o = run(['git', 'apply', '-3', d + '/patch.diff'], tree)
        res['applies'] = (c == 0)
        if c != 0:
            res['apply_err'] = o[-300:]
            return res
        # refresh patch against current HEAD
        res['patch'] = run(['git', 'diff', 'HEAD'], tree)[1]
        c1, o1 = run(['/venv/bin/python', d + '/demo.py'], tree, env)
        res['demo_with'] = c1
        res['demo_out'] = o1[-400:]
        res['tests_missing'] = tests_pass(tree)
        res['ok'] = (c0 == 0 and c1 == 1 and not res['tests_missing'])
        return res
    finally:
        subprocess.run(['git', '-C', '/repo', 'worktree', 'remove', '--force', tree], capture_output=True)

ids = sorted(x for x in os.listdir(SRC) if os.path.exists(os.path.join(SRC, x, 'patch.diff')))
if len(sys.argv) > 2:
    ids = sys.argv[2:]
with cf.ThreadPoolExecutor(6) as ex:
    results = list(ex.map(verify, ids))
for r in results:
    sid = r['id']
    print(sid, 'OK' if r.get('ok') else 'REJECT', {k: v for k, v in r.items() if k not in ('patch', 'demo_out', 'id')})
    if r.get('ok'):
        dst = '/verif/seeded/' + sid
        os.makedirs(dst, exist_ok=True)
        open(dst + '/patch.diff', 'w').write(r['patch'])
        shutil.copy(os.path.join(SRC, sid, 'demo.py'), dst + '/demo.py')
        meta = json.load(open(os.path.join(SRC, sid, 'meta.json')))
        meta['confirmed'] = {'by': 'tools/verify_seeded.py in a scratch worktree of /repo HEAD',
                             'repo_head': subprocess.run(['git', '-C', '/repo', 'rev-parse', '--short', 'HEAD'], capture_output=True, text=True).stdout.strip(),
                             'patch_applies': True, 'baseline_stable_pass_all_pass_with_change': True,
                             'demo_exit_without_change': r['demo_without'], 'demo_exit_with_change': r['demo_with']}
        json.dump(meta, open(dst + '/meta.json', 'w'), indent=1)
