#!/bin/sh
# tools/coverage_all.sh [outdir] : which lines of /repo/sedfitter the quick tier of all checks executes (in-process,
# VERIF_WORKERS=1, under coverage.py).  Lines of the anchored code that no check executes are places where a change
# cannot be seen; the report is a work list for the generators, not a verdict.
out=${1:-/tmp/cov}; mkdir -p "$out"
cd "$(dirname "$0")/.." || exit 2
(cd lean && lake build >/dev/null 2>&1) || { echo "lake build failed"; exit 2; }
ids=$(python3 -c "import json;print(' '.join(c['property_id'] for c in json.load(open('MANIFEST.json'))['checks']))")
echo $ids | tr ' ' '\n' | xargs -P 10 -I{} sh -c "VERIF_WORKERS=1 COVERAGE_FILE=$out/.coverage.{} /venv/bin/python -m coverage run --source=/repo/sedfitter -m harness.cli {} --tier quick > $out/{}.log 2>&1; echo {} \$?"
cd "$out" && /venv/bin/python -m coverage combine --keep .coverage.* >/dev/null 2>&1
/venv/bin/python -m coverage report -m --omit='*/tests/*' > "$out/report.txt"; tail -45 "$out/report.txt"
