#!/venv/bin/python
"""Run the pinned baseline suite of /repo and compare with /root/.vp/BASELINE.json (stable_pass must pass)."""
import json, subprocess, sys, tempfile, os
import xml.etree.ElementTree as ET
b = json.load(open('/root/.vp/BASELINE.json'))
x = tempfile.mktemp(suffix='.xml')
subprocess.run(['/venv/bin/python', '-m', 'pytest', '-q', '-p', 'no:cacheprovider', '--timeout=900',
                '--continue-on-collection-errors', '--junitxml=' + x], cwd='/repo',
               stdout=subprocess.DEVNULL, stderr=subprocess.DEVNULL)
passed = set()
for tc in ET.parse(x).getroot().iter('testcase'):
    if not any(c.tag in ('failure', 'error', 'skipped') for c in tc):
        passed.add(tc.get('classname') + '::' + tc.get('name'))
os.remove(x)
missing = [t for t in b['stable_pass'] if t not in passed]
print('stable_pass: %d, passing now: %d, missing: %d' % (len(b['stable_pass']), len(passed), len(missing)))
for t in missing[:20]:
    print('  MISSING', t)
sys.exit(1 if missing else 0)
