#!/venv/bin/python
"""Concrete demonstrations of the defects found on the pinned tree (DESIGN.md §8).  Each probe prints
OK (property-conform behaviour) or DEFECT (with what happened)."""
import os, sys, tempfile, shutil, io, contextlib, traceback, copy
sys.path.insert(0, '/verif')
import numpy as np
from harness import common, packages as pk
common.setup_repo_import()
from astropy import units as u
from astropy.table import Table

tmp = tempfile.mkdtemp(prefix='probe_')
os.environ['TMPDIR'] = tmp
tempfile.tempdir = tmp

def probe(name):
    def deco(f):
        try:
            with common.quiet():
                r = f()
            print('%-4s %s' % (name, 'OK' if r is None else 'DEFECT ' + str(r)))
        except Exception as e:
            print('%-4s DEFECT raised %s: %s' % (name, type(e).__name__, str(e)[:150]))
        return f
    return deco

def mkinfo(names, chi2, flags=(1, 1, 1)):
    from sedfitter.fit_info import FitInfo
    info = FitInfo()
    info.source = pk.make_source('src', flags, [1.] * len(flags), [.1] * len(flags))
    n = len(names)
    info.av = np.arange(n, dtype=float); info.sc = np.arange(n, dtype=float) * 0.1
    info.chi2 = np.array(chi2, dtype=float); info.model_name = np.array(names)
    info.model_fluxes = None
    info.sort()
    return info

def mkpkg_v1(d, names, table_order=None, nap=1, wav=(1., 2., 5., 10.), reverse=False, unit=u.mJy):
    """per-file package: seds/*.fits + parameters.fits"""
    from sedfitter.sed import SED
    os.makedirs(d + '/seds')
    pk.write_conf(d, aperture_dependent=(nap > 1))
    w = np.array(wav, dtype=float)
    if reverse:
        w = w[::-1]
    seds = {}
    for i, n in enumerate(names):
        s = SED()
        s.name = n
        s.distance = 1. * u.kpc
        s.wav = w * u.micron
        s.nu = s.wav.to(u.Hz, equivalencies=u.spectral())
        if nap > 1:
            s.apertures = np.arange(1, nap + 1) * 100. * u.au
        s.flux = (np.arange(nap * len(w)).reshape(nap, len(w)) + 1. + 100 * i) * unit
        s.error = s.flux * 0.1
        s.write(d + '/seds/' + n + '_sed.fits')
        seds[n] = s
    order = table_order or names
    pk.write_parameters(d, order, {'PAR1': [float(names.index(n)) for n in order]})
    return seds

@probe('F1')
def f1():
    info = mkinfo(['b', 'a', 'c'], [3., 1., 2.])
    t = Table(); t['MODEL_NAME'] = np.array(['a', 'b', 'c']); t['P'] = [10., 20., 30.]
    r = info.filter_table(t)
    if list(r['P']) != [10., 30., 20.]:
        return 'rows %r' % list(r['P'])

@probe('F2')
def f2():
    from sedfitter.sed import SED
    d = tmp + '/f2'; os.makedirs(d)
    seds = mkpkg_v1(d, ['m1'], unit=u.erg / u.cm ** 2 / u.s)
    s = SED.read(d + '/seds/m1_sed.fits')

@probe('F3')
def f3():
    from sedfitter.utils.integrate import integrate_subset
    x = np.array([0., 1., 2., 3., 4.]); y = np.array([1., 2., 4., 3., 5.])
    v = integrate_subset(x, y, 0., 4.)
    if abs(v - 12.) > 1e-12:
        return 'integral over full range %r, exact 12.0' % v

@probe('F4')
def f4():
    from sedfitter.filter import Filter
    f = Filter()
    f.name = 'x'; f.central_wavelength = 1. * u.micron
    f.nu = np.array([5., 4., 3., 2., 1.]) * 1e14 * u.Hz
    f.response = np.array([0., 1., 2., 1., 0.])
    r = f.rebin(np.array([0.5, 1.5, 2.5, 3.5, 4.5, 5.5]) * 1e14 * u.Hz)
    if r.response.sum() <= 0:
        return 'decreasing-nu filter rebins to %r' % r.response

def mkcube(nm=2, nap=3, wav=(1., 2., 5., 10.), unc=True):
    from sedfitter.sed import SEDCube
    c = SEDCube()
    c.names = np.array(['m%d' % i for i in range(nm)])
    c.distance = 1. * u.kpc
    c.wav = np.array(wav) * u.micron
    c.apertures = np.arange(1, nap + 1) * 100. * u.au
    c.val = (np.arange(nm * nap * len(wav)).reshape(nm, nap, len(wav)) + 1.) * u.mJy
    if unc:
        c.unc = c.val * 0.1
    return c

@probe('F5')
def f5():
    from sedfitter.sed import SEDCube
    c = mkcube()
    p = tmp + '/f5.fits'; c.write(p)
    r = SEDCube.read(p, order='nu', memmap=False)
    # cell (model 0, aperture 0, wavelength 1 micron) must still be 1.0
    j = int(np.argmin(np.abs(r.wav.value - 1.)))
    if r.val[0, 0, j].value != 1.:
        return 'cell (m0, ap0, 1um) reads %r, stored 1.0' % r.val[0, 0, j].value

@probe('F5b')
def f5b():
    from sedfitter.sed import SEDCube
    c = mkcube(unc=False)
    p = tmp + '/f5b.fits'; c.write(p)
    r = SEDCube.read(p, order='nu', memmap=False)

@probe('F6')
def f6():
    from sedfitter.sed import SED
    d = tmp + '/f6'; os.makedirs(d)
    seds = mkpkg_v1(d, ['m1'])      # increasing wavelength
    r = SED.read(d + '/seds/m1_sed.fits', unit_flux=u.mJy, order='wav')
    if r.flux[0, 0].value != seds['m1'].flux[0, 0].value:
        return 'flux at 1um reads %r, stored %r' % (r.flux[0, 0].value, seds['m1'].flux[0, 0].value)

@probe('F7')
def f7():
    from sedfitter.convolve import convolve_model_dir
    from sedfitter.filter import Filter
    from sedfitter.convolved_fluxes import ConvolvedFluxes
    d = tmp + '/f7'; os.makedirs(d)
    c = mkcube(wav=(10., 5., 2., 1.))
    c.unc = c.val * 0.01
    c.write(d + '/flux.fits')
    pk.write_conf(d, True, version=2)
    pk.write_parameters(d, list(c.names), {'P': [1., 2.]})
    f = Filter(); f.name = 'F'; f.central_wavelength = 3. * u.micron
    f.nu = (np.array([6., 4., 2.5, 1.5]) * u.micron).to(u.Hz, equivalencies=u.spectral())
    f.response = np.array([0., 1., 1., 0.])
    f.normalize()
    convolve_model_dir(d, [f], memmap=False)
    cf = ConvolvedFluxes.read(d + '/convolved/F.fits')
    ratio = (cf.error / cf.flux).value
    if np.any(ratio > 0.05):
        return 'convolved errors are %r of the fluxes (stored uncertainties are 1%%)' % ratio.max()

@probe('F8')
def f8():
    from sedfitter.fit_info import FitInfoFile
    a = mkinfo(['a', 'b'], [1., 2.]); b = mkinfo(['a', 'b'], [2., 1.])
    a.meta.model_dir = b.meta.model_dir = 'x'; a.meta.filters = b.meta.filters = []; a.meta.extinction_law = b.meta.extinction_law = None
    f = FitInfoFile([a, b], 'r')
    if len(list(f)) != 2:
        return 'list input'

@probe('F9')
def f9():
    from sedfitter import write_parameters
    d = tmp + '/f9'; os.makedirs(d)
    pk.write_conf(d, False)
    pk.write_parameters(d, ['a', 'b', 'c'], {'P': [1., 2., 3.]})
    info = mkinfo(['a', 'b', 'c'], [3., 1., 2.])
    info.meta.model_dir = d; info.meta.filters = []; info.meta.extinction_law = None
    write_parameters(info, d + '/out.txt', select_format=('N', 2))
    if info.n_fits != 3:
        return "caller's FitInfo cut to %d fits by write_parameters" % info.n_fits

@probe('F10')
def f10():
    from sedfitter.convolve import convolve_model_dir_monochromatic
    res = []
    for chunk in (1, 2, 3, 4, 5, 6):
        d = tmp + '/f10_%d' % chunk; os.makedirs(d)
        mkpkg_v1(d, ['m1', 'm2'], wav=(1., 2., 3., 5., 8., 10.), reverse=True)
        max_ram = chunk * (4. * 2. * 2 * 1) / 1024. ** 3 * 1.0000001
        try:
            convolve_model_dir_monochromatic(d, max_ram=max_ram)
            n = len([f for f in os.listdir(d + '/convolved')])
        except Exception as e:
            n = type(e).__name__
        res.append(n)
    if res != [6] * 6:
        return 'files written per chunk size 1..6: %r (6 wavelengths)' % res

@probe('F10b')
def f10b():
    from sedfitter.convolve import convolve_model_dir_monochromatic
    d = tmp + '/f10b'; os.makedirs(d)
    mkpkg_v1(d, ['m1', 'm2'], wav=(1., 2., 3., 5., 8., 10.), reverse=True)
    convolve_model_dir_monochromatic(d, wav_min=2.5 * u.micron, wav_max=4. * u.micron)
    n = len(os.listdir(d + '/convolved'))
    if n != 1:
        return 'window holding one wavelength wrote %d files' % n

@probe('F11')
def f11():
    from sedfitter import extract_parameters
    d = tmp + '/f11'; os.makedirs(d)
    pk.write_conf(d, False)
    pk.write_parameters(d, ['c', 'a', 'b'], {'P': [3., 1., 2.]})
    info = mkinfo(['a', 'b', 'c'], [3., 1., 2.])
    info.meta.model_dir = d; info.meta.filters = []; info.meta.extinction_law = None
    extract_parameters(input=info, output_prefix=d + '/ex_', select_format=('A', 0))

@probe('F12')
def f12():
    d = tmp + '/f12'; os.makedirs(d)
    pk.write_conf(d, False)
    for j, w in enumerate([1., 2., 5.]):
        pk.write_convolved(d, 'F%d' % j, w, ['a', 'b'], [[1. + j], [2. + 3 * j]], [[0.], [0.]])
    ext = pk.make_extinction([0.1, 1., 10.], [100., 10., 1.])
    fitter = pk.make_fitter(d, ['F0', 'F1', 'F2'], [1., 1., 1.], ext, (0., 10.))
    i1 = fitter.fit(pk.make_source('s', [1, 1, 9], [1., 2., 3.], [.1, .2, .3]))
    i2 = fitter.fit(pk.make_source('s', [1, 1, 9], [1., 2., -3.], [.1, .2, .3]))
    if not np.allclose(np.asarray(i1.chi2), np.asarray(i2.chi2)):
        return 'flag-9 point with negative flux changes chi2: %r vs %r' % (np.asarray(i1.chi2), np.asarray(i2.chi2))

@probe('F13')
def f13():
    from sedfitter.sed import SED
    d = tmp + '/f13'; os.makedirs(d)
    seds = mkpkg_v1(d, ['m1'], nap=3, reverse=True)
    s = SED.read(d + '/seds/m1_sed.fits', unit_flux=u.mJy)
    s.interpolate(np.array([150., 250.]) * u.au)
    s.interpolate(np.array([150., 1000.]))

@probe('F14')
def f14():
    c = mkcube(unc=False)
    s = c.get_sed('m1')
    if s.error is not None:
        return 'error not None'

shutil.rmtree(tmp, ignore_errors=True)
