#!/bin/sh
# tools/sweep.sh <nseeds> [tier] [ids...] : run every claimed check on the unchanged tree with seeds 100..100+n-1
# (cwd: a checkout of /verif; builds the Lean library first).  Prints one line per failing (id, seed).
n=${1:-10}; tier=${2:-quick}; shift; shift
cd "$(dirname "$0")/.." || exit 2
(cd lean && lake build >/dev/null 2>&1) || { echo "lake build failed"; exit 2; }
ids="$*"
[ -z "$ids" ] && ids=$(python3 -c "import json;print(' '.join(c['property_id'] for c in json.load(open('MANIFEST.json'))['checks']))")
fail=0
for id in $ids; do
  i=0
  while [ $i -lt $n ]; do
    s=$((100+i))
    out=$(VERIF_SEED=$s ./check $id --tier $tier 2>&1 | grep -v conda | tail -3)
    case "$out" in
      *"OK property="*) ;;
      *) echo "FAIL $id seed=$s: $out"; fail=$((fail+1)); cp replays/${id}_seed$s.json /tmp/sweep_${id}_seed$s.json 2>/dev/null;;
    esac
    i=$((i+1))
  done
  echo "done $id"
done
echo "sweep finished: $fail failures"
