#!/usr/bin/env python3
"""Run the registered quick checks against every seeded change under /verif/seeded/<id>/.

Default: apply each patch to /repo itself (git apply), run the property's quick check, undo
(git checkout -- .).  With --scratch the patch is applied in a scratch worktree and the check is
pointed at it through SEDVERIF_REPO (used while other work needs /repo untouched)."""
import json, os, subprocess, sys, argparse, time
ap = argparse.ArgumentParser()
ap.add_argument('ids', nargs='*')
ap.add_argument('--scratch', action='store_true')
ap.add_argument('--tier', default='quick')
ap.add_argument('--props', default='', help='comma list: also run these other properties\' checks')
a = ap.parse_args()
V = '/verif'
ids = a.ids or sorted(os.listdir(V + '/seeded'))
res = {}
for sid in ids:
    d = os.path.join(V, 'seeded', sid)
    if not os.path.exists(d + '/patch.diff'):
        continue
    meta = json.load(open(d + '/meta.json'))
    pid = meta['property']
    if a.scratch:
        tree = '/tmp/seedcheck_%s' % sid
        subprocess.run(['git', '-C', '/repo', 'worktree', 'add', '-q', '--detach', tree, 'HEAD'], check=True)
    else:
        tree = '/repo'
    try:
        r = subprocess.run(['git', '-C', tree, 'apply', d + '/patch.diff'], capture_output=True, text=True)
        if r.returncode != 0:
            res[sid] = 'patch does not apply: ' + r.stderr.strip()[:200]
            continue
        env = dict(os.environ)
        if a.scratch:
            env['SEDVERIF_REPO'] = tree
        out = {}
        # `also_props` in meta.json: checks of other properties known to report this change (run with it every time)
        for p in [pid] + [x for x in a.props.split(',') if x] + [x for x in meta.get('also_props', []) if x not in a.props.split(',')]:
            t0 = time.time()
            c = subprocess.run([V + '/check', p, '--tier', a.tier], cwd=V, env=env, capture_output=True, text=True)
            viol = [l for l in c.stdout.splitlines() if l.startswith('VIOLATION')]
            out[p] = 'exit=%d %s (%.0fs)' % (c.returncode, viol[0] if viol else '', time.time() - t0)
        res[sid] = out
    finally:
        if a.scratch:
            subprocess.run(['git', '-C', '/repo', 'worktree', 'remove', '--force', tree])
        else:
            subprocess.run(['git', '-C', '/repo', 'checkout', '--', '.'])
    print(sid, res[sid], flush=True)
# merge into the record of earlier runs (one entry per seeded change: its latest run)
import fcntl
with open(V + '/seeded/.last_run.lock', 'w') as lk:     # several runs (disjoint properties) may finish together
    fcntl.flock(lk, fcntl.LOCK_EX)
    try:
        allres = json.load(open(V + '/seeded/_last_run.json'))
    except Exception:
        allres = {}
    allres.update(res)
    json.dump(allres, open(V + '/seeded/_last_run.json', 'w'), indent=1, sort_keys=True)
