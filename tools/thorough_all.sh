#!/bin/sh
# tools/thorough_all.sh [ids...] : run the thorough tier of every claimed check once (seed 0) and report time and exit
cd "$(dirname "$0")/.." || exit 2
(cd lean && lake build >/dev/null 2>&1) || { echo "lake build failed"; exit 2; }
ids="$*"
[ -z "$ids" ] && ids=$(python3 -c "import json;print(' '.join(c['property_id'] for c in json.load(open('MANIFEST.json'))['checks']))")
for id in $ids; do
  t0=$(date +%s)
  out=$(VERIF_SEED=0 ./check $id --tier thorough 2>&1 | grep -v conda | tail -2)
  t1=$(date +%s)
  echo "$id $((t1-t0))s: $out"
done
