#!/usr/bin/env python3
"""Generate MANIFEST.json: a property is claimed when its harness module and its obligations entry exist and
it is listed in CLAIMED below (set by hand after the check has been seen to pass on the unchanged tree)."""
import json, os, sys
V = '/verif'
props = [json.loads(l) for l in open(V + '/properties.jsonl')]
ob = json.load(open(V + '/lean/obligations.json'))
CLAIMED = sys.argv[1].split(',') if len(sys.argv) > 1 else []
MODEL = {
 'C01': ('linear_regression / optimal_scaling / chi_squared / Models.fit (ndim 2) / get_log_fluxes / get_av', 'Fitter.fit on generated distance-independent packages'),
 'C02': ('distance grid with pinned ends, clamped aperture interpolation x d^-2, per-distance 1-D fit, first argmin (Models.read + Models.fit ndim 3), plus the cube / distance-dependent pipeline model (cube write/read, convolve or nearest slice, fit, listing)', 'Fitter.fit on generated aperture-dependent packages of both formats, and the whole cube pipeline against the pipeline model'),
 'C03': ('flag masks, log transform, limit penalties (get_log_fluxes, chi_squared, Models.fit)', 'Fitter.fit over enumerated flag vectors, paired runs differing only in ignored / equivalent content'),
 'C04': ('argsort + gather of parallel arrays over IEEE-extended floats (FitInfo.sort) and the row assembly of Models.fit', 'FitInfo.sort on built objects and end-to-end fits with ties / 1e30 models'),
 'C05': ('FitInfo.keep over IEEE-extended floats (count-then-slice)', 'FitInfo.keep on enumerated ranked chi^2 vectors x selectors, and pairs of selectors'),
 'C06': ('integrate / integrate_subset / Filter.normalize / Filter.rebin / flux and variance sums', 'Filter.rebin and convolve_model_dir on generated filters and SED grids in either order'),
 'C07': ('order_to_match / sort_to_match with its post-check, both convolution paths; and the resolved-source rule (find_radius_sigma over IEEE-extended floats, per-band mask, chi^2 reset, first argmin over kept distances) on top of the C02 model', 'convolve_model_dir on per-file and cube packages built from the same SEDs, fits from each variant (memory-mapped or not, remove_resolved on / off, several fitters alive), re-convolution histories'),
 'C08': ('exact-data recovery of fit2 / fit3 and ranking, plus the end-to-end pipeline model runPipeline (SED write/read, rebin, convolve, sort_to_match, Models.read, fit, sort, keep, filter_table, listing) with row-integrity / order-invariance / planted-model composition theorems', 'whole pipeline: convolve, synthesise, fit(), write_parameters on planted data (both formats, both modes, staged histories), and every row of every listing of random per-file packages against the pipeline model'),
 'C09': ('filter_table (isin / rank / gather / post-check), ranges, counts', 'write_parameters, write_parameter_ranges, extract_parameters, filter_table on permuted parameter files'),
 'C10': ('fit() record loop, frame-level writer/reader, heap state machine of post-processing calls', 'fit() output files read back, three input forms, histories of post-processing calls with caller-object digests'),
 'C11': ('Perm-invariance of the regression sums, additive log shift, stateless fit step', 'paired Fitter.fit runs: permuted filters / models, scaled fluxes, interleaved histories'),
 'C12': ('sort-on-write / reverse-on-read of spectral axes, cube slices, optional parts', 'SED / SEDCube / ConvolvedFluxes write-read round trips, get_sed'),
 'C13': ('clamped linear interpolation over aperture tables, wavelength-dependent variant', 'ConvolvedFluxes.interpolate, SED.interpolate, SED.interpolate_variable'),
 'C14': ('np.interp with zero / edge fill and the -0.4 normalisation (Extinction.get_av)', 'Extinction.get_av after construction, pickling, table conversion, file reading, unit changes'),
 'C15': ('convert_flux as two steps through erg/cm^2/s with unit scale factors', 'SED.write + SED.read(unit_flux=...) over all unit pairs'),
 'C16': ('window -> index range, chunk loop, existing-file refusal (overwrite), nearest-wavelength selection', 'convolve_model_dir_monochromatic over all chunk sizes and windows; cube packages fitted at wavelengths'),
 'C17': ('distance / extinction scaling, aperture per filter, curve bookkeeping per display mode', 'plot(..., output_dir=None) LineCollection segments on cube packages'),
 'C18': ('single-pass partition by best chi^2 or chi^2 per point (filter_output)', 'filter_output on files and lists, re-runs on the same paths, records read back'),
 'C19': ('opcode-skeleton pickle frame scanner and reader (EOFError vs other errors)', 'FitInfoFile iteration over every truncation of real fit files'),
 'C20': ('str.split, column arithmetic, flag range, %e formatting (Source.from_ascii / to_ascii)', 'Source.from_ascii over all column counts and flag vectors, to_ascii round trips, dict / pickle round trips'),
}
checks = []
for p in props:
    pid = p['id']
    if pid not in CLAIMED:
        continue
    assert os.path.exists('%s/harness/%s.py' % (V, pid.lower())) and pid in ob, pid
    mdl, corr = MODEL[pid]
    n = len(ob[pid]['theorems'])
    checks.append({
        'property_id': pid,
        'quick_cmd': './check %s --tier quick' % pid,
        'thorough_cmd': './check %s --tier thorough' % pid,
        'evidence_file': 'evidence/%s.json' % pid,
        'replay_cmd_template': './check %s --replay {path}' % pid,
        'engine': 'lean4-model+correspondence',
        'level_claimed': {
            'category': 'proof',
            'text': ('%d Lean 4 theorems (kernel-checked, for all list lengths / field elements / op sequences) about a hand-written '
                     'executable model of: %s. The model is tied to /repo on every run by a correspondence check: %s, with the '
                     'model run in exact rational arithmetic through a line protocol; a disagreement is examined on the real code '
                     'and reported with the failing input as replay.' % (n, mdl, corr)),
            'design_ref': 'DESIGN.md §6 %s, §12' % pid},
        'level_note': ('Trusted: Lean kernel; axioms propext / Classical.choice / Quot.sound (audited per theorem each run; no '
                       'native_decide, no sorry); the correspondence harness (differential, sampled unless evidence says exhaustive); '
                       'driver-side log10 / 10**x approximations. Modelled, not verified: numpy / scipy / astropy / pickle primitives. '
                       'IEEE rounding is outside the model (tolerance = rounding budget; decisions within 1e-7 of a threshold are '
                       'compared in relaxed mode and counted).'),
        'technique': 'Lean 4 proof about executable model + differential correspondence with the real code'})
claimed = [c['property_id'] for c in checks]
m = {'version': 1,
     'setup_cmd': 'cd lean && lake build',
     'hooks': {'guard': 'SEDFITTER_VERIF',
               'enable': 'no hooks are needed: every observable is reachable through the public API; checks import /repo in-process via /venv/bin/python',
               'baseline_off_cmd': 'cd /repo && /venv/bin/python -m pytest -ra -q -p no:cacheprovider --timeout=900 --continue-on-collection-errors',
               'source_commits': [], 'add_only': True},
     'engines': [{'name': 'lean4-model+correspondence', 'path': 'lean/ harness/ check', 'serves_properties': claimed,
                  'kind_free_text': 'Lean 4 library (model, proofs, property theorems, axiom audit) + Python correspondence harness driving the model through a line protocol in exact rational arithmetic'}],
     'checks': checks,
     'notes': 'See DESIGN.md (§12 for what was built). Repairs of genuine defects are fix: commits in /repo, listed as fixed: lines in KNOWN_FINDINGS.txt.',
     'not_applicable': [{'property_id': p['id'], 'reason': 'check not integrated yet (Lean model + correspondence planned, see DESIGN.md §6)'} for p in props if p['id'] not in claimed]}
json.dump(m, open(V + '/MANIFEST.json', 'w'), indent=1)
print('claimed', claimed)
