#!/usr/bin/env python3
"""Merge builders' parts/<name>.json into SedVerif.lean, Driver.lean, obligations.json and MANIFEST.json."""
import glob, json, os, re
V = '/verif'
parts = []
for p in sorted(glob.glob(V + '/parts/builder*.json')):
    parts.append(json.load(open(p)))

# --- SedVerif.lean: every module under SedVerif/
mods = []
for root, _, files in os.walk(V + '/lean/SedVerif'):
    for f in sorted(files):
        if f.endswith('.lean'):
            rel = os.path.relpath(os.path.join(root, f), V + '/lean')[:-5].replace('/', '.')
            mods.append(rel)
mods.sort(key=lambda m: (0 if '.Model.' in m else 1 if '.Proofs.' in m else 2 if '.Properties.' in m else 3, m))
open(V + '/lean/SedVerif.lean', 'w').write(''.join('import %s\n' % m for m in mods))

# --- Driver.lean: every Drv module exporting a handler
handlers = []
drv_imports = []
for m in mods:
    if '.Drv.' in m:
        src = open(V + '/lean/' + m.replace('.', '/') + '.lean').read()
        hs = re.findall(r'^def (handle\w+)\s', src, re.M)
        if hs:
            drv_imports.append(m)
            handlers += hs
drv = open(V + '/lean/Driver.lean').read()
head = ''.join('import %s\n' % m for m in drv_imports)
body = drv[drv.index('/-!'):]
body = re.sub(r'def handlers : List \(String → Option \(Rd String\)\) := \[[^\]]*\]',
              'def handlers : List (String → Option (Rd String)) := [%s]' % ', '.join(handlers), body)
open(V + '/lean/Driver.lean', 'w').write(head + body)

# --- obligations.json
ob = json.load(open(V + '/lean/obligations.json'))
for p in parts:
    for k, v in p.get('obligations', {}).items():
        ob[k] = v
# the end-to-end pipeline model is an additional stage of C08's check: its theorems are audited there too
if 'E2E' in ob and 'C08' in ob:
    for m in ob['E2E']['modules']:
        if m not in ob['C08']['modules']:
            ob['C08']['modules'].append(m)
    for t in ob['E2E']['theorems']:
        if t not in ob['C08']['theorems']:
            ob['C08']['theorems'].append(t)
# likewise the cube / distance-dependent pipeline model is an additional stage of C02's check
if 'E2E3' in ob and 'C02' in ob:
    for m in ob['E2E3']['modules']:
        if m not in ob['C02']['modules']:
            ob['C02']['modules'].append(m)
    for t in ob['E2E3']['theorems']:
        if t not in ob['C02']['theorems']:
            ob['C02']['theorems'].append(t)
# the resolved-source rule (remove_resolved) is an additional stage of C07's check ("fits ... memory-mapped or not, agree")
if 'RES' in ob and 'C07' in ob:
    for m in ob['RES']['modules']:
        if m not in ob['C07']['modules']:
            ob['C07']['modules'].append(m)
    for t in ob['RES']['theorems']:
        if t not in ob['C07']['theorems']:
            ob['C07']['theorems'].append(t)
# cross-property compositions (Properties/Compose.lean): each theorem is audited with the checks of the properties it composes
for xk in [k for k in ob if k.startswith('X')]:
    for pid, thms in ob[xk].get('attach', {}).items():
        if pid in ob:
            for m in ob[xk]['modules']:
                if m not in ob[pid]['modules']:
                    ob[pid]['modules'].append(m)
            for t in thms:
                if t not in ob[pid]['theorems']:
                    ob[pid]['theorems'].append(t)
json.dump(ob, open(V + '/lean/obligations.json', 'w'), indent=1)
print('modules', len(mods), 'handlers', handlers, 'obligations', sorted(ob))
