#!/bin/sh
# tools/run_seeded_all.sh [jobs] : run every seeded change against its property's quick check, <jobs> properties at a
# time (scratch worktrees; /repo itself is not touched).  Results are merged into seeded/_last_run.json.
jobs=${1:-4}
cd "$(dirname "$0")/.." || exit 2
(cd lean && lake build >/dev/null 2>&1) || { echo "lake build failed"; exit 2; }
for p in $(python3 -c "
import json,os
ps=set()
for d in os.listdir('seeded'):
    f='seeded/%s/meta.json'%d
    if os.path.exists(f): ps.add(json.load(open(f))['property'])
print(' '.join(sorted(ps)))"); do echo $p; done | xargs -P "$jobs" -I{} sh -c 'ids=$(python3 -c "
import json,os,sys
print(\" \".join(sorted(d for d in os.listdir(\"seeded\") if os.path.exists(\"seeded/%s/meta.json\"%d) and json.load(open(\"seeded/%s/meta.json\"%d))[\"property\"]==\"{}\")))"); VERIF_WORKERS=4 python3 tools/run_seeded.py --scratch $ids > /tmp/seedall_{}.log 2>&1; echo "{} done"'
python3 tools/seeded_table.py
